#!/usr/bin/env python3
"""Regression of the monitors against the repaired defects: each patch under /verif/selftest re-introduces one defect
(the reverse of one `fix:` commit). A scratch copy of /repo gets the patch; the property's quick check must report a violation.
Nothing under /repo is touched (VERIF_REPO points the check at the scratch copy)."""
import json, os, shutil, subprocess, sys
V = "/verif"
idx = json.load(open(os.path.join(V, "selftest/index.json")))
scratch = "/tmp/selftest-repo"
bad = []
for e in idx:
    if len(sys.argv) > 1 and e["reverts"] not in sys.argv[1:] and e["property"] not in sys.argv[1:]:
        continue
    shutil.rmtree(scratch, ignore_errors=True)
    subprocess.check_call(["rsync", "-a", "--exclude", "target", "--exclude", ".git", "/repo/", scratch + "/"])
    r = subprocess.run(["git", "apply", "--unsafe-paths", "--directory", scratch, os.path.join(V, "selftest", e["patch"])], cwd="/", stdout=subprocess.PIPE, stderr=subprocess.STDOUT, text=True)
    if r.returncode != 0:
        r = subprocess.run(["patch", "-p1", "-d", scratch, "-i", os.path.join(V, "selftest", e["patch"])], stdout=subprocess.PIPE, stderr=subprocess.STDOUT, text=True)
        if r.returncode != 0:
            print("CANNOT APPLY", e["patch"], r.stdout[-500:]); bad.append(e["patch"]); continue
    t = subprocess.run("cargo test --offline --lib 2>&1 | grep '^test result'", shell=True, cwd=scratch, stdout=subprocess.PIPE, text=True).stdout
    env = dict(os.environ); env["VERIF_REPO"] = scratch
    c = subprocess.run(["./check", e["property"], "--tier", "quick"], cwd=V, env=env, stdout=subprocess.PIPE, stderr=subprocess.STDOUT, text=True)
    sigs = [l.strip() for l in c.stdout.splitlines() if l.strip().startswith("signature:")]
    ok = c.returncode == 1 and ("VIOLATION property=%s " % e["property"]) in c.stdout
    print("%s %-4s rc=%d unit-tests: %s | %s | %s" % ("ok " if ok else "MISSED", e["property"], c.returncode, t.strip()[:40], e["what"], "; ".join(sigs[:2])[:200]), flush=True)
    if not ok:
        bad.append(e["patch"])
shutil.rmtree(scratch, ignore_errors=True)
for d in os.listdir("/tmp"):
    if d.startswith("pvh-"):
        shutil.rmtree(os.path.join("/tmp", d), ignore_errors=True)
# evidence written by these runs describes the broken copies: restore nothing here, the caller re-runs the checks on /repo
print("MISSED:", bad)
sys.exit(1 if bad else 0)
