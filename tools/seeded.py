#!/usr/bin/env python3
"""Seeded-defect bookkeeping.

  tools/seeded.py confirm <worktree> <name> <property> [--features verif] [--needs "text"]
      In the sub-agent's scratch worktree (change applied, tests/demo.rs present, patch.diff written):
      confirms that the patch applies to /repo's HEAD, that with the change the crate builds (with and without the verif
      feature), the 93 unit tests pass and the demo FAILS, and that without the change the demo PASSES.
      On success stores /verif/seeded/<name>/{patch.diff, demo.rs, meta.json}.
  tools/seeded.py runall [--tier quick]
      Runs every seeded defect against the check of its own property; exit 1 and a MISSED list if one goes undetected.
  tools/seeded.py run <name> [CHECK ...] [--tier quick]
      Applies /verif/seeded/<name>/patch.diff to /repo (git apply), runs the given checks (default: the property's own),
      reverts /repo (git checkout -- .) and records which checks reported a violation in meta.json.
"""
import json, os, subprocess, sys, shutil, time

V = "/verif"

def sh(cmd, cwd=None, env=None, timeout=3600):
    r = subprocess.run(cmd, cwd=cwd, shell=True, stdout=subprocess.PIPE, stderr=subprocess.STDOUT, text=True, env=env, timeout=timeout)
    return r.returncode, r.stdout

def confirm(wt, name, prop, features, needs):
    feat = ("--features " + features) if features else ""
    patch = os.path.join(wt, "patch.diff")
    demo = os.path.join(wt, "tests/demo.rs")
    assert os.path.exists(patch) and os.path.exists(demo), "patch.diff / tests/demo.rs missing"
    ran = []
    def step(desc, cmd, want_ok, cwd=wt):
        rc, out = sh(cmd, cwd=cwd)
        ok = (rc == 0)
        ran.append({"cmd": cmd, "cwd": cwd, "rc": rc, "expected": "success" if want_ok else "failure"})
        print(("ok   " if ok == want_ok else "BAD  ") + desc + " (rc %d)" % rc)
        if ok != want_ok:
            print(out[-3000:])
            sys.exit(1)
        return out
    # patch only touches src/ and applies to /repo HEAD
    rc, out = sh("git -C /repo apply --check " + patch)
    if rc != 0:
        print("patch does not apply to /repo:", out); sys.exit(1)
    files = [l[6:] for l in open(patch) if l.startswith("+++ b/")]
    assert all(f.startswith("src/") for f in files), files
    # state with the change (worktree as left by the agent)
    rc, out = sh("git diff --quiet -- src", cwd=wt)
    if rc == 0:
        step("apply patch in worktree", "git apply patch.diff", True)
    step("build", "cargo build --offline", True)
    step("build --features verif", "cargo build --offline --features verif", True)
    out = step("unit tests with the change", "cargo test --offline --lib", True)
    assert "93 passed" in out, out[-500:]
    step("demo FAILS with the change", "cargo test --offline %s --test demo" % feat, False)
    step("revert the change", "git apply -R patch.diff", True)
    step("demo PASSES without the change", "cargo test --offline %s --test demo" % feat, True)
    step("re-apply the change", "git apply patch.diff", True)
    d = os.path.join(V, "seeded", name)
    os.makedirs(d, exist_ok=True)
    shutil.copy(patch, os.path.join(d, "patch.diff"))
    shutil.copy(demo, os.path.join(d, "demo.rs"))
    meta = {"name": name, "property": prop, "needs_to_manifest": needs, "demo_cmd": "cargo test --offline %s --test demo" % feat,
            "files": files, "confirmed": ran, "confirmed_at": time.strftime("%Y-%m-%d %H:%M:%S"), "detected_by": {}, "source": "independent sub-agent given only the property text"}
    json.dump(meta, open(os.path.join(d, "meta.json"), "w"), indent=1)
    print("stored", d)

def run(name, checks, tier):
    d = os.path.join(V, "seeded", name)
    meta = json.load(open(os.path.join(d, "meta.json")))
    if not checks:
        checks = [meta["property"]]
    rc, out = sh("git -C /repo status --porcelain --untracked-files=no")
    assert out.strip() == "", "/repo has uncommitted changes: " + out
    rc, out = sh("git -C /repo apply " + os.path.join(d, "patch.diff"))
    assert rc == 0, out
    res = {}
    try:
        for c in checks:
            t0 = time.time()
            rc, out = sh("./check %s --tier %s" % (c, tier), cwd=V)
            sigs = [l.strip()[len("signature: "):] for l in out.splitlines() if l.strip().startswith("signature: ")]
            if rc == 1 and ("VIOLATION property=%s " % c) not in out:
                rc = 3  # the driver itself failed: not a detection
                print(out[-1500:])
            res[c] = {"rc": rc, "signatures": sigs[:12], "wall_s": round(time.time() - t0, 1)}
            print("%s on %s: rc=%d %s" % (c, name, rc, "; ".join(sigs[:4])))
    finally:
        rc, out = sh("git -C /repo checkout -- .")
        rc2, out2 = sh("git -C /repo status --porcelain --untracked-files=no")
        assert out2.strip() == "", out2
    meta.setdefault("detected_by", {})
    for c, r in res.items():
        meta["detected_by"]["%s/%s" % (c, tier)] = r
    json.dump(meta, open(os.path.join(d, "meta.json"), "w"), indent=1)

def reconfirm(name, newpatch):
    """Re-confirms a stored seeded defect against /repo's current HEAD in a scratch clone (optionally with a re-based patch)."""
    d = os.path.join(V, "seeded", name)
    meta = json.load(open(os.path.join(d, "meta.json")))
    patch = newpatch or os.path.join(d, "patch.diff")
    wt = "/tmp/reconf-%d" % os.getpid()
    shutil.rmtree(wt, ignore_errors=True)
    try:
        rc, out = sh("git clone -q /repo %s" % wt)
        assert rc == 0, out
        os.makedirs(os.path.join(wt, "tests"), exist_ok=True)
        shutil.copy(os.path.join(d, "demo.rs"), os.path.join(wt, "tests/demo.rs"))
        if os.path.exists("/repo/Cargo.lock"):
            shutil.copy("/repo/Cargo.lock", os.path.join(wt, "Cargo.lock"))
        demo = meta["demo_cmd"]
        def step(desc, cmd, want_ok):
            rc, out = sh(cmd, cwd=wt)
            ok = (rc == 0)
            print(("ok   " if ok == want_ok else "BAD  ") + desc + " (rc %d)" % rc)
            if ok != want_ok:
                print(out[-2500:])
                raise SystemExit(1)
            return out
        step("demo PASSES without the change", demo, True)
        step("apply", "git apply " + patch, True)
        step("build", "cargo build --offline", True)
        step("build --features verif", "cargo build --offline --features verif", True)
        out = step("unit tests with the change", "cargo test --offline --lib", True)
        assert "93 passed" in out
        step("demo FAILS with the change", demo, False)
        head = sh("git -C /repo rev-parse --short HEAD")[1].strip()
        if newpatch:
            shutil.copy(newpatch, os.path.join(d, "patch.diff"))
            meta.setdefault("rebased", []).append({"onto": head, "why": "a later fix: commit in /repo touched the same lines; same change, re-applied by hand and re-confirmed"})
        meta.setdefault("reconfirmed_at", []).append(head)
        json.dump(meta, open(os.path.join(d, "meta.json"), "w"), indent=1)
        print("reconfirmed", name, "at", head)
    finally:
        shutil.rmtree(wt, ignore_errors=True)

if __name__ == "__main__":
    a = sys.argv[1:]
    if a[0] == "reconfirm":
        reconfirm(a[1], a[2] if len(a) > 2 else None)
        sys.exit(0)
    if a[0] == "confirm":
        feats = a[a.index("--features") + 1] if "--features" in a else ""
        needs = a[a.index("--needs") + 1] if "--needs" in a else ""
        confirm(a[1], a[2], a[3], feats, needs)
    elif a[0] == "runall":
        tier = a[a.index("--tier") + 1] if "--tier" in a else "quick"
        missed = []
        for name in sorted(os.listdir(os.path.join(V, "seeded"))):
            if not os.path.exists(os.path.join(V, "seeded", name, "meta.json")):
                continue
            run(name, [], tier)
            meta = json.load(open(os.path.join(V, "seeded", name, "meta.json")))
            own = meta["detected_by"].get("%s/%s" % (meta["property"], tier), {})
            if own.get("rc") != 1:
                missed.append(name)
        print("MISSED:", missed)
        sys.exit(1 if missed else 0)
    elif a[0] == "run":
        tier = a[a.index("--tier") + 1] if "--tier" in a else "quick"
        checks = [x for x in a[2:] if x.startswith("C")]
        run(a[1], checks, tier)
