#!/usr/bin/env python3
"""Regenerates /verif/MANIFEST.json from checks_table.py (single source of truth for the registered checks)."""
import json, os, sys, subprocess
HERE = os.path.dirname(os.path.dirname(os.path.abspath(__file__)))
sys.path.insert(0, HERE)
from checks_table import CHECKS, MANIFEST_TEXT

props = [json.loads(l) for l in open(os.path.join(HERE, "properties.jsonl"))]
hooks = subprocess.run(["git", "-C", "/repo", "log", "--format=%h %s"], stdout=subprocess.PIPE, text=True).stdout.splitlines()
hook_commits = [l.split()[0] for l in hooks if l.split(None, 1)[1].startswith("verif hook")]
checks = []
na = []
for p in props:
    cid = p["id"]
    if cid in CHECKS and cid in MANIFEST_TEXT:
        t = MANIFEST_TEXT[cid]
        checks.append({
            "property_id": cid,
            "quick_cmd": "./check %s --tier quick" % cid,
            "thorough_cmd": "./check %s --tier thorough" % cid,
            "evidence_file": "/verif/evidence/%s.json" % cid,
            "replay_cmd_template": "./check replay {path}",
            "engine": "pvh",
            "level_claimed": {"category": CHECKS[cid]["level"], "text": t["text"], "design_ref": "DESIGN.md section 5, " + cid},
            "level_note": t["note"],
            "technique": t["technique"],
        })
    else:
        na.append({"property_id": cid, "reason": "check not built yet (work in progress; see DESIGN.md section 5)"})
m = {
    "version": 1,
    "setup_cmd": "./check build",
    "hooks": {
        "guard": "cargo feature `verif` of the poster crate (off by default)",
        "enable": "the harness crate /verif/harness depends on poster with features = [\"verif\"] (path dependency on /repo, rebuilt by cargo on every check)",
        "baseline_off_cmd": "cd /repo && cargo test --workspace --no-fail-fast --offline",
        "source_commits": hook_commits,
        "add_only": True,
    },
    "engines": [{
        "name": "pvh",
        "path": "/verif/harness",
        "serves_properties": [c["property_id"] for c in checks],
        "kind_free_text": "Rust harness: scripted AsyncRead/AsyncWrite mocks, waker-strict deterministic executor, independent MQTT 5 reference codec, executable reference model of the client contract, bounded-exhaustive enumerator + PRNG walks; sharded into 16 worker processes by ./check (python3), which aggregates verdicts and writes evidence",
    }],
    "checks": checks,
    "not_applicable": na,
    "notes": "Technique family: runtime monitoring. Every verdict is taken by an oracle observing executions of the real library built from /repo's working tree. exit 0 = held on everything explored, 1 = VIOLATION, 2 = INCONCLUSIVE (never folded into the other two). Known findings / repaired defects: /verif/known_findings.txt.",
}
json.dump(m, open(os.path.join(HERE, "MANIFEST.json"), "w"), indent=1)
print("checks:", [c["property_id"] for c in checks], "not yet:", [n["property_id"] for n in na])
