"""Per-check metadata used by ./check: profiles per tier, evidence texts, observation minima."""

COMMON_ASSUMPTIONS = [
    "verdict covers only the executions produced by the stated generators and bounds (runtime monitoring, not proof)",
    "the harness' own reference MQTT 5 codec (harness/src/refcodec.rs, written from the OASIS text, self-tested on every run) is correct",
    "the transport mocks obey the AsyncRead/AsyncWrite contracts (wake on every state change, never Ok(0) for a non-empty buffer except at EOF)",
    "futures::select! may process a ready inbound packet and a ready request in either order; only per-source orders are asserted",
]

CHECKS = {}

def add(cid, level, rule, profiles, min_observed=None, assumptions=None, timeout=3000):
    CHECKS[cid] = {
        "level": level,
        "rule": rule,
        "profiles": profiles,
        "min_observed": min_observed or {},
        "assumptions": COMMON_ASSUMPTIONS + (assumptions or []),
        "timeout": timeout,
    }

add("C08", "exploration",
    "every sequence (bounded-exhaustive) of inbound PUBLISH/PUBREL packets is injected into a running client with one live and one dropped "
    "subscription stream; the PUBACK/PUBREC/PUBCOMP packets on the wire are matched one-to-one and in order against the injected packets. "
    "distinct = distinct (input sequence, abstract trace shape) pairs; a case is non-trivial when at least one packet was injected.",
    {"quick": ["checked"], "thorough": ["checked", "fast"]},
    {"quick": {"inbound_acks_matched": 1000, "evaluations": 1000}, "thorough": {"inbound_acks_matched": 100000}})

add("C05", "exploration",
    "bounded-exhaustive enumeration of every interleaving (choice-vector odometer, re-executed from scratch) of operation starts on two handle clones, "
    "acknowledgement deliveries in any order, held/released and spurious polls, plus long PRNG walks; an executable model maps each operation to the "
    "packet identifier read off the wire and to the acknowledgement generated for it (unique reason string / user property per ack) and is compared with "
    "the futures' results at every quiescent point. distinct = distinct abstract trace shapes (per-op kind/acceptance/ack state/result class + wire packet type sequence).",
    {"quick": ["checked"], "thorough": ["checked", "fast"]},
    {"quick": {"op_results_matched_to_their_ack": 5000, "op_pending_checked": 5000}, "thorough": {"op_results_matched_to_their_ack": 500000}})
