"""Per-check metadata used by ./check: profiles per tier, evidence texts, observation minima."""

COMMON_ASSUMPTIONS = [
    "verdict covers only the executions produced by the stated generators and bounds (runtime monitoring, not proof)",
    "the harness' own reference MQTT 5 codec (harness/src/refcodec.rs, written from the OASIS text, self-tested on every run) is correct",
    "the transport mocks obey the AsyncRead/AsyncWrite contracts (wake on every state change, Ok(0) for a non-empty buffer only at EOF of the reader, or from the writer where a check injects a full sink as a fault)",
    "futures::select! may process a ready inbound packet and a ready request in either order; only per-source orders are asserted",
]

CHECKS = {}

def add(cid, level, rule, profiles, min_observed=None, assumptions=None, timeout=3000):
    CHECKS[cid] = {
        "level": level,
        "rule": rule,
        "profiles": profiles,
        "min_observed": min_observed or {},
        "assumptions": COMMON_ASSUMPTIONS + (assumptions or []),
        "timeout": timeout,
    }

add("C08", "exploration",
    "every sequence (bounded-exhaustive) of inbound PUBLISH/PUBREL packets is injected into a running client with one live and one dropped "
    "subscription stream; the PUBACK/PUBREC/PUBCOMP packets on the wire are matched one-to-one and in order against the injected packets. "
    "distinct = distinct (input sequence, abstract trace shape) pairs; a case is non-trivial when at least one packet was injected.",
    {"quick": ["checked"], "thorough": ["checked", "fast"]},
    {"quick": {"inbound_acks_matched": 1000, "evaluations": 1000}, "thorough": {"inbound_acks_matched": 100000}})

add("C05", "exploration",
    "(+ real-thread stress: 2-8 OS threads, every result verified against the acknowledgement the broker thread generated for that very request; + identifier-pair sweep via hook H2) bounded-exhaustive enumeration of every interleaving (choice-vector odometer, re-executed from scratch) of operation starts on two handle clones, "
    "acknowledgement deliveries in any order, held/released and spurious polls, plus long PRNG walks; an executable model maps each operation to the "
    "packet identifier read off the wire and to the acknowledgement generated for it (unique reason string / user property per ack) and is compared with "
    "the futures' results at every quiescent point. distinct = distinct abstract trace shapes (per-op kind/acceptance/ack state/result class + wire packet type sequence).",
    {"quick": ["checked"], "thorough": ["checked", "fast", "tsan?"]},
    {"quick": {"op_results_matched_to_their_ack": 5000, "op_pending_checked": 5000, "mt_results_matched_to_their_own_ack": 10000, "identifier_pairs": 300}, "thorough": {"op_results_matched_to_their_ack": 500000, "mt_results_matched_to_their_own_ack": 200000}})

add("C06", "exploration",
    "structured sweep (QoS x every legal PUBACK/PUBREC/PUBCOMP reason code x short/full form x late polling of the QoS 2 future x companion traffic) plus "
    "bounded-exhaustive interleavings and PRNG walks; the wire trace is decoded by the reference decoder and checked against the handshake rules "
    "(one PUBLISH, DUP=0, id, exactly one PUBREL only after a successful PUBREC, none after a failing one) and publish() results against the reason codes. "
    "distinct = distinct (parameters, abstract trace shape).",
    {"quick": ["checked"], "thorough": ["checked", "fast"]},
    {"quick": {"op_results_matched_to_their_ack": 3000, "sweep_cases": 800}, "thorough": {"op_results_matched_to_their_ack": 300000}})

add("C07", "exploration",
    "bounded-exhaustive interleavings of subscribe calls, SUBACKs, inbound PUBLISH packets (registered / other stream / both / never-registered / absent subscription identifier, QoS 0/1/2), "
    "stream take / hold / release / drop, unsubscribe and cancelled subscribe futures, plus PRNG walks with up to 12 subscriptions and identifiers at the variable-byte-integer steps; "
    "per subscribe() call the yielded items (all accessor values) are compared with the model's expected sequence. distinct = distinct abstract trace shapes.",
    {"quick": ["checked"], "thorough": ["checked", "fast"]},
    {"quick": {"stream_items_checked": 5000, "inbound_publishes": 5000}, "thorough": {"stream_items_checked": 500000}})

add("C09", "exploration",
    "all sequences (bounded-exhaustive) over PUBLISH(QoS 2, id, DUP) / PUBREL(id) for three identifiers, plus PRNG walks interleaved with other traffic; the model keeps the set of "
    "QoS 2 identifiers answered with PUBREC and not yet released and predicts exactly which deliveries reach the stream. distinct = distinct (sequence, trace shape).",
    {"quick": ["checked"], "thorough": ["checked", "fast"]},
    {"quick": {"qos2_redeliveries": 5000, "stream_items_checked": 5000}, "thorough": {"qos2_redeliveries": 500000}})

add("C10", "exploration",
    "Receive Maximum R in {1,2,3}: all histories up to the depth bound over publishes and acknowledgements (success and failure, any outstanding one), with the quota model compared at every step, "
    "hook H3 snapshots checked for `internal quota + outstanding = R` and `quota <= R`, and an end-of-script probe counting how many further publishes are accepted; "
    "R in {5,255,256,1000,65535,absent}: fill-to-the-limit runs and long random histories. distinct = distinct (R, abstract trace shape).",
    {"quick": ["checked", "fast"], "thorough": ["checked", "fast"]},
    {"quick": {"quota_refusals_seen": 2000, "slot_releases": 2000, "quota_probes": 1000}, "thorough": {"quota_refusals_seen": 100000}})

add("C13", "fault_enumeration",
    "terminating causes are injected in every enumerated session state: connect()/authorize() against all 22 CONNACK reasons, AUTH challenges and transport faults after every prefix of the response; "
    "run() against all 28 server DISCONNECT reasons x short/full forms x properties x 5 session states, user DISCONNECT, EOF, read/write error, undecodable input and handle drop, with and without requests queued behind the cause; "
    "plus bounded-exhaustive paths with the cause at every position. Expected value per cause from the model; `run() returned although no cause was injected` is also a violation. "
    "distinct = distinct (cause, parameters, state) tuples / abstract trace shapes.",
    {"quick": ["checked"], "thorough": ["checked", "fast"]},
    {"quick": {"terminations_checked": 2000, "connect_outcomes_checked": 80, "connect_faults_checked": 50}, "thorough": {"terminations_checked": 50000}})

add("C14", "fault_enumeration",
    "crash-point enumeration: drop(context) is offered at every step of every bounded path (operations created-not-polled, queued behind a stalled writer, awaiting their ack, between the QoS 2 phases, "
    "held with a delivered ack; streams with and without buffered items, taken or not); afterwards the wake-only executor runs to quiescence and every future / stream must have completed as stated. "
    "distinct = distinct abstract trace shapes.",
    {"quick": ["checked"], "thorough": ["checked", "fast", "asan?", "miri?"]},
    {"quick": {"context_exited_results_seen": 5000}, "thorough": {"context_exited_results_seen": 200000}})

add("C15", "exploration",
    "bounded-exhaustive interleavings in which any pending future (or stream) is cancelled at any point, for Receive Maximum 1, 2 and unlimited; run() must stay pending, other operations keep their own results "
    "(C05/C07 rules stay active), late acknowledgements are delivered, and an end-of-script probe counts free flow-control slots. distinct = distinct (R, abstract trace shape).",
    {"quick": ["checked"], "thorough": ["checked", "fast"]},
    {"quick": {"cancellations": 5000, "late_acks_for_cancelled_ops": 500, "quota_probes": 1000}, "thorough": {"cancellations": 500000}})

add("C03", "exploration",
    "one inbound packet sequence is delivered under many transport chunkings and compared (stream items, acknowledgement bytes written, operation results) with the same bytes delivered one packet per read, "
    "and with the model's ground truth: ALL 2^(n-1) compositions of short streams (as trickled arrivals and as read-size caps), every single cut position and every fixed read size 1..1100 of a 20 KiB stream "
    "with 1-/2-/3-byte remaining lengths, packet boundaries swept across the client's own 512/1024-byte buffer steps, PRNG compositions; all under the wake-only executor, where "
    "`unread input, run() pending, no waker registered` at quiescence is a lost wakeup and run() ending without the mock signalling EOF is a premature end-of-stream. "
    "distinct = distinct (packet sequence, chunk plan) pairs.",
    {"quick": ["checked", "fast"], "thorough": ["checked", "fast", "dev", "miri?"]},
    {"quick": {"compositions": 20000, "single_cuts": 2000, "fixed_read_sizes": 500}, "thorough": {"compositions": 500000}})

# ---------------------------------------------------------------------------------------------
# Texts for MANIFEST.json (level_claimed.text / level_note / technique), per registered check.
RM = "runtime monitoring: "
MANIFEST_TEXT = {
 "C03": {
  "text": "Held on every chunking explored: all compositions of short streams (exhaustive), every cut position / read size of a long stream, buffer-boundary alignments, PRNG compositions, against both the reference framing and the model, under a wake-only executor. A bounded exploration of an unbounded input space - appropriate because the reassembly code is a small state machine whose behaviour depends on offsets relative to packet and buffer boundaries, which the sweeps cover systematically.",
  "note": "Trusted: harness mocks/executor, reference codec, model. Not covered: chunkings of streams longer than those generated; 4-byte remaining length only sampled (thorough tier).",
  "technique": RM + "differential trace comparison across transport chunkings + lost-wakeup detection at executor quiescence"},
 "C05": {
  "text": "Held on all interleavings up to the depth bound (exhaustive) and on long random walks: each future's result is compared with the acknowledgement generated for the packet identifier read off the wire for that operation; pending futures are checked to stay pending.",
  "note": "Trusted: harness, reference codec, model. Bounded depth / concurrency (<=3-4 concurrent operations exhaustively, 6 in walks).",
  "technique": RM + "history checking against an executable model (unique markers per operation and acknowledgement), bounded-exhaustive schedule enumeration + random walks"},
 "C06": {
  "text": "Held on the full sweep QoS x every legal reason code x forms x late polling x companion traffic, on all bounded interleavings and on random walks; the wire is decoded by an independent decoder and checked against the handshake rules.",
  "note": "Trusted: harness, reference codec, model.",
  "technique": RM + "wire-trace checking with an independent decoder + result/reason-code oracle"},
 "C07": {
  "text": "Held on all bounded interleavings of subscribes, SUBACKs, inbound PUBLISH packets with every subscription-identifier situation, stream operations and cancellations, and on random walks with up to 12 streams.",
  "note": "Trusted: harness, reference codec, model. Stream contents are compared through every public accessor of PublishData.",
  "technique": RM + "exactly-once / ordering check of per-stream item sequences against a model"},
 "C08": {
  "text": "Held on all inbound sequences up to the length bound (exhaustive over a 38-symbol alphabet) and random longer ones: acknowledgements on the wire matched one-to-one, in order, with the injected packets.",
  "note": "Trusted: harness, reference codec.",
  "technique": RM + "one-to-one in-order matching of wire acknowledgements against injected packets"},
 "C09": {
  "text": "Held on all sequences of QoS 2 deliveries / re-deliveries / releases for three identifiers up to the length bound, and on random walks with other traffic.",
  "note": "Trusted: harness, reference codec, model of the set of unreleased identifiers.",
  "technique": RM + "exactly-once check of stream items against a model of unreleased QoS 2 identifiers"},
 "C10": {
  "text": "Held on all histories up to the depth bound for R in {1,2,3}, on fill-to-the-limit runs for larger R including 65535/absent, and on resumed connections whose CONNACK announces any relation of R to the number of re-sent handshakes, with conservation checked at every step through hook H3 and by black-box probes.",
  "note": "Trusted: harness, model; H3 snapshots are auxiliary (the black-box probe decides on its own). Debug and release arithmetic both run. On a resumed connection with fewer slots than re-sent handshakes nothing is asserted about the quota. Stray acknowledgements are judged only while nothing is outstanding (auxiliary).",
  "technique": RM + "conservation invariant (hooked state) + black-box quota probes over enumerated histories"},
 "C13": {
  "text": "Each terminating cause was injected in each enumerated session state and the returned value compared with the documented outcome; also checked that run() does not return without a cause.",
  "note": "Trusted: harness, reference codec, model. Error variants are asserted only where the property names them.",
  "technique": RM + "fault injection at enumerated points with an expected-outcome oracle"},
 "C14": {
  "text": "drop(context) was injected at every step of every bounded path; afterwards every future and stream was driven by a wake-only executor to quiescence and checked.",
  "note": "Trusted: harness, model. `Pending forever` is decided as `pending at quiescence with no wake outstanding` in the closed world of the harness.",
  "technique": RM + "crash-point enumeration with a quiescence (no-wake-outstanding) oracle"},
 "C15": {
  "text": "Any pending future / stream was cancelled at any point of all bounded interleavings; run() stayed pending, survivors kept their results, slots were counted by an end probe.",
  "note": "Trusted: harness, model. One residual case is a recorded known finding if listed in known_findings.txt.",
  "technique": RM + "cancellation-point enumeration with model comparison and quota probes"},
}

add("C17", "fault_enumeration",
    "crash-point enumeration: after every bounded history of QoS 1/2 publishes and acknowledgements the connection is cut, hook H1 backdates the disconnection, the context is given a new transport, "
    "reconnects (same Session Expiry Interval, CONNACK session present) and runs; the packets on the second wire before any new request are compared with the model (unfinished PUBLISH with DUP=1 in order, "
    "unfinished PUBREL in order, nothing else; nothing at all when expired), then acknowledgements are delivered on the new connection and the original futures must complete. "
    "distinct = distinct (expiry, elapsed, abstract trace shape).",
    {"quick": ["checked"], "thorough": ["checked", "fast"]},
    {"quick": {"resumed_sessions": 2000, "expired_sessions": 2000, "publishes_expected_resent": 2000, "pubrels_expected_resent": 300},
     "thorough": {"resumed_sessions": 100000}},
    ["hook H1 (feature verif) is the only way to reach the resume path: production code never records a disconnection", "elapsed times are kept >= 6 s away from the expiry boundary so the wall clock cannot decide a verdict"])
MANIFEST_TEXT["C17"] = {
  "text": "The disconnection was injected after every bounded history and for expiry 0 / finite (before and after expiry) / never; the second connection's wire and the completion of the original futures were compared with the model.",
  "note": "Trusted: harness, reference codec, model, hook H1 (sets the disconnection timestamp, nothing else). The CONNACK of the resuming connection may override the expiry interval and announce its own Receive Maximum (below / at / above the number of unfinished handshakes) and Maximum Packet Size. Not asserted (not stated by the property): CONNACK without session present for an unexpired session.",
  "technique": RM + "crash-point enumeration + wire-trace comparison against a model of unfinished handshakes"}

add("C01", "exploration",
    "for every generated request (per request type: the empty request, every single optional field with every boundary value, every pair, all-but-one, all, PRNG subsets; strings/binaries of 0/1/127/128/16383/16384/65535 bytes incl. multi-byte UTF-8; "
    "integer extremes; every QoS / retain / subscription option / reason value; lengths steered across the 1/2/3(/4)-byte variable-byte-integer steps; identifiers seeded across their boundaries through hook H2) the bytes received by the AsyncWrite mock "
    "are split and strictly decoded by the independent reference decoder (remaining length and property length must equal exactly what follows; reserved bits; legal properties) and compared field by field with the request; "
    "requests missing a mandatory part must be refused with nothing written. Fragmentation: PRNG multi-request scripts under partial / pending / stalled writers, wire must remain whole packets in submission order. "
    "distinct = distinct request specs (index within its generator) / abstract trace shapes for the fragmentation scripts.",
    {"quick": ["checked"], "thorough": ["checked", "fast"]},
    {"quick": {"packets_decoded_and_matched": 3000, "requests_expected_refused": 20}, "thorough": {"packets_decoded_and_matched": 100000}},
    ["AuthOpts::reason_string cannot be exercised: the method consumes the builder and returns ()", "strings are valid UTF-8 without U+0000 (the API takes &str); empty topic names only together with a topic alias; will options only as a complete will (topic + payload)"])
MANIFEST_TEXT["C01"] = {
  "text": "Held for every generated request and fragmentation script: each written packet was accepted by a strict independent decoder and equalled the request field by field; incomplete requests were refused before writing.",
  "note": "Trusted: the reference decoder (self-tested every run), mocks. An input-space sweep, not a proof: values outside the boundary pools are only sampled by the PRNG.",
  "technique": RM + "round-trip of written bytes through an independent strict MQTT 5 decoder, boundary-value sweep + random sampling"}

add("C02", "exploration",
    "every server packet type is encoded by the independent reference encoder (every subset class of its legal properties: none, each single property with boundary values, all pairs, all-but-one, all, repeated user properties, PRNG subsets; "
    "orders as listed / reversed / shuffled; every legal reason code from the specification's tables; short forms with remaining length 0/1/2/3) and delivered in the phase where it is legal; the values read back through the public accessors "
    "(ConnectRsp, ConnectError, AuthRsp, SubscribeRsp, UnsubscribeRsp, PublishData, Puback/Pubrec/PubcompError, Disconnected, UserProperties) are compared with what was encoded, absent properties with the standard's defaults. "
    "distinct = distinct (packet type, property set index, order, reason / form / size) tuples.",
    {"quick": ["checked"], "thorough": ["checked", "fast"]},
    {"quick": {"values_matched": 5000, "connack_decoded": 1000, "publishes_decoded": 1000, "acks_decoded": 500, "disconnects_decoded": 300}, "thorough": {"values_matched": 200000}},
    ["a successful CONNACK announcing Subscription Identifiers unavailable is excluded (documented assertion)", "for PUBACK/PUBREC/PUBCOMP with reason < 0x80 only Ok(()) can be observed (the API exposes no success content)"])
MANIFEST_TEXT["C02"] = {
  "text": "Held for every generated packet: accepted, and every accessor equalled the encoded value or the standard's default.",
  "note": "Trusted: the reference encoder (self-tested), mocks. Sweep + sampling of the property-subset space, not exhaustive over values.",
  "technique": RM + "round trip: independent MQTT 5 encoder -> client -> public accessors, boundary-value sweep + random sampling"}

add("C04", "fault_enumeration",
    "fault enumeration with a no-panic / no-wedge oracle (catch_unwind + panic hook around every poll of library futures; `call pending, unread input, no waker` and `call still pending after the transport ended` at executor quiescence; "
    "a logical bound on transport calls per poll): (a) all byte strings up to the length bound over a 16-symbol boundary alphabet in each phase; (b,c) ~70 valid packets of every type - expected, unexpected for the phase, "
    "client-only, acknowledgements for unknown identifiers, spliced/zero/unknown properties - whole, duplicated, every truncation, every byte perturbed, every bit flipped, remaining length rewritten incl. 5-byte encodings, stacked PRNG mutations; "
    "(d) EOF / read error at every inbound byte offset and write error at every outbound byte offset of a canned conversation. Debug and release arithmetic. distinct = distinct (input bytes, phase) pairs.",
    {"quick": ["checked", "fast", "dev"], "thorough": ["checked", "fast", "dev", "asan?", "miri?"]},
    {"quick": {"byte_strings": 100000, "byte_mutations": 30000, "truncations": 3000, "read_faults": 200, "write_faults": 100}, "thorough": {"byte_strings": 3000000}},
    ["the documented assertion on brokers announcing no subscription-identifier support is exempt (its panic message is recognised and not reported)"], timeout=3400)
MANIFEST_TEXT["C04"] = {
  "text": "Every enumerated input / fault was delivered to a client in each phase; no panic, no stall with unread input and no call left pending after the transport ended was observed.",
  "note": "Trusted: mocks, executor (a stall is decided in the closed world of the harness). Aborts (stack overflow, OOM) are caught as worker crashes and attributed to the running case. A poll of library code that never returns (an endless loop that allocates nothing and never touches the transport) is seen by the worker's CPU-time watchdog: 40 s (quick) / 150 s (thorough) of process CPU time without the heartbeat around polls advancing ends the worker with the case named - a violation when the spin is inside library code, inconclusive when it is in the harness.",
  "technique": RM + "fault enumeration / mutation of valid packets with panic capture and quiescence (wedge) detection; ASan tier for the dependencies' unsafe code"}

add("C12", "exploration",
    "for each request (publish QoS 0/1/2, subscribe, unsubscribe, ping, disconnect; option sets giving an encoded length L from 2 to ~70 000 incl. every L in a band around 127/128 and 16383/16384, thorough: every L in 2..2100) "
    "L is measured by running the identical request on a twin session without limit; then the request runs against Maximum Packet Size M in {L-1, L/2, L, L+1, 1, 2^32-1, absent} x Receive Maximum {1,2}: "
    "L > M must give MaximumPacketSizeExceeded with zero bytes written, unchanged H3 state (quota, pending acks, stream registrations, retransmit queue), an intact quota (black-box probe) and no completion on a stray acknowledgement; "
    "L <= M must write exactly the twin's bytes. The same Context is also connected a second time (plain / expired session / resumed session) with another M or none in the second CONNACK: the second CONNACK alone decides. "
    "distinct = distinct (request, M, R) and (request, M first, M second, reconnect mode).",
    {"quick": ["checked", "fast"], "thorough": ["checked", "fast"]},
    {"quick": {"oversized_requests": 500, "fitting_requests": 500, "h3_state_comparisons": 300, "quota_probes": 200, "second_connection_cases": 200}, "thorough": {"oversized_requests": 10000}})
MANIFEST_TEXT["C12"] = {
  "text": "Held for every generated (request, M, R): oversized requests refused with MaximumPacketSizeExceeded, nothing written and nothing left behind; fitting requests written in full.",
  "note": "Trusted: mocks, hook H3 for the `nothing left behind` state comparison (black-box probes decide independently for quota and pending acknowledgements).",
  "technique": RM + "differential against a twin run without limit + hooked-state comparison + black-box probes"}

add("C11", "exploration",
    "broker-side monitor over the wire in logical (arrival) order: every PUBLISH QoS>0 / SUBSCRIBE / UNSUBSCRIBE must carry a non-zero identifier different from that of every operation whose acknowledgement the broker has not sent yet; "
    "every subscribe() gets its own subscription identifier; starting an operation never panics. Single task: histories of up to 300 000 identifier-consuming operations (several wrap-arounds) with 1 / 7 / 1000 / 60000 outstanding, "
    "counters seeded below the wrap through hook H2; multi-thread: real OS threads with handle clones issuing concurrent batches against a context thread and a reordering broker thread. distinct = distinct (run parameters).",
    {"quick": ["checked", "fast"], "thorough": ["checked", "fast", "tsan?", "miri?"]},
    {"quick": {"id_consuming_operations": 400000, "identifier_wraps": 4, "mt_operations_completed": 100000}, "thorough": {"id_consuming_operations": 2000000}},
    ["the property's proviso is respected by construction: fewer than 65535 identifiers are allocated while any one operation is outstanding (window <= 60000, FIFO acknowledgement)",
     "more than 268 435 455 subscribe() calls on one client cannot be represented in MQTT 5 and are not driven"], timeout=3400)
MANIFEST_TEXT["C11"] = {
  "text": "Held on every long history and multi-thread run: identifiers seen on the wire were non-zero and never equal to one still outstanding; several 16-bit wrap-arounds observed per run; no panic while starting operations.",
  "note": "Trusted: broker-side monitor (its `outstanding` is a subset of the truly outstanding operations, so an alarm is always genuine), mocks. The multi-thread driver is the only source of OS nondeterminism; its verdict is computed from wire order, never from wall-clock.",
  "technique": RM + "broker-side uniqueness monitor over long histories (wrap-around) and real-thread stress; ThreadSanitizer tier for the cross-thread handle/channels"}

add("C16", "exploration",
    "differential over polling disciplines: PRNG scripts (one stimulus at a time, operations of every kind, acknowledgements, inbound traffic, stream operations, cancellations, terminating causes, drop(context)) are generated under the wake-only executor "
    "and replayed under `sweep all tasks after every event` and `spurious polls at PRNG positions`, combined with 1-/2-byte read caps, trickled arrival and partial / pending writes; the canonical observations "
    "(request bytes, acknowledgement bytes, every operation's result, every stream's items, context results, unread byte count) must be identical; at every script end a sweep at wake-only quiescence must change nothing. "
    "distinct = distinct (variant, abstract trace shape).",
    {"quick": ["checked"], "thorough": ["checked", "fast"]},
    {"quick": {"identical_observations": 3000, "spurious_polls": 10000, "sweeps": 5000}, "thorough": {"identical_observations": 300000}})
MANIFEST_TEXT["C16"] = {
  "text": "Every script produced identical observations under wake-only, sweep-after-every-event and spurious-poll executors and under all transport plans; no sweep at wake-only quiescence had an effect.",
  "note": "Trusted: executor and mocks. Scripts apply one stimulus at a time so that the outcome at each settle point is unique for a correct client (confluence); races are the business of C05/C13.",
  "technique": RM + "differential trace comparison across executor polling disciplines (wake-only vs sweeps vs spurious polls) and transport plans"}


# ---------------------------------------------------------------------------------------------
# Scenario families added in later rounds: each must have been exercised, or the run is INCONCLUSIVE (a scenario that
# silently does nothing - see DESIGN section 12, item 12 - must not pass for coverage). Minima are well below what a quick
# run observes; the thorough tier observes at least as much.
EXTRA_MIN = {
    "C01": {"resumed_sessions_with_options": 100, "retransmitted_packets_decoded": 300},
    "C02": {"follow_up_packets": 500, "packets_delivered_in_pieces": 1000},
    "C03": {"second_connection_cases": 100},
    "C04": {"history_state_cases": 500, "history_state_sequences": 400, "zero_length_write_faults": 60},
    "C05": {"wide_cases": 5, "resumed_connection_cases": 20, "walks_with_reconnection": 50},
    "C06": {"publishes_with_options": 20, "walks_with_reconnection": 40},
    "C07": {"ack_write_failure_cases": 6, "expired_session_cases": 10, "rolling_subscription_cases": 6, "many_subscription_cases": 2, "walks_with_reconnection": 60, "stream_items_checked": 100000, "inbound_publishes_with_varied_size": 1000},
    "C08": {"large_packet_backlog_cases": 40, "wide_cases": 6},
    "C09": {"wide_cases": 6, "ack_write_failure_cases": 10, "walks_with_reconnection": 40, "sequences_with_resumption": 10000},
    "C10": {"resumption_quota_cases": 100, "stray_ack_quota_cases": 20},
    "C11": {"subscription_id_boundary_cases": 5, "reconnection_cases": 20},
    "C12": {"second_connection_cases": 200, "sessions_established_through_authorize": 400},
    "C13": {"second_connection_cases": 150, "refused_request_cases": 8, "reconnections": 250},
    "C14": {"wide_cases": 6, "stream_items_checked": 10000},
    "C15": {"identifier_reuse_cases": 60, "cancel_then_resume_cases": 60, "wide_cases": 6, "late_acks_for_cancelled_ops": 100000},
    "C16": {"burst_cases": 20, "variant_runs": 3000},
    "C17": {"connections_cut_by_write_error": 5000, "wide_cases": 8, "resumptions_with_connack_receive_maximum": 1500, "broken_resumption_cases": 20},
}
# round 8
for _cid, _m in {
    "C02": {"refusing_connacks_without_subscription_identifier_support": 100},
    "C03": {"long_runs_of_small_packets": 10},
    "C05": {"identifier_wrap_cases": 25},
    "C07": {"partially_refused_subscription_cases": 12},
    "C08": {"ack_write_failure_cases": 18},
    "C09": {"expired_session_cases": 5},
    "C12": {"oversized_requests_with_a_publish_in_flight": 80},
    "C13": {"inbound_traffic_sequences": 500},
    "C14": {"dropped_in_mid_write_cases": 40},
}.items():
    EXTRA_MIN.setdefault(_cid, {}).update(_m)
# round 10
for _cid, _m in {
    "C03": {"shortest_packet_cases": 40},
    "C05": {"pruning_vs_waiting_operation_cases": 20},
    "C06": {"length_step_publishes": 18},
    "C07": {"qos2_identifier_order_cases": 8},
    "C12": {"oversized_requests_with_an_established_subscription": 60},
    "C17": {"cancelled_publish_cases": 40},
}.items():
    EXTRA_MIN.setdefault(_cid, {}).update(_m)
# round 9
for _cid, _m in {
    "C02": {"publishes_with_non_utf8_payload": 200},
    "C03": {"backlog_from_the_start_cases": 60},
    "C04": {"reconnections_after_transport_end": 60},
    "C05": {"early_operation_cases": 20},
    "C06": {"resumed_connection_cases": 20},
    "C09": {"several_identifier_cases": 20},
    "C10": {"early_publish_cases": 10},
    "C13": {"first_connection_ended_inside_a_packet": 40},
    "C14": {"queued_behind_the_end_cases": 4},
    "C17": {"resumptions_through_authorize": 2000},
}.items():
    EXTRA_MIN.setdefault(_cid, {}).update(_m)
# round 11
for _cid, _m in {
    "C01": {"full_window_sessions": 50, "pubrels_written_at_full_window": 10, "requests_at_full_window": 300},
    "C05": {"acks_with_property_section_over_110_bytes": 1000},
    "C06": {"publishes_built_with_every_setter_called_twice": 50000},
    "C07": {"inbound_pubrel_with_reason_0x92": 10000, "inbound_publishes_with_every_forwardable_property": 10000},
    "C08": {"inbound_pubrel_with_reason_0x92": 1000},
    "C09": {"inbound_pubrel_with_reason_0x92": 10000},
    "C10": {"run_given_up_while_resending_cases": 100},
    "C11": {"failed_exchange_wrap_resume_cases": 40, "identifiers_reused_after_a_failed_exchange": 40, "real_wraps_after_a_failed_exchange": 1},
    "C12": {"largest_packets_written_in_full": 1},
    "C13": {"refusing_connacks_with_subscription_identifiers_unavailable": 40},
    "C17": {"resent_publishes_with_retain_and_properties": 1000},
}.items():
    EXTRA_MIN.setdefault(_cid, {}).update(_m)
# round 12
for _cid, _m in {
    "C01": {"torn_packet_cases": 60},
    "C03": {"second_connections_with_packets_behind_the_connack": 50},
    "C04": {"deep_read_cases": 30},
    "C05": {"requests_over_the_maximum_packet_size": 500},
    "C06": {"publishes_with_multi_byte_characters_in_the_topic": 500},
    "C07": {"identifier_shared_between_directions_cases": 10, "inbound_publishes_with_topic_alias_in_place_of_the_topic": 500},
    "C08": {"inbound_publishes_with_topic_alias_in_place_of_the_topic": 200},
    "C09": {"identifier_shared_between_directions_cases": 10},
    "C10": {"resumption_cases_with_unanswered_non_publish_requests": 50},
    "C11": {"publishes_with_multi_byte_characters_in_the_topic": 10000, "requests_over_the_maximum_packet_size": 300},
    "C12": {"cases_over_a_transport_taking_packets_in_pieces": 1000},
    "C13": {"server_disconnects_ending_in_a_user_property_with_empty_value": 100},
    "C16": {"directed_given_up_scripts": 15},
    "C17": {"packets_arriving_together_with_the_connack_of_a_later_connection": 5000},
}.items():
    EXTRA_MIN.setdefault(_cid, {}).update(_m)
# round 13
for _cid, _m in {
    "C01": {"exchanges_finished_before_the_connection_was_lost": 100},
    "C02": {"neighbouring_identifier_cases": 30},
    "C03": {"long_runs_of_small_packets": 20},
    "C04": {"packets_with_a_four_byte_remaining_length": 10},
    "C05": {"unwritten_request_cases": 25},
    "C08": {"backlog_cases_behind_a_four_byte_remaining_length": 10},
    "C12": {"abandoned_oversized_requests": 80},
    "C13": {"auth_challenge_sizes_checked": 12},
    "C14": {"waiting_when_the_connection_ended_cases": 50},
    "C15": {"dropped_stream_next_to_live_ones_cases": 40},
    "C17": {"connections_ended_by_the_users_disconnect": 2000},
}.items():
    EXTRA_MIN.setdefault(_cid, {}).update(_m)
# round 14
for _cid, _m in {
    "C05": {"refused_in_the_midst_cases": 30},
    "C07": {"size_class_cases": 20, "stream_handovers": 50},
    "C10": {"walks_with_inbound_traffic": 300, "inbound_pubrels_in_quota_histories": 2000},
    "C11": {"full_cycles_with_one_operation_outstanding": 2},
    "C12": {"identical_request_cases": 100},
    "C14": {"operations_started_after_the_drop_in_long_runs": 150000},
    "C16": {"stream_handovers": 150},
}.items():
    EXTRA_MIN.setdefault(_cid, {}).update(_m)
# round 15
for _cid, _m in {
    "C05": {"acks_behind_a_large_message": 100},
    "C07": {"repeated_identifier_cases": 30},
    "C08": {"dropped_stream_next_to_live_ones_cases": 40},
    "C09": {"repeated_identifier_cases": 30},
    "C12": {"oversized_requests_at_a_full_window": 80},
    "C14": {"requests_queued_when_the_context_was_dropped": 5000},
    "C16": {"task_handovers": 2000},
}.items():
    EXTRA_MIN.setdefault(_cid, {}).update(_m)
# round 16
for _cid, _m in {
    "C01": {"requests_after_an_earlier_connection_with_limits": 40},
    "C02": {"inbound_packets_beyond_the_servers_own_limit": 16},
    "C05": {"resumptions_under_a_limit_below_a_carried_over_publish": 8},
    "C06": {"identifier_pairs": 80},
    "C09": {"run_given_up_while_acknowledging_cases": 3},
    "C16": {"handovers_inside_a_packet": 30},
    "C17": {"second_losses_with_everything_acknowledged": 500},
}.items():
    EXTRA_MIN.setdefault(_cid, {}).update(_m)
for _cid, _m in EXTRA_MIN.items():
    for _tier in ("quick", "thorough"):
        CHECKS[_cid]["min_observed"].setdefault(_tier, {})
        for _k, _v in _m.items():
            CHECKS[_cid]["min_observed"][_tier].setdefault(_k, _v)
