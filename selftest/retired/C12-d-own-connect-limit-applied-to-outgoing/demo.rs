//! C12 demonstration: only the Maximum Packet Size announced by the *server* (in CONNACK)
//! limits what the client may send. When the CONNACK carries no Maximum Packet Size, every
//! request is written in full - whatever options the client put into its own CONNECT.

use futures::{
    io::{AsyncRead, AsyncWrite},
    poll,
};
use poster::{
    error::MqttError, ConnectOpts, Context, ContextHandle, DisconnectOpts, PublishOpts, QoS,
    SubscribeOpts, SubscriptionOpts,
};
use std::{
    collections::VecDeque,
    io,
    pin::Pin,
    sync::{Arc, Mutex},
    task::{Context as TaskCx, Poll, Waker},
};

#[derive(Default)]
struct PipeState {
    data: VecDeque<u8>,
    waker: Option<Waker>,
}

/// Broker -> client direction.
#[derive(Clone, Default)]
struct BrokerTx(Arc<Mutex<PipeState>>);

impl BrokerTx {
    fn feed(&self, bytes: &[u8]) {
        let mut st = self.0.lock().unwrap();
        st.data.extend(bytes.iter().copied());
        if let Some(w) = st.waker.take() {
            w.wake();
        }
    }
}

impl AsyncRead for BrokerTx {
    fn poll_read(
        self: Pin<&mut Self>,
        cx: &mut TaskCx<'_>,
        buf: &mut [u8],
    ) -> Poll<io::Result<usize>> {
        let mut st = self.0.lock().unwrap();
        if st.data.is_empty() {
            st.waker = Some(cx.waker().clone());
            return Poll::Pending;
        }
        let n = buf.len().min(st.data.len());
        for slot in buf.iter_mut().take(n) {
            *slot = st.data.pop_front().unwrap();
        }
        Poll::Ready(Ok(n))
    }
}

/// Client -> broker direction: records everything the client writes.
#[derive(Clone, Default)]
struct BrokerRx(Arc<Mutex<Vec<u8>>>);

impl BrokerRx {
    fn take(&self) -> Vec<u8> {
        std::mem::take(&mut *self.0.lock().unwrap())
    }
}

impl AsyncWrite for BrokerRx {
    fn poll_write(
        self: Pin<&mut Self>,
        _cx: &mut TaskCx<'_>,
        buf: &[u8],
    ) -> Poll<io::Result<usize>> {
        self.0.lock().unwrap().extend_from_slice(buf);
        Poll::Ready(Ok(buf.len()))
    }

    fn poll_flush(self: Pin<&mut Self>, _cx: &mut TaskCx<'_>) -> Poll<io::Result<()>> {
        Poll::Ready(Ok(()))
    }

    fn poll_close(self: Pin<&mut Self>, _cx: &mut TaskCx<'_>) -> Poll<io::Result<()>> {
        Poll::Ready(Ok(()))
    }
}

/// Total length of the first MQTT packet in `bytes` (fixed header + remaining length).
fn first_packet_len(bytes: &[u8]) -> usize {
    let mut value = 0usize;
    let mut shift = 0;
    let mut idx = 1;
    loop {
        let b = bytes[idx];
        value |= ((b & 0x7f) as usize) << shift;
        idx += 1;
        if b & 0x80 == 0 {
            break;
        }
        shift += 7;
    }
    idx + value
}

/// Connects with the given options; the broker answers with `connack`.
async fn connected(
    opts: ConnectOpts<'_>,
    connack: &[u8],
) -> (Context<BrokerTx, BrokerRx>, ContextHandle, BrokerTx, BrokerRx) {
    let (mut ctx, handle) = Context::new();
    let to_client = BrokerTx::default();
    let from_client = BrokerRx::default();

    ctx.set_up((to_client.clone(), from_client.clone()));
    to_client.feed(connack);
    ctx.connect(opts).await.expect("connect");

    let connect = from_client.take();
    assert_eq!(connect[0], 0x10, "CONNECT expected first");
    assert_eq!(first_packet_len(&connect), connect.len());

    (ctx, handle, to_client, from_client)
}

const CONNACK_NO_M: [u8; 5] = [0x20, 0x03, 0x00, 0x00, 0x00];
// Property 0x27 (Maximum Packet Size) = 40.
const CONNACK_M_40: [u8; 10] = [0x20, 0x08, 0x00, 0x00, 0x05, 0x27, 0x00, 0x00, 0x00, 0x28];

/// The client limits what it is willing to RECEIVE to 32 bytes; the server announces no limit.
/// Requests larger than 32 bytes must still be written in full.
#[test]
fn no_server_limit_client_limit_in_connect_is_irrelevant() {
    futures::executor::block_on(async {
        let (mut ctx, mut handle, to_client, from_client) =
            connected(ConnectOpts::new().maximum_packet_size(32), &CONNACK_NO_M).await;
        let mut h_sub = handle.clone();
        let mut h_q1 = handle.clone();
        let mut h_disc = handle.clone();

        let mut run = Box::pin(ctx.run());
        assert!(poll!(run.as_mut()).is_pending());

        let payload = [0xabu8; 100];

        // QoS 0 publish, L > 32.
        {
            let mut op = Box::pin(
                handle.publish(PublishOpts::new().topic_name("a/b").payload(&payload)),
            );
            assert!(poll!(op.as_mut()).is_pending());
            assert!(poll!(run.as_mut()).is_pending());
            let res = match poll!(op.as_mut()) {
                Poll::Ready(res) => res,
                Poll::Pending => panic!("QoS 0 publish did not complete"),
            };
            assert!(
                res.is_ok(),
                "QoS 0 publish refused although the server announced no Maximum Packet Size: {:?}",
                res.err().map(|e| e.to_string())
            );
            let written = from_client.take();
            assert!(written.len() > 100, "PUBLISH not written: {} bytes", written.len());
            assert_eq!(written[0] >> 4, 3);
            assert_eq!(first_packet_len(&written), written.len());
        }

        // QoS 1 publish, L > 32.
        {
            let mut op = Box::pin(
                h_q1.publish(
                    PublishOpts::new()
                        .topic_name("a/b")
                        .qos(QoS::AtLeastOnce)
                        .payload(&payload),
                ),
            );
            assert!(poll!(op.as_mut()).is_pending());
            assert!(poll!(run.as_mut()).is_pending());
            let written = from_client.take();
            assert!(
                written.len() > 100,
                "QoS 1 PUBLISH not written although no limit was announced ({} bytes written)",
                written.len()
            );
            assert_eq!(written[0], 0x32);
            assert_eq!(first_packet_len(&written), written.len());
            // topic: 2 + 3 bytes, then the packet identifier
            let hdr = written.len() - (2 + 3 + 2 + 1 + 100);
            let pid = [written[hdr + 5], written[hdr + 6]];
            to_client.feed(&[0x40, 0x02, pid[0], pid[1]]);
            assert!(poll!(run.as_mut()).is_pending());
            match poll!(op.as_mut()) {
                Poll::Ready(res) => assert!(res.is_ok(), "QoS 1 publish failed"),
                Poll::Pending => panic!("QoS 1 publish did not complete"),
            }
        }

        // SUBSCRIBE with a long topic filter, L > 32.
        {
            let filter = "sensors/building-7/floor-3/room-12/temperature/#";
            let mut op = Box::pin(h_sub.subscribe(
                SubscribeOpts::new().subscription(filter, SubscriptionOpts::new()),
            ));
            assert!(poll!(op.as_mut()).is_pending());
            assert!(poll!(run.as_mut()).is_pending());
            let written = from_client.take();
            assert!(
                written.len() > 32,
                "SUBSCRIBE not written although no limit was announced ({} bytes written)",
                written.len()
            );
            assert_eq!(written[0], 0x82);
            assert_eq!(first_packet_len(&written), written.len());
            let pid = [written[2], written[3]];
            to_client.feed(&[0x90, 0x04, pid[0], pid[1], 0x00, 0x00]);
            assert!(poll!(run.as_mut()).is_pending());
            match poll!(op.as_mut()) {
                Poll::Ready(res) => assert!(res.is_ok(), "subscribe failed"),
                Poll::Pending => panic!("subscribe did not complete"),
            }
        }

        // Graceful disconnect.
        {
            let mut op = Box::pin(h_disc.disconnect(DisconnectOpts::new()));
            assert!(poll!(op.as_mut()).is_pending());
            match poll!(run.as_mut()) {
                Poll::Ready(res) => assert!(res.is_ok()),
                Poll::Pending => panic!("run() did not finish after DISCONNECT"),
            }
            assert!(matches!(poll!(op.as_mut()), Poll::Ready(Ok(()))));
            assert_eq!(from_client.take()[0], 0xe0);
        }
    });
}

/// Control: the limit announced by the server is honoured exactly, and it takes precedence over
/// whatever the client wrote into CONNECT.
#[test]
fn server_limit_is_honoured() {
    for client_limit in [None, Some(16u32), Some(4096u32)] {
        futures::executor::block_on(async {
            let opts = match client_limit {
                Some(limit) => ConnectOpts::new().maximum_packet_size(limit),
                None => ConnectOpts::new(),
            };
            let (mut ctx, mut handle, _to_client, from_client) =
                connected(opts, &CONNACK_M_40).await;
            let mut run = Box::pin(ctx.run());
            assert!(poll!(run.as_mut()).is_pending());

            // PUBLISH QoS 0, topic "t": L = 2 + 3 + 1 + payload = 6 + payload.
            for (payload_len, fits) in [(33usize, true), (34, true), (35, false), (100, false)] {
                let payload = vec![0x55u8; payload_len];
                let mut op = Box::pin(
                    handle.publish(PublishOpts::new().topic_name("t").payload(&payload)),
                );
                assert!(poll!(op.as_mut()).is_pending());
                assert!(poll!(run.as_mut()).is_pending());
                let res = match poll!(op.as_mut()) {
                    Poll::Ready(res) => res,
                    Poll::Pending => panic!("publish did not complete"),
                };
                let written = from_client.take();
                if fits {
                    assert!(res.is_ok());
                    assert_eq!(written.len(), 6 + payload_len);
                    assert!(written.len() <= 40);
                } else {
                    assert!(matches!(res, Err(MqttError::MaximumPacketSizeExceeded(_))));
                    assert!(written.is_empty());
                }
            }
        });
    }
}
