//! C11 demonstration: every SUBSCRIBE / PUBLISH (QoS>0) the client puts on the wire must carry,
//! *as framed by a conforming receiver*, a non-zero packet identifier that is unique among the
//! outstanding operations, and every subscribe() call its own subscription identifier.
//!
//! The history: one QoS 1 PUBLISH that stays outstanding for the whole run, then 130 identical
//! subscribe() calls, each carrying one user property of 125 encoded bytes, then one more PUBLISH.
//! The subscription identifier grows with the history (1 byte up to 127, 2 bytes from 128 on),
//! so the property section of the 128th SUBSCRIBE is the first one that reaches 128 bytes and needs
//! a two-byte Property Length.
//!
//! The broker side is an independent, strict MQTT 5 framer written here; it never trusts the client.

use futures::executor::LocalPool;
use futures::io::{AsyncRead, AsyncWrite};
use futures::task::LocalSpawnExt;
use poster::{ConnectOpts, Context, PublishOpts, QoS, SubscribeOpts, SubscriptionOpts};
use std::collections::{HashSet, VecDeque};
use std::io;
use std::pin::Pin;
use std::sync::{Arc, Mutex};
use std::task::{Context as TaskCx, Poll, Waker};

// ---------------------------------------------------------------- in-memory transport

#[derive(Default)]
struct Pipe {
    data: VecDeque<u8>,
    waker: Option<Waker>,
}

#[derive(Clone, Default)]
struct Shared(Arc<Mutex<Pipe>>);

impl Shared {
    fn feed(&self, bytes: &[u8]) {
        let mut pipe = self.0.lock().unwrap();
        pipe.data.extend(bytes.iter().copied());
        if let Some(waker) = pipe.waker.take() {
            waker.wake();
        }
    }

    fn take(&self) -> Vec<u8> {
        self.0.lock().unwrap().data.drain(..).collect()
    }
}

struct Reader(Shared);
struct Writer(Shared);

impl AsyncRead for Reader {
    fn poll_read(
        self: Pin<&mut Self>,
        cx: &mut TaskCx<'_>,
        buf: &mut [u8],
    ) -> Poll<io::Result<usize>> {
        let mut pipe = (self.0).0.lock().unwrap();
        if pipe.data.is_empty() {
            pipe.waker = Some(cx.waker().clone());
            return Poll::Pending;
        }
        let n = buf.len().min(pipe.data.len());
        for slot in buf.iter_mut().take(n) {
            *slot = pipe.data.pop_front().unwrap();
        }
        Poll::Ready(Ok(n))
    }
}

impl AsyncWrite for Writer {
    fn poll_write(
        self: Pin<&mut Self>,
        _cx: &mut TaskCx<'_>,
        buf: &[u8],
    ) -> Poll<io::Result<usize>> {
        (self.0).0.lock().unwrap().data.extend(buf.iter().copied());
        Poll::Ready(Ok(buf.len()))
    }

    fn poll_flush(self: Pin<&mut Self>, _cx: &mut TaskCx<'_>) -> Poll<io::Result<()>> {
        Poll::Ready(Ok(()))
    }

    fn poll_close(self: Pin<&mut Self>, _cx: &mut TaskCx<'_>) -> Poll<io::Result<()>> {
        Poll::Ready(Ok(()))
    }
}

// ---------------------------------------------------------------- strict broker-side framer

#[derive(Debug)]
struct Seen {
    packet_type: u8,
    qos: u8,
    packet_id: Option<u16>,
    subscription_id: Option<u32>,
}

struct Cursor<'a> {
    buf: &'a [u8],
    pos: usize,
}

impl<'a> Cursor<'a> {
    fn remaining(&self) -> usize {
        self.buf.len() - self.pos
    }

    fn u8(&mut self) -> Result<u8, String> {
        let val = *self
            .buf
            .get(self.pos)
            .ok_or_else(|| "ran out of bytes".to_string())?;
        self.pos += 1;
        Ok(val)
    }

    fn u16(&mut self) -> Result<u16, String> {
        Ok(((self.u8()? as u16) << 8) | self.u8()? as u16)
    }

    fn varint(&mut self) -> Result<u32, String> {
        let mut val = 0u32;
        for idx in 0..4 {
            let byte = self.u8()?;
            val |= ((byte & 0x7f) as u32) << (7 * idx);
            if byte & 0x80 == 0 {
                return Ok(val);
            }
        }
        Err("variable byte integer longer than four bytes".into())
    }

    fn take(&mut self, n: usize) -> Result<&'a [u8], String> {
        if self.remaining() < n {
            return Err(format!("need {} bytes, {} left", n, self.remaining()));
        }
        let out = &self.buf[self.pos..self.pos + n];
        self.pos += n;
        Ok(out)
    }

    fn string(&mut self) -> Result<&'a [u8], String> {
        let len = self.u16()? as usize;
        let out = self.take(len)?;
        std::str::from_utf8(out).map_err(|e| e.to_string())?;
        Ok(out)
    }
}

/// Properties of SUBSCRIBE: Subscription Identifier (0x0b) and User Property (0x26) only.
fn subscribe_properties(body: &mut Cursor<'_>) -> Result<Option<u32>, String> {
    let len = body.varint()? as usize;
    let mut props = Cursor {
        buf: body.take(len)?,
        pos: 0,
    };
    let mut subscription_id = None;
    while props.remaining() > 0 {
        match props.u8()? {
            0x0b => {
                let val = props.varint()?;
                if val == 0 {
                    return Err("subscription identifier 0".into());
                }
                if subscription_id.replace(val).is_some() {
                    return Err("subscription identifier given twice".into());
                }
            }
            0x26 => {
                props.string()?;
                props.string()?;
            }
            other => return Err(format!("property {:#x} not allowed in SUBSCRIBE", other)),
        }
    }
    Ok(subscription_id)
}

/// Splits what the client has written into packets exactly the way a conforming receiver does.
fn frame(wire: &[u8]) -> Result<Vec<Seen>, String> {
    let mut stream = Cursor { buf: wire, pos: 0 };
    let mut seen = Vec::new();

    while stream.remaining() > 0 {
        let hdr = stream.u8()?;
        let remaining_len = stream.varint()? as usize;
        let mut body = Cursor {
            buf: stream.take(remaining_len)?,
            pos: 0,
        };

        let packet_type = hdr >> 4;
        let flags = hdr & 0x0f;
        let mut packet = Seen {
            packet_type,
            qos: 0,
            packet_id: None,
            subscription_id: None,
        };

        match packet_type {
            1 | 12 | 14 => {} // CONNECT, PINGREQ, DISCONNECT: not looked into
            3 => {
                packet.qos = (flags >> 1) & 3;
                if packet.qos == 3 {
                    return Err("PUBLISH with QoS 3".into());
                }
                body.string()?;
                if packet.qos > 0 {
                    packet.packet_id = Some(body.u16()?);
                }
                let len = body.varint()? as usize;
                body.take(len)?;
            }
            8 => {
                if flags != 0b0010 {
                    return Err("SUBSCRIBE with wrong flags".into());
                }
                packet.packet_id = Some(body.u16()?);
                packet.subscription_id = subscribe_properties(&mut body)?;
                let mut filters = 0;
                while body.remaining() > 0 {
                    body.string()
                        .map_err(|e| format!("SUBSCRIBE topic filter: {}", e))?;
                    body.u8()
                        .map_err(|_| "SUBSCRIBE topic filter without its options byte".to_string())?;
                    filters += 1;
                }
                if filters == 0 {
                    return Err("SUBSCRIBE without topic filter".into());
                }
            }
            other => {
                return Err(format!(
                    "packet type {} (first byte {:#04x}) cannot come from a client here",
                    other, hdr
                ))
            }
        }

        seen.push(packet);
    }

    Ok(seen)
}

// ---------------------------------------------------------------- the history

#[test]
fn identifiers_as_framed_by_the_receiver() {
    let to_client = Shared::default();
    let from_client = Shared::default();

    let (mut ctx, handle) = Context::new();
    ctx.set_up((Reader(to_client.clone()), Writer(from_client.clone())));

    let mut pool = LocalPool::new();
    let spawner = pool.spawner();

    to_client.feed(&[0x20, 0x03, 0x00, 0x00, 0x00]); // CONNACK
    spawner
        .spawn_local(async move {
            ctx.connect(ConnectOpts::new()).await.unwrap();
            let _ = ctx.run().await;
        })
        .unwrap();
    pool.run_until_stalled();
    let connect = frame(&from_client.take()).expect("CONNECT is well-formed");
    assert_eq!(connect.len(), 1);
    assert_eq!(connect[0].packet_type, 1);

    // Identifiers the broker has not acknowledged yet / subscription identifiers seen so far.
    let mut outstanding: HashSet<u16> = HashSet::new();
    let mut subscription_ids: HashSet<u32> = HashSet::new();

    // One QoS 1 PUBLISH that is never acknowledged: it stays outstanding throughout.
    let mut publisher = handle.clone();
    let _never_acked = spawner
        .spawn_local_with_handle(async move {
            publisher
                .publish(
                    PublishOpts::new()
                        .topic_name("pinned")
                        .qos(QoS::AtLeastOnce)
                        .payload(b"x"),
                )
                .await
        })
        .unwrap();
    pool.run_until_stalled();
    let seen = frame(&from_client.take()).expect("first PUBLISH is well-formed");
    assert_eq!(seen.len(), 1);
    let pinned = seen[0].packet_id.expect("QoS 1 PUBLISH carries an identifier");
    assert_ne!(pinned, 0);
    outstanding.insert(pinned);

    // 130 identical subscribe() calls; each is acknowledged before the next one starts.
    for call in 1..=130u32 {
        let mut subscriber = handle.clone();
        let done = spawner
            .spawn_local_with_handle(async move {
                let value = "v".repeat(119); // user property: 1 + (2 + 1) + (2 + 119) = 125 bytes
                subscriber
                    .subscribe(
                        SubscribeOpts::new()
                            .user_property(("k", value.as_str()))
                            .subscription("a/b", SubscriptionOpts::new()),
                    )
                    .await
                    .map(|_| ())
            })
            .unwrap();
        pool.run_until_stalled();

        let wire = from_client.take();
        let seen = frame(&wire).unwrap_or_else(|err| {
            panic!(
                "subscribe() call #{}: what the client wrote is not a sequence of well-formed packets \
                 for a conforming receiver ({}); first bytes on the wire: {:02x?}",
                call,
                err,
                &wire[..wire.len().min(8)]
            )
        });
        assert_eq!(seen.len(), 1, "call #{}: exactly one packet expected, got {:?}", call, seen);
        assert_eq!(seen[0].packet_type, 8, "call #{}: SUBSCRIBE expected, got {:?}", call, seen);

        let packet_id = seen[0].packet_id.unwrap();
        assert_ne!(packet_id, 0, "call #{}: packet identifier 0", call);
        assert!(
            outstanding.insert(packet_id),
            "call #{}: packet identifier {} is in use by an outstanding operation",
            call,
            packet_id
        );
        let subscription_id = seen[0]
            .subscription_id
            .unwrap_or_else(|| panic!("call #{}: SUBSCRIBE without subscription identifier", call));
        assert!(
            subscription_ids.insert(subscription_id),
            "call #{}: subscription identifier {} handed out twice",
            call,
            subscription_id
        );

        // SUBACK: granted QoS 0.
        to_client.feed(&[0x90, 0x04, (packet_id >> 8) as u8, packet_id as u8, 0x00, 0x00]);
        pool.run_until_stalled();
        outstanding.remove(&packet_id);
        let result = futures::FutureExt::now_or_never(done)
            .unwrap_or_else(|| panic!("call #{}: subscribe() did not complete on its SUBACK", call));
        assert!(result.is_ok(), "call #{}: {:?}", call, result.err());
    }

    // One more PUBLISH behind the subscriptions.
    let mut publisher = handle.clone();
    let done = spawner
        .spawn_local_with_handle(async move {
            publisher
                .publish(
                    PublishOpts::new()
                        .topic_name("last")
                        .qos(QoS::AtLeastOnce)
                        .payload(b"y"),
                )
                .await
        })
        .unwrap();
    pool.run_until_stalled();
    let seen = frame(&from_client.take()).expect("last PUBLISH is well-formed");
    assert_eq!(seen.len(), 1);
    assert_eq!((seen[0].packet_type, seen[0].qos), (3, 1));
    let packet_id = seen[0].packet_id.unwrap();
    assert_ne!(packet_id, 0);
    assert!(
        outstanding.insert(packet_id),
        "last PUBLISH: identifier {} is in use",
        packet_id
    );
    to_client.feed(&[0x40, 0x02, (packet_id >> 8) as u8, packet_id as u8]);
    pool.run_until_stalled();
    assert!(futures::FutureExt::now_or_never(done).unwrap().is_ok());
}
