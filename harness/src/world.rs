//! World = Sim + executable reference model of the client contract (the properties' statements,
//! not the implementation). Scripts drive the world through action methods, which update the model;
//! `check()` at a quiescent point compares what the real client did with what the model allows.
//! Every rule carries the ids of the properties whose statement implies it.

use crate::refcodec::{self as rc, AckForm, AckKind, CPacket, Prop, SPacket};
use crate::sim::*;
use crate::spec::*;
use std::collections::{BTreeSet, HashMap, VecDeque};

#[derive(Clone, Copy, PartialEq, Eq, Debug, Hash, PartialOrd, Ord)]
pub enum Kind {
    Pub0,
    Pub1,
    Pub2,
    Sub,
    Unsub,
    Ping,
    Disc,
    /// QoS 1 publish with a 300-byte payload (larger than a small Maximum Packet Size announced by the server)
    PubBig,
}

impl Kind {
    pub fn name(self) -> &'static str {
        match self {
            Kind::Pub0 => "pub0",
            Kind::Pub1 => "pub1",
            Kind::Pub2 => "pub2",
            Kind::Sub => "sub",
            Kind::Unsub => "unsub",
            Kind::Ping => "ping",
            Kind::Disc => "disc",
            Kind::PubBig => "pubbig",
        }
    }
    pub fn is_qos_pub(self) -> bool {
        matches!(self, Kind::Pub1 | Kind::Pub2 | Kind::PubBig)
    }
}

#[derive(Clone, Debug)]
pub struct Viol {
    pub props: &'static [&'static str],
    pub sig: String,
    pub detail: String,
}

#[derive(Clone, Debug, PartialEq)]
pub enum Term {
    UserDisconnect,
    ServerDisconnect(ErrSum), // expected Disconnected{..}; reason 0 handled separately
    ServerDisconnectOk,
    Eof,
    ReadErr,
    WriteErr,
    HandlesDropped,
    Garbage,
}

pub struct OpM {
    pub kind: Kind,
    pub submitted: bool,
    pub submit_step: u64,
    pub race: bool,
    pub accepted: Option<bool>,
    pub pkt_id: Option<u16>,
    pub sub_id: Option<u32>,
    pub req_wire: Option<usize>,
    pub rel_wire: Option<usize>,
    /// first-stage acknowledgement delivered (PUBACK / PUBREC / SUBACK / UNSUBACK / PINGRESP)
    pub ack1: bool,
    pub ack1_ok: bool,
    /// PUBCOMP delivered
    pub ack2: bool,
    pub expected: Option<OpOut>,
    /// set when the op may legitimately show either `expected` or ContextExited/other (documented per use)
    pub either: Vec<OpOut>,
    pub dropped: bool,
    pub holds_slot: bool,
    pub nfilters: usize,
    /// the request encodes to more than 300 bytes
    pub oversize: bool,
    pub expected_items: Vec<MsgSum>,
    /// injection sequence number of each expected item
    pub expected_seq: Vec<usize>,
    /// after drop(context): how many of the expected items the context had certainly processed
    pub min_items_after_drop: Option<usize>,
    pub stream: Option<usize>,
    pub stream_dropped: bool,
    pub checked_done: bool,
    pub after_ctx_drop: bool,
    pub after_term: bool,
    /// subscription registered in a session that was reset afterwards (expired on reconnection): its stream may end
    pub session_reset: bool,
    /// finished on an earlier connection of the same Context
    pub prev_conn_done: bool,
    /// the request was written on an earlier connection of the same Context
    pub ever_on_wire: bool,
    /// subscribe only: its SUBSCRIBE has been processed by the context, the stream is registered (session state, survives a resumption)
    pub registered: bool,
}

pub struct WorldCfg {
    pub seed: u64,
    pub receive_max: Option<u16>,
    pub max_packet: Option<u32>,
    pub sei: Option<u32>,
    pub discipline: Discipline,
    pub order: u8,
    pub h3: bool,
    pub seed_ids: Option<(u16, u32)>,
    /// Maximum Packet Size the client announces in its CONNECT (binds the broker, never the client)
    pub own_max_packet: Option<u32>,
    pub session_present: bool,
    /// reach the CONNACK through an extended authentication exchange (authorize()); None = decided by the seed (one in four)
    pub via_auth: Option<bool>,
}

#[derive(Clone, Debug, Default)]
pub struct ResumeOpts {
    pub secs_ago: u64,
    pub sei: Option<u32>,
    pub connack_sei: Option<u32>,
    pub receive_max: Option<u16>,
    pub max_packet: Option<u32>,
    pub expect_expired: bool,
    /// no disconnection recorded (hook H1 not used): an ordinary second connect() + run() on the same Context
    pub plain: bool,
    /// the new connection is established through an extended authentication exchange (CONNACK received by authorize())
    pub via_auth: bool,
    /// this many QoS 1 messages arrive together with the CONNACK of the new connection (one transport read hands connect()
    /// the CONNACK and run() what follows it)
    pub trailing: u8,
}

impl Default for WorldCfg {
    fn default() -> Self {
        WorldCfg {
            seed: 1,
            receive_max: None,
            max_packet: None,
            sei: None,
            discipline: Discipline::D0,
            order: 0,
            h3: false,
            seed_ids: None,
            own_max_packet: None,
            session_present: false,
            via_auth: None,
        }
    }
}

pub struct World {
    pub sim: Sim,
    pub r: u32,
    pub m: Vec<OpM>,
    pub inflight: u32,
    pub max_inflight_seen: u32,
    /// QoS>0 PUBLISH seen on the wire minus completions delivered, evaluated when a PUBLISH is attributed
    pub wire_inflight: u32,
    attributed: usize,
    pub expected_acks: VecDeque<(AckKind, u16, &'static str)>,
    pub inbound_qos2: BTreeSet<u16>,
    pub viols: Vec<Viol>,
    pub blind: bool,
    pub term: Option<Term>,
    pub term_checked: bool,
    pub disc_wire_idx: Option<usize>,
    pub inbound_seq: usize,
    /// identifiers read off malformed packets (see `positional_id`)
    pub malformed_ids: BTreeSet<u16>,
    /// topic aliases the broker has established on the current connection
    pub aliases: BTreeSet<u16>,
    pub pubrel_seq: usize,
    unsettled_completion: bool,
    unsettled_submissions: Vec<usize>,
    pub ctx_dropped: bool,
    pub last_submit_step_on_wire: u64,
    pub h3: bool,
    pub counters: Counters,
    pub nonce: u64,
    pub connack_sum: Option<ConnackSum>,
    pub run_started: bool,
    /// observed select orders in race steps: (packet first, message first)
    pub race_orders: (u64, u64),
    /// packet identifier -> op, for operations on the wire and not yet finished
    pub ids_outstanding: std::collections::HashMap<u16, usize>,
    /// skip the per-op result rules (used by very long runs which check them at chosen points only)
    pub light: bool,
    undecided: Vec<usize>,
    pub sub_ids_seen: std::collections::HashMap<u32, usize>,
    /// Maximum Packet Size announced in CONNACK (None = unlimited)
    pub max_packet: Option<u32>,
    /// number of injected inbound PUBLISH packets the context has certainly consumed (reader empty at a serving quiescent point)
    pub confirmed_inbound: usize,
    /// quota rules switched off (resumed connection whose Receive Maximum is below the number of re-sent handshakes)
    pub quota_fuzzy: bool,
    /// Session Expiry Interval requested in CONNECT
    pub sei: Option<u32>,
    pub reconnects: u32,
    /// PRNG walks: vary the size of inbound messages (see `in_publish`)
    pub size_mix: bool,
    /// every third publish carries a content type and a user property of boundary sizes (see `rich_options`)
    pub rich_pubs: bool,
    /// every third subscribe / unsubscribe carries a topic filter of 300 bytes (refused under a small Maximum Packet Size)
    pub big_subs: bool,
    /// every fourth publish has a topic with multi-byte UTF-8 characters
    pub utf8_topics: bool,
    /// every fifth inbound PUBLISH carries the full set of forwardable properties
    pub rich_inbound: bool,
    /// which publishes (request index modulo 3) carry them
    pub rich_phase: usize,
    /// every second subscribe() carries three topic filters (its SUBACK then has three reason codes, granted and refused mixed)
    pub multi_filter: bool,
    /// every fourth publish carries a payload of 70 000 bytes or more
    pub huge_pubs: bool,
    /// payload size of the plain publish that will be operation number `idx` (set by a scenario before it starts the operation)
    pub payload_sizes: std::collections::HashMap<usize, usize>,
}

#[derive(Default, Clone, Debug)]
pub struct Counters {
    pub sized_inbound: u64,
    pub disconnects_with_options: u64,
    pub packets_arriving_with_connack: u64,
    pub oversize_refusals_expected: u64,
    pub disconnects_ending_in_empty_value: u64,
    pub utf8_topic_pubs: u64,
    pub alias_only_inbound: u64,
    pub rich_inbound: u64,
    pub resent_with_options: u64,
    pub pubs_set_twice: u64,
    pub pubrel_not_found: u64,
    pub long_ack_props: u64,
    pub acks_delivered: u64,
    pub acks_matched: u64,
    pub completions_checked: u64,
    pub pending_checked: u64,
    pub inbound_publishes: u64,
    pub inbound_acks_matched: u64,
    pub stream_items_checked: u64,
    pub quota_refusals: u64,
    pub quota_accepts: u64,
    pub slot_releases: u64,
    pub checks: u64,
    pub wire_packets: u64,
    pub redeliveries: u64,
    pub ctx_exited_seen: u64,
    pub late_acks: u64,
    pub stray_acks: u64,
    pub term_checked: u64,
    pub h3_snapshots: u64,
}

const P_C01: &[&str] = &["C01"];
const P_C05: &[&str] = &["C05"];
const P_C05_06: &[&str] = &["C05", "C06"];
const P_C06: &[&str] = &["C06"];
const P_C06_01: &[&str] = &["C06", "C01"];
const P_C07: &[&str] = &["C07"];
const P_C07_09: &[&str] = &["C07", "C09"];
const P_C08: &[&str] = &["C08"];
const P_C09: &[&str] = &["C09"];
const P_C10: &[&str] = &["C10"];
const P_C11: &[&str] = &["C11"];
const P_C13: &[&str] = &["C13"];
const P_C14: &[&str] = &["C14"];
const P_C15: &[&str] = &["C15"];
const P_C15_10: &[&str] = &["C15", "C10", "C06"];
const P_STALL: &[&str] = &["C03", "C04", "C16"];
const P_ANY: &[&str] = &["*"];

pub fn ack_reason_string(n: u64) -> String {
    // every third full-form acknowledgement has a property section of 128 bytes or more (two-byte property length),
    // one in 24 of more than 16 383 bytes (three-byte property length)
    let mut s = format!("rs{n}");
    let target = match n % 24 {
        7 => 16_390 + (n % 50) as usize,
        x if x % 3 == 1 => [110usize, 118, 125, 128, 130, 200, 300, 1000][(n / 3) as usize % 8],
        _ => 0,
    };
    while s.len() < target {
        s.push((b'a' + (s.len() % 23) as u8) as char);
    }
    s
}

impl World {
    /// Properties of a CONNACK that tell the client nothing it acts on (capabilities at their permissive values, informative
    /// strings): the first half goes in front of Receive Maximum / Maximum Packet Size / Session Expiry Interval, the second
    /// half behind them.
    fn connack_chatter(front: bool) -> Vec<Prop> {
        if front {
            vec![Prop::pair("ck", "cv"), Prop::byte(0x25, 1), Prop::str(18, "assigned-client-id"), Prop::u16(0x22, 8)]
        } else {
            vec![Prop::str(31, "welcome"), Prop::byte(0x28, 1), Prop::byte(0x29, 1), Prop::byte(0x2a, 1), Prop::u16(19, 30), Prop::str(26, "response/info"), Prop::pair("ck", "")]
        }
    }

    /// Connects (CONNECT / CONNACK) and starts run().
    pub fn boot(cfg: WorldCfg) -> World {
        Self::boot_early(cfg, &[])
    }

    /// Like `boot`, but operations of the given kinds are started (from alternating handle clones) after connect() has
    /// returned and before run() is polled for the first time: they wait in the request queue.
    pub fn boot_early(cfg: WorldCfg, early: &[Kind]) -> World {
        let mut sim = Sim::new(cfg.seed);
        sim.discipline = cfg.discipline;
        sim.order = cfg.order;
        if cfg.h3 {
            poster::verif::enable(true);
            let _ = poster::verif::drain();
        } else {
            poster::verif::enable(false);
        }
        // one world in four reaches its CONNACK at the end of an extended authentication exchange, i.e. inside
        // authorize() instead of connect(): whatever the CONNACK announces must be in force all the same
        let via_auth = cfg.via_auth.unwrap_or(cfg.seed % 4 == 3);
        if via_auth {
            let conn = ConnSpec { sei: cfg.sei, client_id: Some("c".into()), topic_alias_maximum: Some(8), max_packet_size: cfg.own_max_packet, auth_method: Some("m".into()), auth_data: Some(vec![1]), ..Default::default() };
            sim.cmd(Cmd::Connect(conn));
            sim.settle();
            sim.feed_packet(&SPacket::Auth { reason: Some(0x18), props: vec![Prop::str(21, "m"), Prop::bin(22, b"c")] });
            sim.settle();
            sim.cmd(Cmd::Authorize(AuthSpec { reason: Some(0x18), method: Some("m".into()), data: Some(vec![2]), user_props: vec![] }));
            sim.settle();
        } else {
            let conn = ConnSpec { sei: cfg.sei, client_id: Some("c".into()), topic_alias_maximum: Some(8), max_packet_size: cfg.own_max_packet, ..Default::default() };
            sim.cmd(Cmd::Connect(conn));
            sim.settle();
        }
        let mut props = Vec::new();
        // one CONNACK in three states everything a broker may state, with the limits that matter in the middle of it
        let talkative = cfg.seed % 3 == 1;
        if talkative {
            props.extend(Self::connack_chatter(true));
        }
        if let Some(r) = cfg.receive_max {
            props.push(Prop::u16(33, r));
        }
        if let Some(m) = cfg.max_packet {
            props.push(Prop::u32(39, m));
        }
        if talkative {
            props.extend(Self::connack_chatter(false));
        }
        sim.feed_packet(&SPacket::Connack { session_present: cfg.session_present, reason: 0, props });
        sim.settle();
        let connack_sum = match sim.last_ctx_result(if via_auth { "authorize" } else { "connect" }) {
            Some(CtxOut::Conn(ConnOut::Connack(c))) => Some(c),
            _ => None,
        };
        sim.clone_handle(0);
        if let Some((p, s)) = cfg.seed_ids {
            sim.handles[0].as_ref().unwrap().verif_seed_ids(p, s);
        }
        sim.parse_wire();
        let attributed = sim.wire.len();
        let mut w = World {
            sim,
            r: cfg.receive_max.map(|x| x as u32).unwrap_or(65535),
            m: Vec::new(),
            inflight: 0,
            max_inflight_seen: 0,
            wire_inflight: 0,
            attributed,
            expected_acks: VecDeque::new(),
            inbound_qos2: BTreeSet::new(),
            viols: Vec::new(),
            blind: false,
            term: None,
            term_checked: false,
            disc_wire_idx: None,
            inbound_seq: 0,
            malformed_ids: BTreeSet::new(),
            aliases: BTreeSet::new(),
            pubrel_seq: 0,
            unsettled_completion: false,
            unsettled_submissions: Vec::new(),
            ctx_dropped: false,
            last_submit_step_on_wire: 0,
            h3: cfg.h3,
            counters: Counters::default(),
            nonce: cfg.seed.wrapping_mul(1000),
            connack_sum,
            run_started: false,
            race_orders: (0, 0),
            ids_outstanding: std::collections::HashMap::new(),
            light: false,
            undecided: Vec::new(),
            sub_ids_seen: std::collections::HashMap::new(),
            max_packet: cfg.max_packet,
            quota_fuzzy: false,
            sei: cfg.sei,
            reconnects: 0,
            size_mix: false,
            rich_pubs: false,
            big_subs: false,
            utf8_topics: true,
            rich_inbound: true,
            rich_phase: 2,
            multi_filter: false,
            huge_pubs: false,
            payload_sizes: std::collections::HashMap::new(),
            confirmed_inbound: 0,
        };
        if w.connack_sum.is_none() {
            w.viol(P_ANY, "boot/connect-failed".into(), format!("connect() did not return ConnectRsp: {:?}", w.sim.last_ctx_result("connect")));
            w.blind = true;
        }
        if !early.is_empty() && !w.blind {
            w.sim.note(|| format!("{} operations started before run() is first polled", early.len()));
            for (j, k) in early.iter().enumerate() {
                w.start(j % 2, *k);
                w.sim.settle();
            }
        }
        w.sim.cmd(Cmd::Run);
        w.sim.settle();
        w.run_started = true;
        w
    }

    pub fn viol(&mut self, props: &'static [&'static str], sig: String, detail: String) {
        let log = self.sim.tail_log(60);
        self.viols.push(Viol { props, sig, detail: format!("{detail}\n--- trace (most recent last) ---\n{log}") });
    }

    fn next_nonce(&mut self) -> u64 {
        self.nonce += 1;
        self.nonce
    }

    // ------------------------------------------------------------ client actions

    pub fn spec_for(&self, kind: Kind, idx: usize) -> OpSpec {
        match kind {
            Kind::Pub0 | Kind::Pub1 | Kind::Pub2 => {
                let q = match kind {
                    Kind::Pub0 => 0,
                    Kind::Pub1 => 1,
                    _ => 2,
                };
                let mut sp = PubSpec::simple(q, &self.pub_topic(idx), &self.plain_payload(idx));
                if self.rich_pubs && idx % 3 == self.rich_phase {
                    // rarely used options whose encoded size crosses the 1-/2-byte property-length boundary
                    let (ct, up) = Self::rich_options(idx);
                    sp.content_type = Some(ct);
                    sp.user_props = up;
                    sp.retain = Some(true);
                    // ... and the remaining PUBLISH options: Payload Format Indicator (1 for the plain payloads of even requests, an
                    // explicit 0 otherwise), Message Expiry Interval, Response Topic or Correlation Data
                    let plain = sp.payload.as_ref().map_or(true, |p| p.len() < 16 && p.is_ascii());
                    sp.pfi = Some(plain && idx % 2 == 0);
                    sp.mei = Some(10 * idx as u32 + 1);
                    if (idx / 3) % 2 == 0 {
                        sp.response_topic = Some(format!("r/\u{e9}/{idx}"));
                    } else {
                        sp.correlation = Some(vec![0, 0xff, idx as u8, 0x80]);
                    }
                }
                OpSpec::Publish(sp)
            }
            Kind::Sub => {
                let mut sp = SubSpec::simple(&if self.big_subs && idx % 3 == 1 { format!("f/{idx}/{}", "x".repeat(300)) } else { format!("f/{idx}") });
                if self.multi_filter && idx % 2 == 1 {
                    // one subscribe() call with three topic filters: one subscription identifier, one stream
                    let opt = sp.filters[0].1.clone();
                    sp.filters.push((format!("g/{idx}"), opt.clone()));
                    sp.filters.push((format!("h/{idx}/#"), opt));
                    // (125 bytes: with the subscription identifier's 2 to 5 bytes the property section crosses 127 / 128)
                    sp.user_props = vec![("k".to_string(), format!("{:0>119}", idx))];
                }
                OpSpec::Subscribe(sp)
            }
            Kind::Unsub => {
                let mut sp = UnsubSpec::simple(&if self.big_subs && idx % 3 == 1 { format!("u/{idx}/{}", "y".repeat(300)) } else { format!("u/{idx}") });
                if self.multi_filter && idx % 2 == 0 {
                    // one unsubscribe() call with three topic filters (its UNSUBACK then has three reason codes) and a user property
                    sp.filters.push(format!("g/{idx}"));
                    sp.filters.push(format!("h/{idx}/+"));
                    sp.user_props = vec![("uk".to_string(), format!("uv{idx}"))];
                }
                OpSpec::Unsubscribe(sp)
            }
            Kind::Ping => OpSpec::Ping,
            Kind::Disc => {
                // the user's DISCONNECT rotates through its options (kept plain where a Maximum Packet Size could refuse it)
                let mut d = DiscSpec::default();
                if self.max_packet.is_none() {
                    match idx % 4 {
                        1 => {
                            d.reason = Some(0x04);
                            d.reason_string = Some(format!("bye {idx}"));
                        }
                        2 => {
                            d.reason = Some(0x00);
                            d.user_props = vec![("dk".to_string(), format!("dv{idx}"))];
                        }
                        3 => {
                            d.reason = Some(0x80);
                            d.reason_string = Some(format!("{idx} {}", "\u{e9}".repeat(70)));
                            d.user_props = vec![("dk".to_string(), String::new()), (String::new(), "x".to_string())];
                        }
                        _ if idx % 8 == 0 => {
                            // an explicit Session Expiry Interval of 0 is not the same as none
                            d.sei = Some(0);
                        }
                        _ => {}
                    }
                }
                OpSpec::Disconnect(d)
            }
            Kind::PubBig => OpSpec::Publish(PubSpec::simple(1, &format!("o/{idx}"), &Self::big_payload(idx))),
        }
    }

    /// payload of the `idx`-th operation if it is a plain publish: "p<idx>", or - with `huge_pubs` - for every fourth one
    /// 70 000 / 140 000 / 270 000 bytes (beyond 64 KiB, the 3-byte remaining length, and 256 KiB)
    pub fn plain_payload(&self, idx: usize) -> Vec<u8> {
        if let Some(&n) = self.payload_sizes.get(&idx) {
            let mut v = vec![b's'; n];
            for (j, b) in v.iter_mut().enumerate().step_by(1009) {
                *b = (j as u8) ^ (idx as u8) ^ 0x5a;
            }
            return v;
        }
        if self.huge_pubs && idx % 4 == 1 {
            let n = [70_000usize, 140_000, 270_000][(idx / 4) % 3];
            let mut v = vec![b'h'; n];
            for (j, b) in v.iter_mut().enumerate().step_by(997) {
                *b = (j as u8) ^ (idx as u8);
            }
            v
        } else {
            format!("p{idx}").into_bytes()
        }
    }

    /// Topic of the `idx`-th request if it is a publish: "o/<idx>", every fourth one followed by levels made of two-, three-
    /// and four-byte UTF-8 characters (lengths on the wire count bytes, not characters).
    pub fn pub_topic(&self, idx: usize) -> String {
        if self.utf8_topics && idx % 4 == 3 {
            format!("o/{idx}/s\u{e9}jour/\u{b0}C/\u{65e5}\u{672c}/\u{1f600}")
        } else {
            format!("o/{idx}")
        }
    }

    /// RETAIN flag the PUBLISH of op `i` must carry (set together with the rarely used options)
    pub fn want_pub_retain(&self, i: usize) -> bool {
        self.rich_pubs && i % 3 == self.rich_phase && matches!(self.m[i].kind, Kind::Pub0 | Kind::Pub1 | Kind::Pub2)
    }

    /// properties the PUBLISH of op `i` must carry (content type first, then user properties)
    pub fn want_pub_props(&self, i: usize) -> Vec<Prop> {
        if self.rich_pubs && i % 3 == self.rich_phase && matches!(self.m[i].kind, Kind::Pub0 | Kind::Pub1 | Kind::Pub2) {
            let (ct, up) = Self::rich_options(i);
            let mut v = vec![Prop::str(3, &ct)];
            v.extend(up.iter().map(|(k, val)| Prop::pair(k, val)));
            let plain = {
                let p = self.plain_payload(i);
                p.len() < 16 && p.is_ascii()
            };
            v.push(Prop::byte(1, (plain && i % 2 == 0) as u8));
            v.push(Prop::u32(2, 10 * i as u32 + 1));
            if (i / 3) % 2 == 0 {
                v.push(Prop::str(8, &format!("r/\u{e9}/{i}")));
            } else {
                v.push(Prop::bin(9, &[0, 0xff, i as u8, 0x80]));
            }
            v.sort_by_key(|x| (x.id != 3, format!("{:?}", x)));
            v
        } else {
            Vec::new()
        }
    }

    /// (content type, user properties) of the `idx`-th publish when `rich_pubs` is on: 20, 128 +- a few, 300 and ~17 000 bytes of properties
    pub fn rich_options(idx: usize) -> (String, Vec<(String, String)>) {
        let n = [20usize, 110, 117, 118, 119, 120, 300, 17_000][(idx / 3) % 8];
        ("c".repeat(n), vec![("k".to_string(), format!("v{idx}"))])
    }

    pub fn big_payload(idx: usize) -> Vec<u8> {
        let mut p = format!("p{idx}").into_bytes();
        p.resize(300, b'#');
        p
    }

    fn new_opm(&self, kind: Kind) -> OpM {
        let idx = self.m.len();
        OpM {
            kind,
            submitted: false,
            submit_step: 0,
            race: false,
            accepted: None,
            pkt_id: None,
            sub_id: None,
            req_wire: None,
            rel_wire: None,
            ack1: false,
            ack1_ok: false,
            ack2: false,
            expected: None,
            either: Vec::new(),
            dropped: false,
            holds_slot: false,
            oversize: kind == Kind::PubBig || (self.big_subs && matches!(kind, Kind::Sub | Kind::Unsub) && idx % 3 == 1),
            nfilters: if self.multi_filter && ((kind == Kind::Sub && idx % 2 == 1) || (kind == Kind::Unsub && idx % 2 == 0)) { 3 } else { 1 },
            expected_items: Vec::new(),
            expected_seq: Vec::new(),
            min_items_after_drop: None,
            stream: None,
            stream_dropped: false,
            checked_done: false,
            after_ctx_drop: self.ctx_dropped,
            after_term: self.term.is_some(),
            session_reset: false,
            prev_conn_done: false,
            ever_on_wire: false,
            registered: false,
        }
    }

    /// Creates the op's future without polling it.
    pub fn create(&mut self, h: usize, kind: Kind) -> usize {
        // the requested handle clone may have been dropped by the script: any live clone will do
        let h = if self.sim.handles.get(h).map(|x| x.is_some()).unwrap_or(false) { h } else { (0..self.sim.handles.len()).find(|&i| self.sim.handles[i].is_some()).expect("harness: no handle left") };
        let idx = self.sim.ops.len();
        let spec = self.spec_for(kind, idx);
        if let OpSpec::Publish(p) = &spec {
            if p.topic.as_ref().map_or(false, |t| !t.is_ascii()) {
                self.counters.utf8_topic_pubs += 1;
            }
            if p.set_twice() {
                self.counters.pubs_set_twice += 1;
            }
        }
        let i = self.sim.create_op(h, spec);
        let m = self.new_opm(kind);
        self.m.push(m);
        i
    }

    /// First poll = submission.
    pub fn submit(&mut self, i: usize) {
        if !self.m[i].submitted {
            self.m[i].submitted = true;
            if self.unsettled_completion || self.sim.hold_ctx {
                self.m[i].race = true;
            }
            self.unsettled_submissions.push(i);
            self.undecided.push(i);
        }
        self.sim.poll_op(i);
        if self.m[i].submit_step == 0 {
            self.m[i].submit_step = self.sim.step;
        }
    }

    pub fn start(&mut self, h: usize, kind: Kind) -> usize {
        let i = self.create(h, kind);
        self.submit(i);
        i
    }

    pub fn drop_op(&mut self, i: usize) {
        self.sim.drop_op(i);
        self.m[i].dropped = true;
    }

    pub fn take_stream(&mut self, op: usize) -> Option<usize> {
        let s = self.sim.take_stream(op)?;
        self.m[op].stream = Some(s);
        Some(s)
    }

    pub fn drop_stream(&mut self, op: usize) {
        if let Some(s) = self.m[op].stream {
            self.sim.drop_stream(s);
        } else {
            // dropping the response before stream() is called drops the receiver as well
            self.sim.ops[op].rsp = None;
            self.sim.note(|| format!("op{op}: SubscribeRsp dropped without taking the stream"));
        }
        self.m[op].stream_dropped = true;
    }

    // ------------------------------------------------------------ broker actions

    /// Operations whose request is on the wire and which the broker can acknowledge next:
    /// (op index, stage) with stage 1 = PUBACK/PUBREC/SUBACK/UNSUBACK, 2 = PUBCOMP. Pings are handled by `pingresp`.
    pub fn ackable(&self) -> Vec<(usize, u8)> {
        let mut v = Vec::new();
        for (i, m) in self.m.iter().enumerate() {
            if m.req_wire.is_none() || m.after_ctx_drop {
                continue;
            }
            match m.kind {
                Kind::Pub1 | Kind::PubBig | Kind::Sub | Kind::Unsub => {
                    if !m.ack1 {
                        v.push((i, 1));
                    }
                }
                Kind::Pub2 => {
                    if !m.ack1 {
                        v.push((i, 1));
                    } else if m.ack1_ok && m.rel_wire.is_some() && !m.ack2 {
                        v.push((i, 2));
                    }
                }
                _ => {}
            }
        }
        v
    }

    /// Pings awaiting their PINGRESP, in the order their PINGREQ went onto the wire
    /// (a broker answers PINGREQs in order, whether or not the caller has cancelled meanwhile).
    pub fn pings_outstanding(&self) -> Vec<usize> {
        let mut v: Vec<(usize, usize)> = self
            .m
            .iter()
            .enumerate()
            .filter(|(_, m)| m.kind == Kind::Ping && m.req_wire.is_some() && !m.ack1 && !m.after_ctx_drop)
            .map(|(i, m)| (m.req_wire.unwrap(), i))
            .collect();
        v.sort();
        v.into_iter().map(|x| x.1).collect()
    }

    /// Delivers the acknowledgement for op `i` (stage 1 or 2) with the `ridx`-th legal reason code.
    /// `form`: 0 = shortest legal form, 1 = full form with reason string and user property.
    pub fn deliver_ack(&mut self, i: usize, stage: u8, ridx: usize, form: u8) {
        let n = self.next_nonce();
        // (the request never became a packet the model could read - the model is blind by then and has said why)
        let Some(id) = self.m[i].pkt_id else {
            self.sim.note(|| format!("model: no acknowledgement can be built for op{i}, its request was never seen on the wire"));
            return;
        };
        let kind = self.m[i].kind;
        let (rs, up): (Option<String>, UP) = if form == 1 {
            let rs = ack_reason_string(n);
            if rs.len() > 110 {
                self.counters.long_ack_props += 1;
            }
            (Some(rs), vec![(format!("k{n}"), format!("v{n}"))])
        } else {
            (None, vec![])
        };
        let mut props = Vec::new();
        if let Some(s) = &rs {
            props.push(Prop::str(31, s));
        }
        for (k, v) in &up {
            props.push(Prop::pair(k, v));
        }
        let pkt;
        let mut completes_slot = false;
        let was_dropped = self.m[i].dropped;
        match (kind, stage) {
            (Kind::Pub1, 1) | (Kind::PubBig, 1) | (Kind::Pub2, 1) | (Kind::Pub2, 2) => {
                let ak = match (kind, stage) {
                    (Kind::Pub1, _) | (Kind::PubBig, _) => AckKind::Puback,
                    (Kind::Pub2, 1) => AckKind::Pubrec,
                    _ => AckKind::Pubcomp,
                };
                let reasons = ak.legal_reasons();
                let reason = reasons[ridx % reasons.len()];
                let f = if form == 1 {
                    AckForm::Full
                } else if reason == 0 {
                    AckForm::Short2
                } else {
                    AckForm::Short3
                };
                pkt = SPacket::Ack { kind: ak, id, reason, props, form: f };
                let aerr = AckErrSum { reason, reason_string: rs.clone(), user_props: up.clone() };
                let m = &mut self.m[i];
                match ak {
                    AckKind::Puback => {
                        m.ack1 = true;
                        m.ack1_ok = reason < 0x80;
                        m.expected = Some(OpOut::Unit(if reason < 0x80 { Ok(()) } else { Err(ErrSum::PubackError(aerr)) }));
                        completes_slot = true;
                    }
                    AckKind::Pubrec => {
                        m.ack1 = true;
                        m.ack1_ok = reason < 0x80;
                        if reason >= 0x80 {
                            m.expected = Some(OpOut::Unit(Err(ErrSum::PubrecError(aerr))));
                            completes_slot = true;
                        }
                    }
                    _ => {
                        m.ack2 = true;
                        m.expected = Some(OpOut::Unit(if reason < 0x80 { Ok(()) } else { Err(ErrSum::PubcompError(aerr)) }));
                        completes_slot = true;
                    }
                }
            }
            (Kind::Sub, 1) | (Kind::Unsub, 1) => {
                let legal = if kind == Kind::Sub { rc::SUBACK_REASONS } else { rc::UNSUBACK_REASONS };
                let nf = self.m[i].nfilters;
                let reasons: Vec<u8> = (0..nf).map(|k| legal[(ridx + k) % legal.len()]).collect();
                let sum = SubackSum { reasons: reasons.clone(), reason_string: rs.clone(), user_props: up.clone() };
                if kind == Kind::Sub {
                    pkt = SPacket::Suback { id, props, reasons };
                    self.m[i].expected = Some(OpOut::Suback(Ok(sum)));
                } else {
                    pkt = SPacket::Unsuback { id, props, reasons };
                    self.m[i].expected = Some(OpOut::Unsuback(Ok(sum)));
                }
                self.m[i].ack1 = true;
                self.m[i].ack1_ok = true;
            }
            _ => panic!("harness: deliver_ack on {:?} stage {stage}", kind),
        }
        if completes_slot && self.m[i].holds_slot {
            self.m[i].holds_slot = false;
            self.inflight -= 1;
            self.wire_inflight = self.wire_inflight.saturating_sub(1);
            self.unsettled_completion = true;
            self.counters.slot_releases += 1;
            for j in std::mem::take(&mut self.unsettled_submissions) {
                self.m[j].race = true;
            }
        }
        self.counters.acks_delivered += 1;
        if was_dropped {
            self.counters.late_acks += 1;
        }
        if Self::finished(&self.m[i]) && self.ids_outstanding.get(&id) == Some(&i) {
            self.ids_outstanding.remove(&id);
        }
        self.sim.feed_packet(&pkt);
    }

    pub fn pingresp(&mut self) {
        if let Some(&i) = self.pings_outstanding().first() {
            self.m[i].ack1 = true;
            self.m[i].ack1_ok = true;
            self.m[i].expected = Some(OpOut::Unit(Ok(())));
            self.counters.acks_delivered += 1;
        } else {
            self.counters.stray_acks += 1;
        }
        self.sim.feed_packet(&SPacket::Pingresp);
    }

    /// An acknowledgement nobody is waiting for (unknown identifier / duplicate).
    pub fn stray_ack(&mut self, kind: AckKind, id: u16, reason: u8) {
        // must not collide with a live expectation
        let form = if reason == 0 { AckForm::Short2 } else { AckForm::Short3 };
        self.counters.stray_acks += 1;
        if kind == AckKind::Pubrel {
            self.expected_acks.push_back((AckKind::Pubcomp, id, "pubrel"));
            self.inbound_qos2.remove(&id);
        }
        self.sim.feed_packet(&SPacket::Ack { kind, id, reason, props: vec![], form });
    }

    /// Subscription identifier registered by subscribe op `op` (None until its SUBSCRIBE is on the wire).
    pub fn sub_id_of(&self, op: usize) -> Option<u32> {
        if self.m[op].registered {
            self.m[op].sub_id
        } else {
            None
        }
    }

    /// Injects a PUBLISH. `subids` are carried as Subscription Identifier properties.
    pub fn in_publish(&mut self, qos: u8, id: u16, dup: bool, subids: &[u32], retain: bool) {
        // with `size_mix` every fourth inbound message has a payload size taken from around the client's buffer steps
        let size = if self.size_mix && self.inbound_seq % 4 == 3 {
            const SIZES: [usize; 12] = [0, 1, 120, 500, 513, 1024, 1500, 4090, 4097, 5000, 9000, 20_000];
            Some(SIZES[(self.inbound_seq / 4 + self.m.len()) % SIZES.len()])
        } else {
            None
        };
        if size.is_some() {
            self.counters.sized_inbound += 1;
        }
        self.in_publish_full(qos, id, dup, subids, retain, size)
    }

    /// PUBLISH with a payload of exactly `size` bytes (marker first, then filler).
    pub fn in_publish_sized(&mut self, qos: u8, id: u16, dup: bool, subids: &[u32], size: usize) {
        self.in_publish_full(qos, id, dup, subids, false, Some(size))
    }

    pub fn in_publish_full(&mut self, qos: u8, id: u16, dup: bool, subids: &[u32], retain: bool, size: Option<usize>) {
        let k = self.inbound_seq;
        self.inbound_seq += 1;
        let mut props = Vec::new();
        for s in subids {
            props.push(Prop::var(11, *s));
        }
        let mut topic = format!("i/{k}");
        let mut topic_alias = None;
        let mut payload = format!("m{k}").into_bytes();
        if let Some(sz) = size {
            payload.resize(sz, b'.');
            for (j, b) in payload.iter_mut().enumerate().skip(8) {
                *b = (j as u8).wrapping_mul(31).wrapping_add(k as u8);
            }
        }
        // every fifth inbound message carries every property a broker may forward with a PUBLISH (but a topic alias, which
        // the client never allows), wrapped around the subscription identifiers: the stream item must show them unchanged
        let rich = self.rich_inbound && k % 5 == 2;
        let (mut pfi, mut mei, mut correlation, mut response_topic, mut content_type, mut user_props) = (None, None, None, None, None, vec![]);
        if rich {
            self.counters.rich_inbound += 1;
            let utf8 = size.is_none();
            pfi = Some(utf8);
            mei = Some(1000 + k as u64);
            correlation = Some(vec![0u8, 0xff, k as u8, 0x80]);
            response_topic = Some(format!("r/{k}"));
            content_type = Some(format!("ct/{}", "x".repeat(k % 140)));
            user_props = vec![("a".to_string(), format!("1-{k}")), ("a".to_string(), "2".to_string()), (String::new(), String::new())];
            // the client's CONNECT allows 8 topic aliases: every other such message establishes one (topic + alias), the ones in
            // between use an alias established on this connection in place of the topic (zero-length Topic Name)
            let alias = 1 + ((k / 10) % 8) as u16;
            if (k / 5) % 2 == 1 && self.aliases.contains(&alias) {
                topic = String::new();
                topic_alias = Some(alias);
                self.counters.alias_only_inbound += 1;
            } else if (k / 5) % 2 == 0 {
                topic_alias = Some(alias);
                self.aliases.insert(alias);
            }
            let mut all = vec![Prop::pair("a", &format!("1-{k}")), Prop::str(3, content_type.as_ref().unwrap())];
            if let Some(a) = topic_alias {
                all.push(Prop::u16(35, a));
            }
            all.append(&mut props);
            all.push(Prop::bin(9, correlation.as_ref().unwrap()));
            all.push(Prop::pair("a", "2"));
            all.push(Prop::str(8, response_topic.as_ref().unwrap()));
            all.push(Prop::u32(2, 1000 + k as u32));
            all.push(Prop::byte(1, utf8 as u8));
            all.push(Prop::pair("", ""));
            props = all;
        }
        let p = rc::Publish { dup, qos, retain, topic: topic.clone(), id: if qos > 0 { Some(id) } else { None }, props, payload: payload.clone() };
        let item = MsgSum { dup, retain, qos, topic, pfi, topic_alias, mei, correlation, response_topic, content_type, payload, user_props };
        let redelivery = qos == 2 && self.inbound_qos2.contains(&id);
        if redelivery {
            self.counters.redeliveries += 1;
        }
        if !redelivery {
            let mut seen = BTreeSet::new();
            for s in subids {
                if !seen.insert(*s) {
                    continue;
                }
                for m in self.m.iter_mut() {
                    if m.kind == Kind::Sub && m.registered && m.sub_id == Some(*s) && !m.after_ctx_drop {
                        m.expected_items.push(item.clone());
                        m.expected_seq.push(k);
                    }
                }
            }
        }
        let tag: &'static str = if subids.is_empty() {
            "subid=absent"
        } else if subids.len() > 1 {
            "subid=multiple"
        } else if self.m.iter().any(|m| m.kind == Kind::Sub && m.sub_id == Some(subids[0]) && m.registered && !m.stream_dropped) {
            "subid=registered"
        } else if self.m.iter().any(|m| m.kind == Kind::Sub && m.sub_id == Some(subids[0]) && m.registered) {
            "subid=stream-dropped"
        } else {
            "subid=unknown"
        };
        match qos {
            1 => self.expected_acks.push_back((AckKind::Puback, id, tag)),
            2 => {
                self.expected_acks.push_back((AckKind::Pubrec, id, tag));
                self.inbound_qos2.insert(id);
            }
            _ => {}
        }
        self.counters.inbound_publishes += 1;
        self.sim.feed_packet(&SPacket::Publish(p));
    }

    /// PUBREL for `id`. Its form varies from one PUBREL to the next over everything a broker may send: the two-byte form,
    /// reason 0 or 0x92 (Packet Identifier not found) alone, and either reason followed by a reason string and a user property.
    /// Whatever the reason, the exchange for `id` is over on the broker's side: PUBCOMP is due and the identifier is free again.
    pub fn in_pubrel(&mut self, id: u16) {
        self.expected_acks.push_back((AckKind::Pubcomp, id, "pubrel"));
        self.inbound_qos2.remove(&id);
        let v = (self.pubrel_seq + id as usize) % 5;
        self.pubrel_seq += 1;
        let n = self.pubrel_seq;
        let full = vec![Prop::str(31, &format!("rel{n}")), Prop::pair(&format!("rk{n}"), "rv")];
        let (reason, props, form) = match v {
            0 => (0, vec![], AckForm::Short2),
            1 => (0x92, vec![], AckForm::Short3),
            2 => (0, full, AckForm::Full),
            3 => (0x92, full, AckForm::Full),
            _ => (0, vec![], AckForm::Short3),
        };
        if reason != 0 {
            self.counters.pubrel_not_found += 1;
        }
        self.sim.feed_packet(&SPacket::Ack { kind: AckKind::Pubrel, id, reason, props, form });
    }

    // ------------------------------------------------------------ termination causes

    pub fn server_disconnect(&mut self, reason: u8, form: u8, with_props: bool) {
        let n = self.next_nonce();
        // scripts ask for "a failing reason" with 0x8b; which of the 27 a server may send it is rotates from one DISCONNECT to
        // the next (every one of them ends run() with Disconnected carrying that reason, and does nothing else)
        let reason = if reason == 0x8b && form >= 1 {
            let rs = &rc::DISCONNECT_REASONS_SERVER[1..];
            rs[(n as usize + self.m.len()) % rs.len()]
        } else {
            reason
        };
        let mut props = Vec::new();
        let mut rs = None;
        let mut sr = None;
        let mut up = vec![];
        if with_props && form == 2 {
            // every third one with a reason string that takes the property section past 127 bytes, one in 18 past 16 383
            rs = Some(match n % 18 {
                5 => format!("bye{n} {}", "z".repeat(16_400)),
                x if x % 3 == 0 => format!("bye{n} {}", "y".repeat(100 + (n % 60) as usize)),
                _ => format!("bye{n}"),
            });
            sr = Some(format!("srv{n}"));
            up = vec![(format!("dk{n}"), format!("dv{n}")), (format!("dk{n}"), "again".to_string())];
            props.push(Prop::pair(&up[0].0, &up[0].1));
            props.push(Prop::str(28, sr.as_ref().unwrap()));
            props.push(Prop::str(31, rs.as_ref().unwrap()));
            props.push(Prop::pair(&up[1].0, &up[1].1));
            // every second one ends with a user property whose value is empty (and every fourth with an empty name too)
            if n % 2 == 0 {
                let k = if n % 4 == 0 { String::new() } else { format!("e{n}") };
                props.push(Prop::pair(&k, ""));
                up.push((k, String::new()));
                self.counters.disconnects_ending_in_empty_value += 1;
            }
        }
        if self.term.is_none() {
            self.term = Some(if reason == 0 {
                Term::ServerDisconnectOk
            } else {
                Term::ServerDisconnect(ErrSum::Disconnected { reason, sei: 0, reason_string: rs, server_reference: sr, user_props: up })
            });
        }
        self.sim.feed_packet(&SPacket::Disconnect { reason, props, form });
    }

    pub fn eof(&mut self) {
        if self.term.is_none() {
            self.term = Some(Term::Eof);
        }
        self.sim.set_eof();
    }

    pub fn read_err(&mut self) {
        if self.term.is_none() {
            self.term = Some(Term::ReadErr);
        }
        self.sim.set_read_err();
    }

    /// A read fails once with a transient error kind while a PINGRESP (nobody is waiting for) is readable behind it.
    /// Any read error ends the connection: run() returns SocketClosed.
    pub fn read_err_transient(&mut self, kind: std::io::ErrorKind) {
        if self.term.is_none() {
            self.term = Some(Term::ReadErr);
        }
        self.sim.set_transient_read_err(kind, &[0xd0, 0x00]);
    }

    pub fn garbage(&mut self, bytes: &[u8]) {
        if self.term.is_none() {
            self.term = Some(Term::Garbage);
        }
        self.sim.note(|| format!("deliver garbage {:02x?}", bytes));
        self.sim.feed(bytes);
    }

    /// The next write fails; a QoS 0 publish is started to make the client write.
    pub fn write_err(&mut self) {
        let at = self.sim.written_len();
        self.sim.writer.0.borrow_mut().err_at = Some(at);
        self.sim.note(|| format!("transport: writes fail from offset {at}"));
        if self.term.is_none() {
            self.term = Some(Term::WriteErr);
        }
        if self.sim.handles.iter().any(|h| h.is_some()) {
            let i = self.start(0, Kind::Pub0);
            self.m[i].after_term = true;
        }
    }

    pub fn drop_all_handles(&mut self) {
        for i in 0..self.sim.handles.len() {
            if self.sim.handles[i].is_some() {
                self.sim.drop_handle(i);
            }
        }
        // handle clones owned by still-pending operation tasks keep the channel open
        if self.sim.ops.iter().all(|o| !o.task.alive()) && self.term.is_none() {
            self.term = Some(Term::HandlesDropped);
        }
    }

    pub fn drop_ctx(&mut self) {
        // operations whose final acknowledgement was delivered but possibly not yet consumed
        for (i, m) in self.m.iter_mut().enumerate() {
            if self.sim.ops[i].task.alive() && !m.dropped {
                let mut alts = vec![OpOut::Unit(Err(ErrSum::ContextExited))];
                match m.kind {
                    Kind::Sub => alts = vec![OpOut::Suback(Err(ErrSum::ContextExited))],
                    Kind::Unsub => alts = vec![OpOut::Unsuback(Err(ErrSum::ContextExited))],
                    _ => {}
                }
                if let Some(e) = &m.expected {
                    alts.push(e.clone());
                }
                // a request without acknowledgement (QoS 0 publish, DISCONNECT) whose packet is on the wire has succeeded,
                // whenever its future gets round to looking
                if matches!(m.kind, Kind::Pub0 | Kind::Disc) && m.req_wire.is_some() {
                    alts.push(OpOut::Unit(Ok(())));
                }
                m.either = alts;
            }
        }
        // messages still sitting unread in the transport (context blocked on a stalled writer, or held) were never received
        let conf = self.confirmed_inbound;
        for m in self.m.iter_mut() {
            if m.kind == Kind::Sub {
                m.min_items_after_drop = Some(m.expected_seq.iter().filter(|&&q| q < conf).count());
            }
        }
        self.sim.drop_ctx();
        self.ctx_dropped = true;
    }

    // ------------------------------------------------------------ session resumption (C17)

    /// What a correct client must re-send when the session is resumed, per the model:
    /// (is_pubrel, op index), PUBLISH entries in original PUBLISH order, PUBREL entries in original PUBREL order.
    pub fn unfinished(&self) -> (Vec<usize>, Vec<usize>) {
        let mut pubs: Vec<(usize, usize)> = Vec::new();
        let mut rels: Vec<(usize, usize)> = Vec::new();
        for (i, m) in self.m.iter().enumerate() {
            if !m.kind.is_qos_pub() {
                continue;
            }
            if let Some(w) = m.req_wire {
                if !m.ack1 {
                    pubs.push((w, i));
                }
            }
            if m.kind == Kind::Pub2 && m.ack1 && m.ack1_ok && !m.ack2 {
                if let Some(w) = m.rel_wire {
                    rels.push((w, i));
                }
            }
        }
        pubs.sort();
        rels.sort();
        (pubs.into_iter().map(|x| x.1).collect(), rels.into_iter().map(|x| x.1).collect())
    }

    /// After run() ended on a lost connection: record the disconnection `secs_ago` seconds in the past (hook H1),
    /// give the context a new transport, connect again (CONNACK session present) and run.
    /// Compares what is written on the new connection, before any new request, with the model.
    /// Returns true if the session was expected to be resumed (not expired).
    pub fn resume(&mut self, secs_ago: u64, sei: Option<u32>, expect_expired: bool) -> bool {
        self.resume_with(secs_ago, sei, None, expect_expired)
    }

    /// `connack_sei`: Session Expiry Interval property in the CONNACK of the new connection (overrides the requested one)
    pub fn resume_with(&mut self, secs_ago: u64, sei: Option<u32>, connack_sei: Option<u32>, expect_expired: bool) -> bool {
        self.resume_full(ResumeOpts { secs_ago, sei, connack_sei, expect_expired, ..Default::default() })
    }

    /// The general form: the CONNACK of the new connection may announce its own Receive Maximum and Maximum Packet Size
    /// (absent = 65535 / unlimited, whatever the previous connection had announced).
    pub fn resume_full(&mut self, o: ResumeOpts) -> bool {
        let ResumeOpts { secs_ago, sei, connack_sei, expect_expired, .. } = o;
        let plain_resume = o.plain;
        let (mut pubs, mut rels) = self.unfinished();
        self.reconnects += 1;
        self.aliases.clear();
        self.expected_acks.clear();
        if o.plain {
            // without a recorded disconnection nothing is re-sent and nothing is reset
            pubs.clear();
            rels.clear();
            self.sim.note(|| "second connection without a recorded disconnection".to_string());
        } else {
            self.sim.cmd(Cmd::MarkDisconnected(secs_ago));
        }
        self.sim.note(|| format!("hook H1: disconnected {secs_ago} s ago; session expiry interval {:?}; new CONNACK receive maximum {:?}, maximum packet size {:?}", sei, o.receive_max, o.max_packet));
        self.sim.new_transport();
        if o.via_auth {
            let conn = ConnSpec { sei, client_id: Some("c".into()), topic_alias_maximum: Some(8), auth_method: Some("m".into()), auth_data: Some(vec![1]), ..Default::default() };
            self.sim.cmd(Cmd::Connect(conn));
            self.sim.settle();
            self.sim.feed_packet(&SPacket::Auth { reason: Some(0x18), props: vec![Prop::str(21, "m"), Prop::bin(22, b"c")] });
            self.sim.settle();
            self.sim.cmd(Cmd::Authorize(AuthSpec { reason: Some(0x18), method: Some("m".into()), data: Some(vec![2]), user_props: vec![] }));
            self.sim.settle();
        } else {
            let conn = ConnSpec { sei, client_id: Some("c".into()), topic_alias_maximum: Some(8), ..Default::default() };
            self.sim.cmd(Cmd::Connect(conn));
            self.sim.settle();
        }
        let talkative = self.reconnects % 2 == 0;
        let mut cprops = if talkative { Self::connack_chatter(true) } else { vec![] };
        if let Some(v) = connack_sei {
            cprops.push(Prop::u32(17, v));
        }
        if let Some(r) = o.receive_max {
            cprops.push(Prop::u16(33, r));
        }
        if let Some(m) = o.max_packet {
            cprops.push(Prop::u32(39, m));
        }
        if talkative {
            cprops.extend(Self::connack_chatter(false));
        }
        self.r = o.receive_max.map(|x| x as u32).unwrap_or(65535);
        self.max_packet = o.max_packet;
        self.sim.feed_packet(&SPacket::Connack { session_present: !expect_expired, reason: 0, props: cprops });
        for t in 0..o.trailing {
            self.in_publish(1, 600 + t as u16, false, &[], false);
            self.counters.packets_arriving_with_connack += 1;
        }
        self.sim.settle();
        self.sim.parse_wire();
        let after_connect = self.sim.wire.len();
        let call = if o.via_auth { "authorize" } else { "connect" };
        if !matches!(self.sim.last_ctx_result(call), Some(CtxOut::Conn(ConnOut::Connack(_)))) {
            self.viol(&["C17"], "C17/reconnect-failed".into(), format!("second {call}() did not return ConnectRsp: {:?}", self.sim.last_ctx_result(call)));
            self.blind = true;
            return false;
        }
        self.term = None;
        self.term_checked = false;
        self.disc_wire_idx = None;
        self.sim.cmd(Cmd::Run);
        self.sim.settle();
        if !self.sim.panics.is_empty() {
            self.check();
            return false;
        }
        self.sim.parse_wire();
        if let Some(e) = self.sim.wire_split_error.clone() {
            self.viol(&["C17"], "C17/resent-bytes-unsplittable".into(), e);
            self.blind = true;
            return false;
        }
        let mut resent: Vec<WirePkt> = self.sim.wire[after_connect..].to_vec();
        // acknowledgements of what arrived together with the CONNACK are not re-sent handshakes (the client re-sends PUBLISH and
        // PUBREL only): they are left to the ordinary attribution
        let mut tail = 0;
        while tail < o.trailing as usize && tail < resent.len() && matches!(&resent[resent.len() - 1 - tail].pkt, Ok(CPacket::Ack(a)) if a.kind == AckKind::Puback) {
            tail += 1;
        }
        resent.truncate(resent.len() - tail);
        self.attributed = self.sim.wire.len() - tail;
        // an operation that failed together with the previous connection (its own packet could not be written, so its
        // response channel was dropped: ContextExited) is finished; it holds no slot and nothing is owed for it
        for i in 0..self.m.len() {
            if let Some(o) = self.sim.ops[i].out.clone() {
                if matches!(o.err(), Some(ErrSum::ContextExited)) && self.m[i].expected.is_none() && !self.m[i].checked_done {
                    // ... but an exchange whose packet went out in full and is simply waiting for its acknowledgement has not
                    // failed: the session keeps it, and its future completes on the new connection (not judged after an expiry,
                    // where failing is what the abandoned operations must do)
                    let m = &self.m[i];
                    let write_failed = m.req_wire.is_none() || (m.kind == Kind::Pub2 && m.ack1 && m.ack1_ok && m.rel_wire.is_none());
                    if m.kind.is_qos_pub() && !write_failed && !m.dropped && !expect_expired && !plain_resume {
                        let k = m.kind.name();
                        self.viol(&["C17"], format!("C17/unfinished-exchange-failed-with-the-connection/{k}"), format!("op{i} ({k}, id {:?}): its packet was written in full and no acknowledgement had arrived when the connection ended; the session is resumed, yet the future had already failed with ContextExited", self.m[i].pkt_id));
                    }
                    self.m[i].expected = Some(o.clone());
                    self.m[i].checked_done = true;
                    if self.m[i].holds_slot {
                        self.m[i].holds_slot = false;
                        self.inflight = self.inflight.saturating_sub(1);
                    }
                    if let Some(id) = self.m[i].pkt_id {
                        if self.ids_outstanding.get(&id) == Some(&i) {
                            self.ids_outstanding.remove(&id);
                        }
                    }
                }
            }
        }
        // old wire indices are meaningless now; operations that completed on the previous connection were judged there
        for (i, m) in self.m.iter_mut().enumerate() {
            if m.req_wire.is_some() {
                m.ever_on_wire = true;
                // whatever was written on the previous connection had been accepted (the decision is otherwise taken while
                // run() is serving, which it no longer was if the packet was the user's DISCONNECT)
                if m.accepted.is_none() {
                    m.accepted = Some(true);
                    if matches!(m.kind, Kind::Pub0 | Kind::Disc) && m.expected.is_none() {
                        m.expected = Some(OpOut::Unit(Ok(())));
                    }
                }
            }
            if m.req_wire.is_some() && self.sim.ops[i].out.is_some() {
                m.checked_done = true;
            }
            if self.sim.ops[i].out.is_some() || m.dropped {
                m.prev_conn_done = true;
            }
            m.req_wire = None;
            m.rel_wire = None;
        }
        self.last_submit_step_on_wire = 0;
        if expect_expired {
            if !resent.is_empty() {
                let what: Vec<String> = resent.iter().map(|w| w.pkt.as_ref().map(|p| p.brief()).unwrap_or_else(|e| format!("undecodable: {e}"))).collect();
                self.viol(&["C17"], "C17/resent-although-session-expired".into(), format!("session expired (interval {:?}, disconnected {secs_ago} s ago) but the client re-sent {:?}", sei, what));
            }
            // abandoned operations must fail, not hang
            for i in 0..self.m.len() {
                if self.m[i].dropped || !self.m[i].submitted {
                    continue;
                }
                if self.sim.ops[i].task.alive() && !self.sim.ops[i].held {
                    self.viol(&["C17"], format!("C17/abandoned-op-hangs/{}", self.m[i].kind.name()), format!("op{i}: session expired, yet the abandoned {} future is still pending at quiescence", self.m[i].kind.name()));
                } else if let Some(o) = &self.sim.ops[i].out {
                    // (a DISCONNECT or QoS 0 publish is complete once written: its Ok is not the success of an abandoned exchange)
                    if self.m[i].expected.is_none() && o.is_ok() && !matches!(self.m[i].kind, Kind::Disc | Kind::Pub0) {
                        self.viol(&["C17"], format!("C17/abandoned-op-succeeded/{}", self.m[i].kind.name()), format!("op{i}: completed Ok although its exchange was abandoned with the expired session"));
                    }
                }
                self.m[i].dropped = true;
                self.m[i].holds_slot = false;
            }
            self.inflight = 0;
            self.wire_inflight = 0;
            self.ids_outstanding.clear();
            self.inbound_qos2.clear();
            for m in self.m.iter_mut() {
                if m.registered {
                    m.session_reset = true;
                }
                m.registered = false;
            }
            return false;
        }
        // not expired: PUBLISH entries (DUP=1, same id / topic / payload / qos) in original order, PUBREL entries in original order, nothing else
        let mut want_pubs: VecDeque<usize> = pubs.iter().copied().collect();
        let mut want_rels: VecDeque<usize> = rels.iter().copied().collect();
        for (k, wp) in resent.iter().enumerate() {
            let widx = after_connect + k;
            match &wp.pkt {
                Err(e) => {
                    self.viol(&["C17"], "C17/resent-packet-malformed".into(), format!("re-sent packet rejected by the reference decoder: {e}; bytes {:02x?}", &wp.bytes[..wp.bytes.len().min(48)]));
                }
                Ok(CPacket::Publish(p)) => {
                    let op = p.topic.strip_prefix("o/").and_then(|s| s.split('/').next()).and_then(|s| s.parse::<usize>().ok());
                    match want_pubs.front().copied() {
                        Some(i) if Some(i) == op => {
                            want_pubs.pop_front();
                            let want_q = if self.m[i].kind == Kind::Pub1 { 1 } else { 2 };
                            if !p.dup {
                                self.viol(&["C17"], "C17/resent-publish-without-dup".into(), format!("op{i}: re-sent PUBLISH has DUP=0"));
                            }
                            let mut got_props = p.props.clone();
                            got_props.sort_by_key(|x| (x.id != 3, format!("{:?}", x)));
                            if self.want_pub_retain(i) {
                                self.counters.resent_with_options += 1;
                            }
                            if p.id != self.m[i].pkt_id || p.qos != want_q || p.payload != self.plain_payload(i) || p.retain != self.want_pub_retain(i) || got_props != self.want_pub_props(i) || p.topic != self.pub_topic(i) {
                                self.viol(&["C17"], "C17/resent-publish-differs".into(), format!("op{i}: re-sent {} differs from the original (id {:?}, qos {want_q})", CPacket::Publish(p.clone()).brief(), self.m[i].pkt_id));
                            }
                            self.m[i].req_wire = Some(widx);
                        }
                        _ => {
                            let acked = op.filter(|i| *i < self.m.len()).map(|i| self.m[i].ack1).unwrap_or(false);
                            self.viol(
                                &["C17"],
                                format!("C17/unexpected-resend/PUBLISH/{}", if acked { "already-acknowledged" } else { "out-of-order-or-unknown" }),
                                format!("re-sent {} ; the model expects next PUBLISH for op {:?} (unfinished publishes {:?}, releases {:?})", CPacket::Publish(p.clone()).brief(), want_pubs.front(), pubs, rels),
                            );
                        }
                    }
                }
                Ok(CPacket::Ack(a)) if a.kind == AckKind::Pubrel => match want_rels.front().copied() {
                    Some(i) if self.m[i].pkt_id == Some(a.id) => {
                        want_rels.pop_front();
                        self.m[i].rel_wire = Some(widx);
                        self.m[i].req_wire = Some(widx);
                    }
                    _ => {
                        self.viol(&["C17"], "C17/unexpected-resend/PUBREL".into(), format!("re-sent PUBREL id {} ; the model expects next PUBREL for op {:?}", a.id, want_rels.front()));
                    }
                },
                Ok(other) => {
                    // an acknowledgement written before anything has arrived on this connection acknowledges nothing: more than
                    // "exactly one per inbound packet" (C08) as well
                    let unsolicited_ack = matches!(other, CPacket::Ack(a) if a.kind != AckKind::Pubrel);
                    self.viol(if unsolicited_ack { &["C17", "C08"] } else { &["C17"] }, format!("C17/unexpected-resend/{}", other.type_name()), format!("{} written on the resumed connection before any new request", other.brief()));
                }
            }
        }
        // C11: whatever is sent again, no two exchanges on the resumed connection may share a packet identifier
        {
            let mut seen: HashMap<u16, String> = HashMap::new();
            for wp in resent.iter() {
                let (pid, what) = match &wp.pkt {
                    Ok(CPacket::Publish(p)) if p.qos > 0 => (p.id.unwrap_or(0), format!("PUBLISH {}", p.topic)),
                    Ok(CPacket::Ack(a)) if a.kind == AckKind::Pubrel => (a.id, "PUBREL".to_string()),
                    _ => continue,
                };
                if pid == 0 {
                    self.viol(P_C11, "C11/zero-packet-id/resent".into(), format!("re-sent {what} carries packet identifier 0"));
                }
                if let Some(prev) = seen.insert(pid, what.clone()) {
                    self.viol(P_C11, "C11/duplicate-packet-id/resent".into(), format!("the resumed connection carries two unfinished exchanges with packet identifier {pid}: {prev} and {what}"));
                }
            }
        }
        for i in want_pubs {
            self.viol(&["C17"], format!("C17/not-resent/PUBLISH/{}", self.m[i].kind.name()), format!("op{i}: unacknowledged {} PUBLISH id {:?} was not re-sent on the resumed connection", self.m[i].kind.name(), self.m[i].pkt_id));
        }
        for i in want_rels {
            self.viol(&["C17"], "C17/not-resent/PUBREL".into(), format!("op{i}: PUBREL id {:?} without PUBCOMP was not re-sent on the resumed connection", self.m[i].pkt_id));
        }
        // a publish whose future is still pending but for which nothing is in flight on the new connection can never complete
        for i in 0..self.m.len() {
            let m = &self.m[i];
            if m.kind.is_qos_pub() && m.submitted && !m.dropped && m.accepted == Some(true) && m.req_wire.is_none() && self.sim.ops[i].task.alive() && self.sim.ops[i].out.is_none() && m.ever_on_wire {
                let k = m.kind.name();
                self.viol(&["C17"], format!("C17/pending-operation-not-resent/{k}"), format!("op{i} ({k}, id {:?}): its future is still pending on the resumed connection but neither its PUBLISH nor its PUBREL was re-sent - it can never complete", self.m[i].pkt_id));
            }
        }
        // every unfinished handshake occupies a slot of the new connection's Receive Maximum. When more handshakes were
        // unfinished than the new Receive Maximum allows, the mandatory re-sending itself exceeds it: nothing is asserted
        // about the quota on such a connection.
        self.wire_inflight = self.inflight;
        if self.inflight > self.r {
            self.quota_fuzzy = true;
        }
        true
    }

    // ------------------------------------------------------------ checking

    pub fn settle(&mut self) {
        self.sim.settle();
    }

    pub fn settle_check(&mut self) {
        self.sim.settle();
        self.check();
    }

    fn ctx_serving(&self) -> bool {
        !self.ctx_dropped
            && self.sim.ctx_in_call() == Some("run")
            && !self.sim.hold_ctx
            && !self.sim.writer.0.borrow().stalled
            && self.term.is_none()
    }

    /// The packet identifier at the position the standard assigns, for packet types that carry one from the client's side
    /// as the start of an exchange (PUBLISH with QoS > 0, SUBSCRIBE, UNSUBSCRIBE), read without decoding anything else.
    fn positional_id(bytes: &[u8]) -> Option<u16> {
        let ty = bytes.first()? >> 4;
        let mut i = 1;
        while *bytes.get(i)? & 0x80 != 0 {
            i += 1;
            if i > 4 {
                return None;
            }
        }
        i += 1;
        match ty {
            3 if (bytes[0] >> 1) & 3 > 0 => {
                let l = u16::from_be_bytes([*bytes.get(i)?, *bytes.get(i + 1)?]) as usize;
                let at = i + 2 + l;
                Some(u16::from_be_bytes([*bytes.get(at)?, *bytes.get(at + 1)?]))
            }
            8 | 10 => Some(u16::from_be_bytes([*bytes.get(i)?, *bytes.get(i + 1)?])),
            _ => None,
        }
    }

    fn attribute_wire(&mut self) {
        self.sim.parse_wire();
        if let Some(e) = self.sim.wire_split_error.clone() {
            if !self.blind {
                // a publish() that was accepted and whose PUBLISH cannot be found on the wire any more did not put exactly one
                // PUBLISH on the connection: the same observation also refutes C06
                let publish_lost = self.m.iter().any(|m| matches!(m.kind, Kind::Pub0 | Kind::Pub1 | Kind::Pub2) && m.submitted && m.req_wire.is_none() && !m.ever_on_wire && m.accepted != Some(false));
                self.viol(if publish_lost { P_C06_01 } else { P_C01 }, "C01/wire-unsplittable".into(), format!("the written byte stream cannot be split into packets: {e}"));
                self.blind = true;
            }
            return;
        }
        while self.attributed < self.sim.wire.len() {
            let wi = self.attributed;
            self.attributed += 1;
            self.counters.wire_packets += 1;
            let wp = self.sim.wire[wi].clone();
            if let Some(d) = self.disc_wire_idx {
                if wi > d {
                    self.viol(
                        P_C13,
                        "C13/written-after-user-disconnect".into(),
                        format!("packet written after the user's DISCONNECT: {:02x?}", &wp.bytes[..wp.bytes.len().min(32)]),
                    );
                }
            }
            let pkt = match &wp.pkt {
                Ok(p) => p.clone(),
                Err(e) => {
                    let ty = wp.bytes[0] >> 4;
                    // C11 speaks of the identifier a packet carries: the two bytes at the position the standard assigns
                    // (behind the length-prefixed topic of a PUBLISH, first in a SUBSCRIBE / UNSUBSCRIBE), whatever else is
                    // wrong with the packet. No acknowledgement can follow, so the exchange stays outstanding.
                    if let Some(pid) = Self::positional_id(&wp.bytes) {
                        if pid == 0 {
                            self.viol(P_C11, "C11/zero-packet-id".into(), format!("malformed packet of type {ty} carries packet identifier 0 at the position the standard assigns"));
                        } else if let Some(&j) = self.ids_outstanding.get(&pid) {
                            self.viol(P_C11, "C11/duplicate-packet-id".into(), format!("malformed packet of type {ty} carries packet identifier {pid} at the position the standard assigns, still outstanding for op{j}"));
                        } else if !self.malformed_ids.insert(pid) {
                            self.viol(P_C11, "C11/duplicate-packet-id".into(), format!("two malformed packets (the second of type {ty}) carry packet identifier {pid} at the position the standard assigns; neither can have been acknowledged"));
                        }
                    }
                    self.viol(
                        if ty == 3 { P_C06_01 } else { P_C01 },
                        format!("C01/malformed-packet/type={ty}"),
                        format!("packet at wire offset {} rejected by the reference decoder: {e}\nbytes: {:02x?}", wp.offset, &wp.bytes[..wp.bytes.len().min(64)]),
                    );
                    self.blind = true;
                    continue;
                }
            };
            match pkt {
                CPacket::Publish(p) => {
                    let op = p.topic.strip_prefix("o/").and_then(|s| s.split('/').next()).and_then(|s| s.parse::<usize>().ok());
                    let Some(i) = op.filter(|i| *i < self.m.len() && matches!(self.m[*i].kind, Kind::Pub0 | Kind::Pub1 | Kind::Pub2 | Kind::PubBig)) else {
                        self.viol(P_C06_01, "C01/unattributable-packet/PUBLISH".into(), format!("PUBLISH on the wire that no publish() asked for: {}", CPacket::Publish(p.clone()).brief()));
                        continue;
                    };
                    if !self.m[i].submitted {
                        self.viol(P_C06_01, "C06/publish-before-submission".into(), format!("op{i}: PUBLISH on the wire before the future was first polled"));
                    }
                    if self.m[i].req_wire.is_some() {
                        self.viol(P_C06_01, format!("C06/publish-duplicated/qos={}", p.qos), format!("op{i}: a second PUBLISH for the same publish() call: {}", CPacket::Publish(p.clone()).brief()));
                        continue;
                    }
                    self.m[i].req_wire = Some(wi);
                    let want_q = match self.m[i].kind {
                        Kind::Pub0 => 0,
                        Kind::Pub1 | Kind::PubBig => 1,
                        _ => 2,
                    };
                    let want_payload = if self.m[i].kind == Kind::PubBig { Self::big_payload(i) } else { self.plain_payload(i) };
                    if p.dup {
                        self.viol(P_C06, format!("C06/dup-set-on-first-transmission/qos={}", p.qos), format!("op{i}: first PUBLISH has DUP=1"));
                    }
                    let want_props = self.want_pub_props(i);
                    let mut got_props = p.props.clone();
                    got_props.sort_by_key(|x| (x.id != 3, format!("{:?}", x)));
                    if p.qos != want_q || p.retain != self.want_pub_retain(i) || p.payload != want_payload || got_props != want_props || (self.m[i].kind != Kind::PubBig && p.topic != self.pub_topic(i)) {
                        self.viol(
                            P_C06_01,
                            format!("C06/publish-fields-differ/qos={want_q}"),
                            format!("op{i}: PUBLISH differs from the request: {}", CPacket::Publish(p.clone()).brief()),
                        );
                    }
                    if want_q > 0 {
                        match p.id {
                            Some(id) => {
                                // C11: unique among outstanding
                                self.check_id_unique(i, id);
                                self.m[i].pkt_id = Some(id);
                            }
                            None => {
                                self.viol(P_C06, "C06/missing-packet-id".into(), format!("op{i}: QoS>0 PUBLISH without packet identifier"));
                            }
                        }
                        self.m[i].holds_slot = true;
                        self.inflight += 1;
                        self.wire_inflight += 1;
                        if self.inflight > self.max_inflight_seen {
                            self.max_inflight_seen = self.inflight;
                        }
                        if self.wire_inflight > self.r && !self.quota_fuzzy {
                            self.viol(
                                P_C10,
                                "C10/receive-maximum-exceeded".into(),
                                format!("op{i}: PUBLISH written while {} QoS>0 publishes were already outstanding (Receive Maximum {})", self.wire_inflight - 1, self.r),
                            );
                        }
                    }
                    self.note_order(i);
                }
                CPacket::Subscribe(s) => {
                    let op = s.filters.first().and_then(|f| f.filter.strip_prefix("f/")).and_then(|x| x.split('/').next()).and_then(|x| x.parse::<usize>().ok());
                    let Some(i) = op.filter(|i| *i < self.m.len() && self.m[*i].kind == Kind::Sub) else {
                        self.viol(P_C01, "C01/unattributable-packet/SUBSCRIBE".into(), format!("SUBSCRIBE nobody asked for: {}", CPacket::Subscribe(s.clone()).brief()));
                        continue;
                    };
                    if self.m[i].req_wire.is_some() {
                        self.viol(P_C01, "C01/request-duplicated/SUBSCRIBE".into(), format!("op{i}: second SUBSCRIBE for one subscribe() call"));
                        continue;
                    }
                    self.m[i].req_wire = Some(wi);
                    self.check_id_unique(i, s.id);
                    self.m[i].pkt_id = Some(s.id);
                    let sid = match rc::find(&s.props, 11) {
                        Some(rc::PVal::Var(v)) => Some(*v),
                        _ => None,
                    };
                    match sid {
                        None => self.viol(P_C11, "C11/subscribe-without-subscription-id".into(), format!("op{i}: SUBSCRIBE carries no subscription identifier")),
                        Some(v) => {
                            if let Some(&j) = self.sub_ids_seen.get(&v) {
                                if j != i {
                                    self.viol(P_C11, "C11/duplicate-subscription-id".into(), format!("op{i}: subscription identifier {v} already used by op{j}"));
                                }
                            }
                            self.sub_ids_seen.insert(v, i);
                        }
                    }
                    self.m[i].sub_id = sid;
                    self.m[i].registered = true;
                    self.note_order(i);
                }
                CPacket::Unsubscribe(s) => {
                    let op = s.filters.first().and_then(|f| f.strip_prefix("u/")).and_then(|x| x.split('/').next()).and_then(|x| x.parse::<usize>().ok());
                    let Some(i) = op.filter(|i| *i < self.m.len() && self.m[*i].kind == Kind::Unsub) else {
                        self.viol(P_C01, "C01/unattributable-packet/UNSUBSCRIBE".into(), format!("UNSUBSCRIBE nobody asked for"));
                        continue;
                    };
                    if self.m[i].req_wire.is_some() {
                        self.viol(P_C01, "C01/request-duplicated/UNSUBSCRIBE".into(), format!("op{i}: second UNSUBSCRIBE for one unsubscribe() call"));
                        continue;
                    }
                    self.m[i].req_wire = Some(wi);
                    self.check_id_unique(i, s.id);
                    self.m[i].pkt_id = Some(s.id);
                    self.note_order(i);
                }
                CPacket::Pingreq => {
                    let cand = self
                        .m
                        .iter()
                        .enumerate()
                        .filter(|(_, o)| o.kind == Kind::Ping && o.submitted && o.req_wire.is_none() && !o.prev_conn_done)
                        .min_by_key(|(_, o)| o.submit_step)
                        .map(|(i, _)| i);
                    match cand {
                        Some(i) => {
                            self.m[i].req_wire = Some(wi);
                            self.note_order(i);
                        }
                        None => self.viol(P_C01, "C01/unattributable-packet/PINGREQ".into(), "PINGREQ nobody asked for".into()),
                    }
                }
                CPacket::Disconnect(ref d) => {
                    let cand = self.m.iter().position(|o| o.kind == Kind::Disc && o.submitted && o.req_wire.is_none() && !o.prev_conn_done);
                    match cand {
                        Some(i) => {
                            if let OpSpec::Disconnect(spec) = self.spec_for(Kind::Disc, i) {
                                if let crate::checks::c01::Expect::Packet(want) = crate::checks::c01::expect_disconnect(&spec) {
                                    if let Some((field, why)) = crate::checks::c01::diff(&want, &CPacket::Disconnect(d.clone())) {
                                        self.viol(&["C01", "C13"], format!("C01/value-mismatch/pkt=DISCONNECT/field={field}"), format!("op{i}: the DISCONNECT written differs from the caller's options: {why}"));
                                    }
                                    if spec.reason.is_some() || spec.sei.is_some() {
                                        self.counters.disconnects_with_options += 1;
                                    }
                                }
                            }
                            self.m[i].req_wire = Some(wi);
                            self.note_order(i);
                            if self.disc_wire_idx.is_none() {
                                self.disc_wire_idx = Some(wi);
                                if self.term.is_none() {
                                    self.term = Some(Term::UserDisconnect);
                                }
                            }
                        }
                        None => self.viol(P_C01, "C01/unattributable-packet/DISCONNECT".into(), "DISCONNECT nobody asked for".into()),
                    }
                }
                CPacket::Ack(a) => match a.kind {
                    AckKind::Pubrel => {
                        let cand = self.ids_outstanding.get(&a.id).copied().filter(|&j| {
                            let o = &self.m[j];
                            o.kind == Kind::Pub2 && o.pkt_id == Some(a.id) && o.req_wire.is_some() && !o.ack2 && o.rel_wire.is_none() && o.ack1
                        });
                        match cand {
                            Some(i) if self.m[i].ack1_ok => {
                                self.m[i].rel_wire = Some(wi);
                                if a.reason != 0 {
                                    self.viol(P_C06, "C06/pubrel-reason".into(), format!("op{i}: PUBREL with reason {:#x}", a.reason));
                                }
                            }
                            Some(i) => {
                                self.viol(P_C06, "C06/pubrel-after-failed-pubrec".into(), format!("op{i}: PUBREL id {} sent although PUBREC carried a failure reason", a.id));
                            }
                            None => {
                                let failed = self.m.iter().rposition(|o| o.kind == Kind::Pub2 && o.pkt_id == Some(a.id) && o.req_wire.is_some() && o.ack1 && !o.ack1_ok);
                                if let Some(i) = failed {
                                    self.viol(P_C06, "C06/pubrel-after-failed-pubrec".into(), format!("op{i}: PUBREL id {} sent although PUBREC carried a failure reason", a.id));
                                    continue;
                                }
                                let early = self.m.iter().position(|o| o.kind == Kind::Pub2 && o.pkt_id == Some(a.id) && o.req_wire.is_some() && !o.ack1);
                                let dupl = self.m.iter().position(|o| o.kind == Kind::Pub2 && o.pkt_id == Some(a.id) && o.rel_wire.is_some() && !o.ack2);
                                if let Some(i) = early {
                                    self.viol(P_C06, "C06/pubrel-before-pubrec".into(), format!("op{i}: PUBREL id {} written before any PUBREC arrived", a.id));
                                } else if let Some(i) = dupl {
                                    self.viol(P_C06, "C06/pubrel-duplicated".into(), format!("op{i}: second PUBREL id {}", a.id));
                                } else {
                                    self.viol(P_C06_01, "C06/pubrel-unattributable".into(), format!("PUBREL id {} matches no QoS 2 publish in its second phase", a.id));
                                }
                            }
                        }
                    }
                    k => match self.expected_acks.front().copied() {
                        Some((ek, eid, _)) if ek == k && eid == a.id => {
                            self.expected_acks.pop_front();
                            self.counters.inbound_acks_matched += 1;
                            if a.reason >= 0x80 {
                                self.viol(P_C08, format!("C08/ack-failure-reason/{k:?}"), format!("{k:?} id {} carries reason {:#x}", a.id, a.reason));
                            }
                        }
                        Some((ek, eid, _)) => {
                            // is it somewhere later in the queue (= out of order / one missing) or nowhere (= extra)?
                            if let Some(pos) = self.expected_acks.iter().position(|(x, y, _)| *x == k && *y == a.id) {
                                let (mk, mid, mtag) = self.expected_acks[0];
                                self.viol(
                                    P_C08,
                                    format!("C08/ack-missing-or-out-of-order/expected={mk:?}/{mtag}"),
                                    format!("wire shows {k:?} id {} but the next acknowledgement due is {mk:?} id {mid} (queue position of the written one: {pos})", a.id),
                                );
                                for _ in 0..=pos {
                                    self.expected_acks.pop_front();
                                }
                            } else {
                                self.viol(P_C08, format!("C08/unexpected-ack/{k:?}"), format!("{k:?} id {} written; next due was {ek:?} id {eid}", a.id));
                            }
                        }
                        None => {
                            self.viol(P_C08, format!("C08/unexpected-ack/{k:?}"), format!("{k:?} id {} written but no inbound packet is awaiting an acknowledgement", a.id));
                        }
                    },
                },
                CPacket::Connect(_) | CPacket::Auth(_) => {
                    self.viol(P_C01, "C01/unattributable-packet/CONNECT-or-AUTH".into(), "CONNECT/AUTH written while running".into());
                }
            }
        }
    }

    fn finished(o: &OpM) -> bool {
        match o.kind {
            Kind::Pub1 | Kind::PubBig | Kind::Sub | Kind::Unsub => o.ack1,
            Kind::Pub2 => o.ack2 || (o.ack1 && !o.ack1_ok),
            _ => true,
        }
    }

    fn check_id_unique(&mut self, i: usize, id: u16) {
        if let Some(&j) = self.ids_outstanding.get(&id) {
            if j != i && !Self::finished(&self.m[j]) {
                self.viol(P_C11, "C11/duplicate-packet-id".into(), format!("op{i} uses packet identifier {id}, still outstanding for op{j} (its acknowledgement has not been sent yet)"));
            }
        }
        self.ids_outstanding.insert(id, i);
    }

    fn note_order(&mut self, i: usize) {
        let s = self.m[i].submit_step;
        if s < self.last_submit_step_on_wire {
            self.viol(
                P_C01,
                "C01/requests-out-of-submission-order".into(),
                format!("op{i} (submitted at step {s}) appears on the wire after a request submitted at step {}", self.last_submit_step_on_wire),
            );
        } else {
            self.last_submit_step_on_wire = s;
        }
    }

    /// Compare the client's observable state with the model at a quiescent point.
    pub fn check(&mut self) {
        self.counters.checks += 1;
        // every handle clone is gone once the script has dropped its own and the last pending operation (each owns a clone)
        // has finished or been cancelled: from then on HandleClosed is the documented outcome of run()
        if self.term.is_none() && !self.ctx_dropped && self.sim.handles.iter().all(|h| h.is_none()) && self.sim.ops.iter().all(|o| !o.task.alive()) {
            self.term = Some(Term::HandlesDropped);
        }
        // panics are never an allowed outcome
        if !self.sim.panics.is_empty() {
            let ps = std::mem::take(&mut self.sim.panics);
            for p in ps {
                if p.contains("VERIF_LIVELOCK") {
                    self.viol(P_ANY, "wedge/livelock".into(), format!("the client never reaches quiescence: {p}"));
                } else {
                    let sig = format!("panic/{}", p);
                    self.viol(P_ANY, sig, format!("library code panicked: {p}"));
                }
            }
            self.blind = true;
        }
        if self.blind {
            return;
        }
        self.attribute_wire();
        if self.blind {
            return;
        }
        if let Some(s) = self.sim.stalled() {
            self.viol(P_STALL, "stall/unread-input".into(), s);
            // everything downstream of a stall is a consequence of it
            self.blind = true;
            return;
        }
        let serving = self.ctx_serving();
        let writer_stalled = self.sim.writer.0.borrow().stalled;
        if serving && self.sim.unread() == 0 {
            self.confirmed_inbound = self.inbound_seq;
        }
        // a partial packet at quiescence is only legitimate while the script stalls the writer or the transport failed
        if !writer_stalled && self.sim.wire_tail() != 0 && self.sim.ctx_in_call() == Some("run") && !self.sim.hold_ctx && !self.sim.writer.0.borrow().err_signalled {
            let t = self.sim.wire_tail();
            self.viol(P_C01, "C01/partial-packet-at-quiescence".into(), format!("{t} trailing bytes on the wire do not form a whole packet although the writer accepts data"));
        }

        // --- acceptance decisions, in submission order
        if serving {
            let mut order: Vec<usize> = std::mem::take(&mut self.undecided).into_iter().filter(|&i| self.m[i].accepted.is_none() && !self.m[i].after_ctx_drop && !self.m[i].after_term).collect();
            order.sort_by_key(|&i| self.m[i].submit_step);
            for i in order {
                let on_wire = self.m[i].req_wire.is_some();
                let out = self.sim.ops[i].out.clone();
                let kind = self.m[i].kind;
                let quota_err = matches!(out.as_ref().and_then(|o| o.err()), Some(ErrSum::QuotaExceeded));
                if self.m[i].dropped {
                    // cancelled before the context looked at it: it may or may not have gone out
                    self.m[i].accepted = Some(on_wire);
                    continue;
                }
                if self.m[i].oversize && self.max_packet.map(|m| m < 300).unwrap_or(false) {
                    // larger than the announced Maximum Packet Size: refused, nothing written, no slot taken
                    // with all R slots in use C10 promises QuotaExceeded and C12 MaximumPacketSizeExceeded: either is accepted then
                    let refused = matches!(out.as_ref().and_then(|o| o.err()), Some(ErrSum::MaximumPacketSizeExceeded))
                        || (kind == Kind::PubBig && self.inflight >= self.r && matches!(out.as_ref().and_then(|o| o.err()), Some(ErrSum::QuotaExceeded)));
                    self.counters.oversize_refusals_expected += 1;
                    if on_wire {
                        self.viol(&["C12"], format!("C12/oversized-packet-written/{}", kind.name()), format!("op{i}: a request of more than 300 bytes was written although Maximum Packet Size is {:?}", self.max_packet));
                        self.m[i].accepted = Some(true);
                    } else {
                        if !refused {
                            self.viol(&["C12"], format!("C12/oversized-not-refused/{}", kind.name()), format!("op{i}: oversized {}: expected MaximumPacketSizeExceeded, got {:?}", kind.name(), out.as_ref().map(|o| o.brief())));
                        }
                        self.m[i].accepted = Some(false);
                        self.m[i].expected = out.clone();
                    }
                    continue;
                }
                if kind.is_qos_pub() {
                    // `inflight` already includes this op if it is on the wire
                    let before = self.inflight - on_wire as u32;
                    if self.m[i].race || self.quota_fuzzy {
                        if on_wire {
                            self.m[i].accepted = Some(true);
                            self.counters.quota_accepts += 1;
                        } else if quota_err {
                            self.m[i].accepted = Some(false);
                            self.m[i].expected = out.clone();
                            self.counters.quota_refusals += 1;
                        } else {
                            self.viol(P_C06, format!("C06/accepted-publish-not-on-wire/qos={}", kind.name()), format!("op{i}: neither on the wire nor refused: {:?}", out.as_ref().map(|o| o.brief())));
                            self.m[i].accepted = Some(false);
                        }
                    } else if before < self.r {
                        if on_wire {
                            self.m[i].accepted = Some(true);
                            self.counters.quota_accepts += 1;
                        } else if quota_err {
                            self.viol(
                                P_C10,
                                "C10/refused-below-limit".into(),
                                format!("op{i}: QuotaExceeded although only {before} of {} slots were in use", self.r),
                            );
                            self.m[i].accepted = Some(false);
                            self.m[i].expected = out.clone();
                        } else {
                            self.viol(P_C06, format!("C06/accepted-publish-not-on-wire/{}", kind.name()), format!("op{i}: not on the wire and not refused with QuotaExceeded: {:?}", out.as_ref().map(|o| o.brief())));
                            self.m[i].accepted = Some(false);
                            self.m[i].expected = out.clone();
                        }
                    } else {
                        // all R slots in use: must be refused, nothing written
                        if on_wire {
                            self.m[i].accepted = Some(true);
                            // the "written while R outstanding" violation was raised during attribution
                        } else if quota_err {
                            self.m[i].accepted = Some(false);
                            self.m[i].expected = out.clone();
                            self.counters.quota_refusals += 1;
                        } else {
                            self.viol(
                                P_C10,
                                "C10/wrong-refusal-at-limit".into(),
                                format!("op{i}: with all {} slots in use the publish must fail with QuotaExceeded, got {:?}", self.r, out.as_ref().map(|o| o.brief())),
                            );
                            self.m[i].accepted = Some(false);
                            self.m[i].expected = out.clone();
                        }
                    }
                } else {
                    if on_wire {
                        self.m[i].accepted = Some(true);
                        if matches!(kind, Kind::Pub0 | Kind::Disc) {
                            self.m[i].expected = Some(OpOut::Unit(Ok(())));
                        }
                    } else if quota_err {
                        self.viol(P_C10, format!("C10/quota-applied-to/{}", kind.name()), format!("op{i}: {} refused with QuotaExceeded", kind.name()));
                        self.m[i].accepted = Some(false);
                        self.m[i].expected = out.clone();
                    } else if self.disc_wire_idx.is_some() {
                        // queued behind the user's DISCONNECT: never processed
                        self.m[i].after_term = true;
                    } else {
                        self.viol(
                            P_C06_01,
                            format!("C01/request-not-written/{}", kind.name()),
                            format!("op{i}: {} was submitted, the context is serving, but nothing was written; result {:?}", kind.name(), out.as_ref().map(|o| o.brief())),
                        );
                        self.m[i].accepted = Some(false);
                        self.m[i].expected = out.clone();
                    }
                }
            }
            self.unsettled_submissions.clear();
            self.unsettled_completion = false;
        }

        // --- nothing may report success before its packet is on the wire (holds in every situation, also with a stalled writer)
        let nops = if self.light { 0 } else { self.m.len() };
        for i in 0..nops {
            if self.m[i].submitted && !self.m[i].dropped && !self.m[i].checked_done && self.m[i].req_wire.is_none() && !self.m[i].ever_on_wire {
                if let Some(o) = &self.sim.ops[i].out {
                    if o.is_ok() {
                        let k = self.m[i].kind;
                        let o = o.brief();
                        self.viol(P_C05_06, format!("C06/success-before-written/{}", k.name()), format!("op{i} ({}) completed with {o} although its packet has not been written to the transport", k.name()));
                        self.m[i].checked_done = true;
                    }
                }
            }
        }

        // --- per-op result rules
        for i in 0..nops {
            if self.m[i].dropped || self.sim.ops[i].held {
                continue;
            }
            // whatever ends the connection, operations learn of it as ContextExited (the transport's error is run()'s to report)
            if let Some(o) = &self.sim.ops[i].out {
                if matches!(o.err(), Some(ErrSum::SocketClosed)) && !self.m[i].checked_done {
                    let k = self.m[i].kind.name();
                    self.viol(P_C14, format!("C14/operation-reports-the-transports-error/{k}"), format!("op{i} ({k}) completed with SocketClosed; an operation cut short by the end of the connection reports ContextExited"));
                    self.m[i].checked_done = true;
                }
            }
            let out = self.sim.ops[i].out.clone();
            let kind = self.m[i].kind;
            if !self.m[i].submitted {
                continue;
            }
            if self.m[i].after_ctx_drop {
                // started after the context was dropped
                let ok = matches!(out.as_ref().and_then(|o| o.err()), Some(ErrSum::ContextExited));
                if !ok && !self.m[i].checked_done {
                    self.viol(
                        P_C14,
                        format!("C14/op-after-drop-not-context-exited/{}", kind.name()),
                        format!("op{i} started after drop(context): expected ContextExited on first poll, got {:?}", out.as_ref().map(|o| o.brief())),
                    );
                }
                if ok && !self.m[i].checked_done {
                    self.counters.ctx_exited_seen += 1;
                }
                self.m[i].checked_done = true;
                continue;
            }
            if self.ctx_dropped {
                if self.m[i].checked_done {
                    continue;
                }
                if !self.m[i].either.is_empty() {
                    match &out {
                        None => self.viol(
                            P_C14,
                            format!("C14/op-hangs-after-context-drop/{}", kind.name()),
                            format!("op{i} ({}) is still pending at quiescence after drop(context) and its waker never fired", kind.name()),
                        ),
                        Some(o) => {
                            if !self.m[i].either.contains(o) {
                                self.viol(
                                    P_C14,
                                    format!("C14/wrong-result-after-context-drop/{}", kind.name()),
                                    format!("op{i}: expected one of {:?}, got {}", self.m[i].either.iter().map(|x| x.brief()).collect::<Vec<_>>(), o.brief()),
                                );
                            } else if matches!(o.err(), Some(ErrSum::ContextExited)) {
                                self.counters.ctx_exited_seen += 1;
                            }
                        }
                    }
                    self.m[i].checked_done = true;
                }
                continue;
            }
            if !serving && self.term.is_none() {
                continue;
            }
            if self.term.is_some() {
                // after a terminating cause only completed expectations are compared
                if let (Some(e), Some(o)) = (&self.m[i].expected, &out) {
                    if e != o && !self.m[i].checked_done && !matches!(o.err(), Some(ErrSum::ContextExited)) {
                        self.viol(P_C05_06, format!("C05/wrong-result/{}", kind.name()), format!("op{i}: expected {}, got {}", e.brief(), o.brief()));
                    }
                    self.m[i].checked_done = true;
                }
                // an operation that was written and is waiting for its acknowledgement has nothing to complete with when the
                // connection ends: it stays pending (the session keeps it) or, once the context is gone, fails with
                // ContextExited - any other result is a completion without its acknowledgement
                if let (None, Some(o)) = (&self.m[i].expected, &out) {
                    if self.m[i].req_wire.is_some() && !matches!(kind, Kind::Pub0 | Kind::Disc) && !self.m[i].checked_done && !self.m[i].after_term && !matches!(o.err(), Some(ErrSum::ContextExited)) {
                        let o = o.brief();
                        self.viol(&["C05", "C14"], format!("C05/completed-without-its-ack/at-connection-end/{}", kind.name()), format!("op{i} ({}): written, unanswered when the connection ended, and completed with {o}", kind.name()));
                        self.m[i].checked_done = true;
                    }
                }
                continue;
            }
            match (&self.m[i].expected, &out) {
                (Some(e), Some(o)) => {
                    if !self.m[i].checked_done {
                        self.counters.completions_checked += 1;
                        if e != o {
                            let props = if matches!(kind, Kind::Pub0 | Kind::Pub1 | Kind::Pub2 | Kind::PubBig) { P_C05_06 } else { P_C05 };
                            self.viol(props, format!("C05/wrong-result/{}", kind.name()), format!("op{i}: expected {}, got {}", e.brief(), o.brief()));
                        } else if self.m[i].ack1 || self.m[i].ack2 {
                            self.counters.acks_matched += 1;
                        }
                        self.m[i].checked_done = true;
                    }
                }
                (Some(e), None) => {
                    let props = if matches!(kind, Kind::Pub0) { P_C06 } else { P_C05_06 };
                    self.viol(
                        props,
                        format!("C05/still-pending-after-ack/{}", kind.name()),
                        format!("op{i} ({}): expected {} but the future is still pending at quiescence", kind.name(), e.brief()),
                    );
                    // do not repeat on every check
                    self.m[i].dropped = true;
                }
                (None, Some(o)) => {
                    let props = if matches!(kind, Kind::Pub0 | Kind::Pub1 | Kind::Pub2 | Kind::PubBig) { P_C05_06 } else { P_C05 };
                    self.viol(
                        props,
                        format!("C05/completed-without-its-ack/{}", kind.name()),
                        format!("op{i} ({}): completed with {} although its acknowledgement has not been delivered", kind.name(), o.brief()),
                    );
                    self.m[i].expected = Some(o.clone());
                    self.m[i].checked_done = true;
                }
                (None, None) => {
                    self.counters.pending_checked += 1;
                }
            }
            // QoS 2 second phase
            let failed_with_connection = self.m[i].checked_done && self.m[i].expected.as_ref().map(|e| !e.is_ok()).unwrap_or(false);
            if kind == Kind::Pub2 && serving && self.m[i].ack1 && self.m[i].ack1_ok && !self.m[i].ack2 && self.m[i].rel_wire.is_none() && self.m[i].accepted == Some(true) && !failed_with_connection {
                self.viol(P_C06, "C06/pubrel-missing".into(), format!("op{i}: PUBREC (success) was delivered and everything settled, but no PUBREL id {:?} is on the wire", self.m[i].pkt_id));
                self.m[i].dropped = true;
            }
        }

        // --- cancelled QoS 2 publishes: the handshake must still complete (slot must be freed eventually)
        if serving {
            for i in 0..nops {
                let m = &self.m[i];
                if m.dropped && self.sim.ops[i].dropped && m.kind == Kind::Pub2 && m.req_wire.is_some() && m.ack1 && m.ack1_ok && !m.ack2 && m.rel_wire.is_none() && !m.checked_done {
                    self.m[i].checked_done = true;
                    self.viol(
                        P_C15_10,
                        "C15/abandoned-qos2-never-released".into(),
                        format!("op{i}: cancelled QoS 2 publish received PUBREC (success) but no PUBREL was sent; the broker can never complete it and its flow-control slot is never freed"),
                    );
                }
            }
        }

        // --- streams
        for i in 0..nops {
            if self.m[i].kind != Kind::Sub {
                continue;
            }
            let Some(s) = self.m[i].stream else { continue };
            if self.m[i].stream_dropped {
                continue;
            }
            let slot = &self.sim.streams[s];
            let items = slot.items.clone();
            let ended = slot.ended;
            let held = slot.held;
            let exp = self.m[i].expected_items.clone();
            // prefix property always; equality when auto-drained and not held
            let n = items.len().min(exp.len());
            let mut bad = None;
            for k in 0..n {
                if items[k] != exp[k] {
                    bad = Some(k);
                    break;
                }
            }
            if let Some(k) = bad {
                let dup = k > 0 && items[k] == items[k - 1];
                let props: &'static [&'static str] = if self.ctx_dropped { &["C14", "C07"] } else if items[k].qos == 2 { P_C07_09 } else { P_C07 };
                self.viol(
                    props,
                    format!("stream/item-mismatch/qos={}{}", items[k].qos, if dup { "/duplicate" } else { "" }),
                    format!("stream of op{i}: item {k} is {} but the model expects {}", items[k].brief(), exp[k].brief()),
                );
                self.m[i].stream_dropped = true;
                continue;
            }
            if items.len() > exp.len() {
                let x = &items[exp.len()];
                let props: &'static [&'static str] = if self.ctx_dropped { &["C14", "C07"] } else if x.qos == 2 { P_C07_09 } else { P_C07 };
                self.viol(
                    props,
                    format!("stream/extra-item/qos={}", x.qos),
                    format!("stream of op{i} yielded {} items, the model expects {}: extra {}", items.len(), exp.len(), x.brief()),
                );
                self.m[i].stream_dropped = true;
                continue;
            }
            let need = if self.ctx_dropped { self.m[i].min_items_after_drop.unwrap_or(exp.len()) } else { exp.len() };
            if !held && self.sim.auto_streams && (serving || self.ctx_dropped) && items.len() < need {
                let x = &exp[items.len()];
                let props: &'static [&'static str] = if self.ctx_dropped { &["C14", "C07"] } else if x.qos == 2 { P_C07_09 } else { P_C07 };
                self.viol(
                    props,
                    format!("stream/missing-item/qos={}", x.qos),
                    format!("stream of op{i} yielded {} items at quiescence, the model expects {}: missing {}", items.len(), exp.len(), x.brief()),
                );
                self.m[i].stream_dropped = true;
                continue;
            }
            self.counters.stream_items_checked += items.len() as u64;
            if ended && !self.ctx_dropped && self.term.is_none() && !self.m[i].session_reset {
                self.viol(P_C07, "C07/stream-ended-while-context-alive".into(), format!("stream of op{i} returned None while the context is alive and serving"));
                self.m[i].stream_dropped = true;
            }
            if self.ctx_dropped && !held && !ended {
                self.viol(P_C14, "C14/stream-does-not-end".into(), format!("stream of op{i} is still pending after drop(context) with all {} buffered items consumed", items.len()));
                self.m[i].stream_dropped = true;
            }
        }

        // --- inbound acknowledgements
        if serving && !self.expected_acks.is_empty() {
            let (k, id, tag) = self.expected_acks[0];
            let n = self.expected_acks.len();
            self.viol(
                P_C08,
                format!("C08/missing-ack/{k:?}/{tag}"),
                format!("{n} acknowledgement(s) due but not written at quiescence; first missing: {k:?} id {id}"),
            );
            self.expected_acks.clear();
        }

        // --- run() termination
        match (&self.term, self.sim.run_result()) {
            (None, Some(r)) if !self.ctx_dropped => {
                if !self.term_checked {
                    self.term_checked = true;
                    let cancelled = self.m.iter().any(|m| m.dropped);
                    let props: &'static [&'static str] = if cancelled { &["C13", "C15"] } else { P_C13 };
                    self.viol(
                        props,
                        format!("run-returned-without-cause/{}", match &r { Ok(()) => "Ok".to_string(), Err(e) => e.kind().to_string() }),
                        format!("run() returned {:?} although no terminating cause was injected{}", r, if cancelled { " (an operation had been cancelled)" } else { "" }),
                    );
                }
            }
            (Some(t), res) if !self.ctx_dropped && !self.sim.hold_ctx && !writer_stalled && !self.term_checked => {
                let t = t.clone();
                self.term_checked = true;
                self.counters.term_checked += 1;
                let name = match &t {
                    Term::UserDisconnect => "user_disconnect",
                    Term::ServerDisconnect(_) => "server_disconnect",
                    Term::ServerDisconnectOk => "server_disconnect_reason_0",
                    Term::Eof => "eof",
                    Term::ReadErr => "read_error",
                    Term::WriteErr => "write_error",
                    Term::HandlesDropped => "handles_dropped",
                    Term::Garbage => "undecodable_input",
                };
                match res {
                    None => self.viol(P_C13, format!("C13/run-not-returned/cause={name}"), format!("run() is still pending at quiescence after cause {name}")),
                    Some(r) => {
                        let ok = match (&t, &r) {
                            (Term::UserDisconnect, Ok(())) => true,
                            (Term::ServerDisconnectOk, Ok(())) => true,
                            (Term::ServerDisconnect(e), Err(x)) => e == x,
                            (Term::Eof, Err(ErrSum::SocketClosed)) | (Term::ReadErr, Err(ErrSum::SocketClosed)) | (Term::WriteErr, Err(ErrSum::SocketClosed)) => true,
                            (Term::HandlesDropped, Err(ErrSum::HandleClosed)) => true,
                            (Term::Garbage, Err(_)) => true,
                            _ => false,
                        };
                        if !ok {
                            self.viol(P_C13, format!("C13/run-wrong-result/cause={name}"), format!("after cause {name} run() returned {:?}; expected per model: {:?}", r, t));
                        }
                    }
                }
            }
            _ => {}
        }

        // --- H3 auxiliary invariants
        if self.h3 {
            let snaps = poster::verif::drain();
            self.counters.h3_snapshots += snaps.len() as u64;
            for s in &snaps {
                if s.send_quota as u32 > self.r && !self.quota_fuzzy {
                    self.viol(P_C10, "C10/h3/send-quota-above-receive-maximum".into(), format!("internal send quota {} exceeds Receive Maximum {}", s.send_quota, self.r));
                    break;
                }
            }
            if serving && !self.quota_fuzzy {
                if let Some(last) = snaps.last() {
                    if last.send_quota as u32 + self.inflight != self.r {
                        self.viol(
                            P_C10,
                            "C10/h3/quota-conservation".into(),
                            format!("at quiescence: internal send quota {} + outstanding per model {} != Receive Maximum {}", last.send_quota, self.inflight, self.r),
                        );
                        self.h3 = false;
                    }
                }
            }
        }
    }

    /// End-of-script probe for C10/C12/C15: publish QoS 1 until the first QuotaExceeded.
    /// Returns the number accepted (limited by `cap`). The caller compares with R - inflight.
    pub fn probe_quota(&mut self, cap: u32) -> u32 {
        let mut accepted = 0;
        for _ in 0..cap + 1 {
            let i = self.start(0, Kind::Pub1);
            self.settle();
            self.attribute_wire();
            let out = self.sim.ops[i].out.clone();
            if self.m[i].req_wire.is_some() {
                self.m[i].accepted = Some(true);
                accepted += 1;
            } else {
                self.m[i].accepted = Some(false);
                self.m[i].expected = out.clone();
                self.m[i].checked_done = true;
                break;
            }
        }
        self.unsettled_submissions.clear();
        accepted
    }

    pub fn take_viols(&mut self) -> Vec<Viol> {
        std::mem::take(&mut self.viols)
    }

    /// Abstract shape of the trace, for counting distinct executions.
    pub fn shape(&self) -> Vec<u8> {
        let mut v: Vec<u8> = Vec::new();
        for (i, m) in self.m.iter().enumerate() {
            v.push(m.kind as u8);
            v.push(m.accepted.map(|a| a as u8 + 1).unwrap_or(0));
            v.push(m.ack1 as u8 | (m.ack2 as u8) << 1 | (m.dropped as u8) << 2 | (m.ack1_ok as u8) << 3);
            v.push(match &self.sim.ops[i].out {
                None => 0,
                Some(o) if o.is_ok() => 1,
                Some(_) => 2,
            });
            v.push(m.expected_items.len() as u8);
        }
        v.push(0xff);
        for w in &self.sim.wire {
            v.push(w.bytes[0]);
        }
        v.push(self.term.is_some() as u8);
        v.push(self.ctx_dropped as u8);
        v
    }
}
