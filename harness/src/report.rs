//! Result collection for one worker process and its line-oriented output format.

use std::collections::hash_map::DefaultHasher;
use std::collections::{BTreeMap, HashMap, HashSet};
use std::hash::{Hash, Hasher};
use std::io::Write;

#[derive(Clone, Copy, PartialEq, Eq, Debug)]
pub enum Tier {
    Quick,
    Thorough,
}

pub struct Viol {
    pub sig: String,
    pub case: String,
    pub detail: String,
}

pub struct Rep {
    pub prop: String,
    pub tier: Tier,
    pub seed: u64,
    pub shard: u64,
    pub nshards: u64,
    pub only: Option<String>,
    pub verbose: bool,
    pub profile: String,
    stats: BTreeMap<String, i64>,
    viols: Vec<Viol>,
    sig_counts: HashMap<String, u64>,
    samples: Vec<String>,
    distinct: HashSet<u64>,
    notes: Vec<String>,
    inconclusive: Vec<String>,
    pub sample_cap: usize,
    case_ctr: u64,
    journal: Option<String>,
    sample_calls: u64,
}

pub fn esc(s: &str) -> String {
    s.replace('\\', "\\\\").replace('\n', "\\n").replace('\t', "\\t").replace('\r', "\\r")
}

impl Rep {
    pub fn new(prop: &str, tier: Tier, seed: u64, shard: u64, nshards: u64) -> Rep {
        Rep {
            prop: prop.to_string(),
            tier,
            seed,
            shard,
            nshards,
            only: None,
            verbose: false,
            profile: String::new(),
            stats: BTreeMap::new(),
            viols: Vec::new(),
            sig_counts: HashMap::new(),
            samples: Vec::new(),
            distinct: HashSet::new(),
            notes: Vec::new(),
            inconclusive: Vec::new(),
            sample_cap: 10,
            case_ctr: 0,
            journal: std::env::var("PVH_JOURNAL").ok(),
            sample_calls: 0,
        }
    }

    pub fn quick(&self) -> bool {
        self.tier == Tier::Quick
    }

    /// Sharding + replay filter. `idx` is a deterministic running index of the case within the
    /// check, `id` its stable name. Returns true if this worker should run the case.
    pub fn take(&mut self, idx: u64, id: &str) -> bool {
        if let Some(o) = &self.only {
            return o == id;
        }
        let mine = idx % self.nshards == self.shard;
        if mine {
            if let Ok(mut c) = crate::sim::CURRENT_CASE.lock() {
                c.clear();
                c.push_str(id);
            }
            crate::sim::beat();
            if let Some(j) = &self.journal {
                let _ = std::fs::write(j, id);
            }
        }
        mine
    }

    /// running counter variant of `take` for generators that do not carry their own index
    pub fn take_next(&mut self, id: &str) -> bool {
        let i = self.case_ctr;
        self.case_ctr += 1;
        self.take(i, id)
    }

    pub fn add(&mut self, key: &str, n: i64) {
        *self.stats.entry(key.to_string()).or_insert(0) += n;
    }

    pub fn max(&mut self, key: &str, n: i64) {
        let e = self.stats.entry(key.to_string()).or_insert(i64::MIN);
        if n > *e {
            *e = n;
        }
    }

    pub fn get(&self, key: &str) -> i64 {
        self.stats.get(key).copied().unwrap_or(0)
    }

    pub fn note(&mut self, s: &str) {
        if !self.notes.iter().any(|n| n == s) {
            self.notes.push(s.to_string());
        }
    }

    /// Something prevented a verdict for part of the run (watchdog, harness limit): reported as INCONCLUSIVE, never as a violation.
    pub fn inconclusive(&mut self, reason: &str) {
        if self.inconclusive.len() < 5 {
            self.inconclusive.push(reason.to_string());
        }
    }

    pub fn violation(&mut self, sig: &str, case: &str, detail: &str) {
        let c = self.sig_counts.entry(sig.to_string()).or_insert(0);
        *c += 1;
        if *c <= 2 {
            self.viols.push(Viol { sig: sig.to_string(), case: case.to_string(), detail: detail.to_string() });
        }
        if self.verbose {
            println!("VIOLATION-DETAIL sig={sig} case={case}\n{detail}");
        }
    }

    pub fn n_violations(&self) -> u64 {
        self.sig_counts.values().sum()
    }

    /// Keeps the 1st, 3rd, 9th, 27th ... candidate so that samples are spread over the run.
    pub fn sample(&mut self, s: impl FnOnce() -> String) {
        self.sample_calls += 1;
        let n = self.sample_calls;
        let mut p = 1u64;
        while p < n {
            p *= 3;
        }
        if p == n && self.samples.len() < self.sample_cap {
            let v = s();
            self.samples.push(v);
        }
    }

    pub fn distinct<H: Hash>(&mut self, h: &H) {
        if self.distinct.len() < 400_000 {
            let mut hs = DefaultHasher::new();
            h.hash(&mut hs);
            self.distinct.insert(hs.finish());
        }
    }

    pub fn n_distinct(&self) -> usize {
        self.distinct.len()
    }

    pub fn write_out(&self, path: Option<&str>) {
        let mut out: Box<dyn Write> = match path {
            Some(p) => Box::new(std::io::BufWriter::new(std::fs::File::create(p).expect("harness: cannot create out file"))),
            None => Box::new(std::io::stdout()),
        };
        for (k, v) in &self.stats {
            writeln!(out, "S\t{k}\t{v}").unwrap();
        }
        for (sig, n) in &self.sig_counts {
            writeln!(out, "C\t{}\t{n}", esc(sig)).unwrap();
        }
        for v in &self.viols {
            writeln!(out, "V\t{}\t{}\t{}\t{}", self.prop, esc(&v.sig), esc(&v.case), esc(&v.detail)).unwrap();
        }
        for s in &self.samples {
            writeln!(out, "X\t{}", esc(s)).unwrap();
        }
        for n in &self.notes {
            writeln!(out, "N\t{}", esc(n)).unwrap();
        }
        for n in &self.inconclusive {
            writeln!(out, "I\t{}", esc(n)).unwrap();
        }
        let mut d: Vec<&u64> = self.distinct.iter().collect();
        d.sort();
        for h in d {
            writeln!(out, "D\t{h:x}").unwrap();
        }
        writeln!(out, "E\tok").unwrap();
        out.flush().unwrap();
    }
}
