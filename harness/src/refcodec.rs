//! Independent MQTT 5.0 reference codec, written from the OASIS specification.
//! Shares no code with the library under test.
//!  * strict decoder for client -> server packets (everything the client writes)
//!  * encoder for server -> client packets with full control over property order,
//!    repetition and short forms
//!  * stream splitter

use std::fmt;

// ---------------------------------------------------------------- primitives

pub fn put_varint(out: &mut Vec<u8>, mut v: u32) {
    assert!(v <= 268_435_455);
    loop {
        let mut b = (v % 128) as u8;
        v /= 128;
        if v > 0 {
            b |= 0x80;
        }
        out.push(b);
        if v == 0 {
            break;
        }
    }
}

pub fn varint_len(v: u32) -> usize {
    if v < 128 {
        1
    } else if v < 16_384 {
        2
    } else if v < 2_097_152 {
        3
    } else {
        4
    }
}

/// Returns (value, bytes used). Err(true) = need more data, Err(false) = malformed.
pub fn get_varint(b: &[u8]) -> Result<(u32, usize), bool> {
    let mut v: u32 = 0;
    for i in 0..4 {
        if i >= b.len() {
            return Err(true);
        }
        v |= ((b[i] & 0x7f) as u32) << (7 * i);
        if b[i] & 0x80 == 0 {
            // minimal-length encoding is required by the standard
            if i > 0 && b[i] == 0 {
                return Err(false);
            }
            return Ok((v, i + 1));
        }
    }
    Err(false)
}

pub fn put_str(out: &mut Vec<u8>, s: &str) {
    assert!(s.len() <= 65535);
    out.extend_from_slice(&(s.len() as u16).to_be_bytes());
    out.extend_from_slice(s.as_bytes());
}

pub fn put_bin(out: &mut Vec<u8>, s: &[u8]) {
    assert!(s.len() <= 65535);
    out.extend_from_slice(&(s.len() as u16).to_be_bytes());
    out.extend_from_slice(s);
}

#[derive(Debug, Clone, PartialEq, Eq)]
pub struct DecodeError(pub String);

impl fmt::Display for DecodeError {
    fn fmt(&self, f: &mut fmt::Formatter<'_>) -> fmt::Result {
        write!(f, "{}", self.0)
    }
}

fn err<T>(s: impl Into<String>) -> Result<T, DecodeError> {
    Err(DecodeError(s.into()))
}

struct Rd<'a> {
    b: &'a [u8],
    p: usize,
}

impl<'a> Rd<'a> {
    fn new(b: &'a [u8]) -> Self {
        Rd { b, p: 0 }
    }
    fn left(&self) -> usize {
        self.b.len() - self.p
    }
    fn u8(&mut self, what: &str) -> Result<u8, DecodeError> {
        if self.left() < 1 {
            return err(format!("truncated: {what}"));
        }
        let v = self.b[self.p];
        self.p += 1;
        Ok(v)
    }
    fn u16(&mut self, what: &str) -> Result<u16, DecodeError> {
        if self.left() < 2 {
            return err(format!("truncated: {what}"));
        }
        let v = u16::from_be_bytes([self.b[self.p], self.b[self.p + 1]]);
        self.p += 2;
        Ok(v)
    }
    fn u32(&mut self, what: &str) -> Result<u32, DecodeError> {
        if self.left() < 4 {
            return err(format!("truncated: {what}"));
        }
        let v = u32::from_be_bytes([
            self.b[self.p],
            self.b[self.p + 1],
            self.b[self.p + 2],
            self.b[self.p + 3],
        ]);
        self.p += 4;
        Ok(v)
    }
    fn varint(&mut self, what: &str) -> Result<u32, DecodeError> {
        match get_varint(&self.b[self.p..]) {
            Ok((v, n)) => {
                self.p += n;
                Ok(v)
            }
            Err(_) => err(format!("bad variable byte integer: {what}")),
        }
    }
    fn bytes(&mut self, n: usize, what: &str) -> Result<&'a [u8], DecodeError> {
        if self.left() < n {
            return err(format!("truncated: {what} needs {n} bytes, {} left", self.left()));
        }
        let s = &self.b[self.p..self.p + n];
        self.p += n;
        Ok(s)
    }
    fn bin(&mut self, what: &str) -> Result<Vec<u8>, DecodeError> {
        let n = self.u16(what)? as usize;
        Ok(self.bytes(n, what)?.to_vec())
    }
    fn string(&mut self, what: &str) -> Result<String, DecodeError> {
        let n = self.u16(what)? as usize;
        let raw = self.bytes(n, what)?;
        match std::str::from_utf8(raw) {
            Ok(s) => {
                if s.contains('\0') {
                    return err(format!("U+0000 in string: {what}"));
                }
                Ok(s.to_string())
            }
            Err(_) => err(format!("invalid UTF-8: {what}")),
        }
    }
}

// ---------------------------------------------------------------- properties

#[derive(Debug, Clone, PartialEq, Eq)]
pub enum PVal {
    Byte(u8),
    U16(u16),
    U32(u32),
    Var(u32),
    Str(String),
    Bin(Vec<u8>),
    Pair(String, String),
}

#[derive(Debug, Clone, PartialEq, Eq)]
pub struct Prop {
    pub id: u8,
    pub val: PVal,
}

#[derive(Clone, Copy, PartialEq, Eq, Debug)]
pub enum PTy {
    Byte,
    U16,
    U32,
    Var,
    Str,
    Bin,
    Pair,
}

// packet-context bits
pub const IN_CONNECT: u16 = 1 << 0;
pub const IN_CONNACK: u16 = 1 << 1;
pub const IN_PUBLISH: u16 = 1 << 2;
pub const IN_ACK: u16 = 1 << 3; // PUBACK PUBREC PUBREL PUBCOMP
pub const IN_SUBSCRIBE: u16 = 1 << 4;
pub const IN_SUBACK: u16 = 1 << 5;
pub const IN_UNSUBSCRIBE: u16 = 1 << 6;
pub const IN_UNSUBACK: u16 = 1 << 7;
pub const IN_DISCONNECT: u16 = 1 << 8;
pub const IN_AUTH: u16 = 1 << 9;
pub const IN_WILL: u16 = 1 << 10;

/// (id, name, wire type, contexts in which it is legal, may repeat)
pub const REGISTRY: &[(u8, &str, PTy, u16, bool)] = &[
    (1, "payload_format_indicator", PTy::Byte, IN_PUBLISH | IN_WILL, false),
    (2, "message_expiry_interval", PTy::U32, IN_PUBLISH | IN_WILL, false),
    (3, "content_type", PTy::Str, IN_PUBLISH | IN_WILL, false),
    (8, "response_topic", PTy::Str, IN_PUBLISH | IN_WILL, false),
    (9, "correlation_data", PTy::Bin, IN_PUBLISH | IN_WILL, false),
    (11, "subscription_identifier", PTy::Var, IN_PUBLISH | IN_SUBSCRIBE, true),
    (17, "session_expiry_interval", PTy::U32, IN_CONNECT | IN_CONNACK | IN_DISCONNECT, false),
    (18, "assigned_client_identifier", PTy::Str, IN_CONNACK, false),
    (19, "server_keep_alive", PTy::U16, IN_CONNACK, false),
    (21, "authentication_method", PTy::Str, IN_CONNECT | IN_CONNACK | IN_AUTH, false),
    (22, "authentication_data", PTy::Bin, IN_CONNECT | IN_CONNACK | IN_AUTH, false),
    (23, "request_problem_information", PTy::Byte, IN_CONNECT, false),
    (24, "will_delay_interval", PTy::U32, IN_WILL, false),
    (25, "request_response_information", PTy::Byte, IN_CONNECT, false),
    (26, "response_information", PTy::Str, IN_CONNACK, false),
    (28, "server_reference", PTy::Str, IN_CONNACK | IN_DISCONNECT, false),
    (
        31,
        "reason_string",
        PTy::Str,
        IN_CONNACK | IN_ACK | IN_SUBACK | IN_UNSUBACK | IN_DISCONNECT | IN_AUTH,
        false,
    ),
    (33, "receive_maximum", PTy::U16, IN_CONNECT | IN_CONNACK, false),
    (34, "topic_alias_maximum", PTy::U16, IN_CONNECT | IN_CONNACK, false),
    (35, "topic_alias", PTy::U16, IN_PUBLISH, false),
    (36, "maximum_qos", PTy::Byte, IN_CONNACK, false),
    (37, "retain_available", PTy::Byte, IN_CONNACK, false),
    (38, "user_property", PTy::Pair, 0x7ff, true),
    (39, "maximum_packet_size", PTy::U32, IN_CONNECT | IN_CONNACK, false),
    (40, "wildcard_subscription_available", PTy::Byte, IN_CONNACK, false),
    (41, "subscription_identifier_available", PTy::Byte, IN_CONNACK, false),
    (42, "shared_subscription_available", PTy::Byte, IN_CONNACK, false),
];

pub fn registry(id: u8) -> Option<&'static (u8, &'static str, PTy, u16, bool)> {
    REGISTRY.iter().find(|r| r.0 == id)
}

pub fn prop_name(id: u8) -> &'static str {
    registry(id).map(|r| r.1).unwrap_or("unknown")
}

impl Prop {
    pub fn byte(id: u8, v: u8) -> Prop {
        Prop { id, val: PVal::Byte(v) }
    }
    pub fn u16(id: u8, v: u16) -> Prop {
        Prop { id, val: PVal::U16(v) }
    }
    pub fn u32(id: u8, v: u32) -> Prop {
        Prop { id, val: PVal::U32(v) }
    }
    pub fn var(id: u8, v: u32) -> Prop {
        Prop { id, val: PVal::Var(v) }
    }
    pub fn str(id: u8, v: &str) -> Prop {
        Prop { id, val: PVal::Str(v.to_string()) }
    }
    pub fn bin(id: u8, v: &[u8]) -> Prop {
        Prop { id, val: PVal::Bin(v.to_vec()) }
    }
    pub fn pair(k: &str, v: &str) -> Prop {
        Prop { id: 38, val: PVal::Pair(k.to_string(), v.to_string()) }
    }
    pub fn encode(&self, out: &mut Vec<u8>) {
        out.push(self.id);
        match &self.val {
            PVal::Byte(v) => out.push(*v),
            PVal::U16(v) => out.extend_from_slice(&v.to_be_bytes()),
            PVal::U32(v) => out.extend_from_slice(&v.to_be_bytes()),
            PVal::Var(v) => put_varint(out, *v),
            PVal::Str(s) => put_str(out, s),
            PVal::Bin(b) => put_bin(out, b),
            PVal::Pair(k, v) => {
                put_str(out, k);
                put_str(out, v);
            }
        }
    }
}

pub fn encode_props(props: &[Prop]) -> Vec<u8> {
    let mut body = Vec::new();
    for p in props {
        p.encode(&mut body);
    }
    let mut out = Vec::new();
    put_varint(&mut out, body.len() as u32);
    out.extend_from_slice(&body);
    out
}

/// Decodes a property block (length prefix + properties), strict:
/// the properties must fill the announced length exactly, ids must be legal in `ctx`,
/// non-repeatable ids must not repeat, value constraints are enforced.
fn decode_props(rd: &mut Rd, ctx: u16, what: &str) -> Result<Vec<Prop>, DecodeError> {
    let len = rd.varint(&format!("{what} property length"))? as usize;
    if rd.left() < len {
        return err(format!(
            "{what}: property length {len} exceeds the {} bytes that follow",
            rd.left()
        ));
    }
    let end = rd.p + len;
    let mut sub = Rd { b: &rd.b[..end], p: rd.p };
    let mut out: Vec<Prop> = Vec::new();
    while sub.p < end {
        let id = sub.varint("property id")?;
        if id > 255 {
            return err(format!("{what}: unknown property id {id}"));
        }
        let id = id as u8;
        let reg = match registry(id) {
            Some(r) => r,
            None => return err(format!("{what}: unknown property id {id}")),
        };
        if reg.3 & ctx == 0 {
            return err(format!("{what}: property {} ({id}) not legal here", reg.1));
        }
        if !reg.4 && out.iter().any(|p| p.id == id) {
            return err(format!("{what}: property {} ({id}) repeated", reg.1));
        }
        let val = match reg.2 {
            PTy::Byte => PVal::Byte(sub.u8(reg.1)?),
            PTy::U16 => PVal::U16(sub.u16(reg.1)?),
            PTy::U32 => PVal::U32(sub.u32(reg.1)?),
            PTy::Var => PVal::Var(sub.varint(reg.1)?),
            PTy::Str => PVal::Str(sub.string(reg.1)?),
            PTy::Bin => PVal::Bin(sub.bin(reg.1)?),
            PTy::Pair => {
                let k = sub.string(reg.1)?;
                let v = sub.string(reg.1)?;
                PVal::Pair(k, v)
            }
        };
        // value constraints
        match (id, &val) {
            (1, PVal::Byte(v)) | (23, PVal::Byte(v)) | (25, PVal::Byte(v)) if *v > 1 => {
                return err(format!("{what}: property {} value {v} not 0/1", reg.1))
            }
            (33, PVal::U16(0)) | (35, PVal::U16(0)) => {
                return err(format!("{what}: property {} is zero", reg.1))
            }
            (39, PVal::U32(0)) => return err(format!("{what}: property {} is zero", reg.1)),
            (11, PVal::Var(0)) => return err(format!("{what}: subscription identifier is zero")),
            _ => {}
        }
        out.push(Prop { id, val });
    }
    if sub.p != end {
        return err(format!("{what}: properties overrun the property length"));
    }
    rd.p = end;
    Ok(out)
}

pub fn user_props(props: &[Prop]) -> Vec<(String, String)> {
    props
        .iter()
        .filter_map(|p| match &p.val {
            PVal::Pair(k, v) if p.id == 38 => Some((k.clone(), v.clone())),
            _ => None,
        })
        .collect()
}

pub fn find<'a>(props: &'a [Prop], id: u8) -> Option<&'a PVal> {
    props.iter().find(|p| p.id == id).map(|p| &p.val)
}

// ------------------------------------------------- client -> server packets

#[derive(Debug, Clone, PartialEq, Eq, Default)]
pub struct Will {
    pub qos: u8,
    pub retain: bool,
    pub props: Vec<Prop>,
    pub topic: String,
    pub payload: Vec<u8>,
}

#[derive(Debug, Clone, PartialEq, Eq, Default)]
pub struct Connect {
    pub clean_start: bool,
    pub keep_alive: u16,
    pub props: Vec<Prop>,
    pub client_id: String,
    pub will: Option<Will>,
    pub username: Option<String>,
    pub password: Option<Vec<u8>>,
}

#[derive(Debug, Clone, PartialEq, Eq, Default)]
pub struct Publish {
    pub dup: bool,
    pub qos: u8,
    pub retain: bool,
    pub topic: String,
    pub id: Option<u16>,
    pub props: Vec<Prop>,
    pub payload: Vec<u8>,
}

#[derive(Debug, Clone, Copy, PartialEq, Eq, Hash, PartialOrd, Ord)]
pub enum AckKind {
    Puback,
    Pubrec,
    Pubrel,
    Pubcomp,
}

impl AckKind {
    pub fn header(self) -> u8 {
        match self {
            AckKind::Puback => 0x40,
            AckKind::Pubrec => 0x50,
            AckKind::Pubrel => 0x62,
            AckKind::Pubcomp => 0x70,
        }
    }
    pub fn legal_reasons(self) -> &'static [u8] {
        match self {
            AckKind::Puback | AckKind::Pubrec => {
                &[0x00, 0x10, 0x80, 0x83, 0x87, 0x90, 0x91, 0x97, 0x99]
            }
            AckKind::Pubrel | AckKind::Pubcomp => &[0x00, 0x92],
        }
    }
}

#[derive(Debug, Clone, PartialEq, Eq)]
pub struct Ack {
    pub kind: AckKind,
    pub id: u16,
    pub reason: u8,
    pub props: Vec<Prop>,
    /// remaining length as seen on the wire (2, 3 or >= 4)
    pub remaining_len: u32,
}

#[derive(Debug, Clone, PartialEq, Eq)]
pub struct SubFilter {
    pub filter: String,
    pub max_qos: u8,
    pub no_local: bool,
    pub retain_as_published: bool,
    pub retain_handling: u8,
}

#[derive(Debug, Clone, PartialEq, Eq)]
pub struct Subscribe {
    pub id: u16,
    pub props: Vec<Prop>,
    pub filters: Vec<SubFilter>,
}

#[derive(Debug, Clone, PartialEq, Eq)]
pub struct Unsubscribe {
    pub id: u16,
    pub props: Vec<Prop>,
    pub filters: Vec<String>,
}

#[derive(Debug, Clone, PartialEq, Eq)]
pub struct DisconnectC {
    pub reason: u8,
    pub props: Vec<Prop>,
    pub remaining_len: u32,
}

#[derive(Debug, Clone, PartialEq, Eq)]
pub struct AuthC {
    pub reason: u8,
    pub props: Vec<Prop>,
    pub remaining_len: u32,
}

#[derive(Debug, Clone, PartialEq, Eq)]
pub enum CPacket {
    Connect(Connect),
    Auth(AuthC),
    Publish(Publish),
    Ack(Ack),
    Subscribe(Subscribe),
    Unsubscribe(Unsubscribe),
    Pingreq,
    Disconnect(DisconnectC),
}

impl CPacket {
    pub fn type_name(&self) -> &'static str {
        match self {
            CPacket::Connect(_) => "CONNECT",
            CPacket::Auth(_) => "AUTH",
            CPacket::Publish(_) => "PUBLISH",
            CPacket::Ack(a) => match a.kind {
                AckKind::Puback => "PUBACK",
                AckKind::Pubrec => "PUBREC",
                AckKind::Pubrel => "PUBREL",
                AckKind::Pubcomp => "PUBCOMP",
            },
            CPacket::Subscribe(_) => "SUBSCRIBE",
            CPacket::Unsubscribe(_) => "UNSUBSCRIBE",
            CPacket::Pingreq => "PINGREQ",
            CPacket::Disconnect(_) => "DISCONNECT",
        }
    }
    /// short human-readable rendering for traces
    pub fn brief(&self) -> String {
        match self {
            CPacket::Connect(c) => format!("CONNECT(cid={:?},props={})", trunc(&c.client_id), c.props.len()),
            CPacket::Auth(a) => format!("AUTH(reason={:#x})", a.reason),
            CPacket::Publish(p) => format!(
                "PUBLISH(q{} id={:?} dup={} ret={} topic={:?} len={})",
                p.qos,
                p.id,
                p.dup as u8,
                p.retain as u8,
                trunc(&p.topic),
                p.payload.len()
            ),
            CPacket::Ack(a) => format!("{}(id={} reason={:#x})", self.type_name(), a.id, a.reason),
            CPacket::Subscribe(s) => format!(
                "SUBSCRIBE(id={} subid={:?} filters={:?})",
                s.id,
                find(&s.props, 11),
                s.filters.iter().map(|f| trunc(&f.filter)).collect::<Vec<_>>()
            ),
            CPacket::Unsubscribe(s) => format!(
                "UNSUBSCRIBE(id={} filters={:?})",
                s.id,
                s.filters.iter().map(|f| trunc(f)).collect::<Vec<_>>()
            ),
            CPacket::Pingreq => "PINGREQ".to_string(),
            CPacket::Disconnect(d) => format!("DISCONNECT(reason={:#x})", d.reason),
        }
    }
}

pub fn trunc(s: &str) -> String {
    if s.len() <= 24 {
        s.to_string()
    } else {
        let mut end = 20;
        while !s.is_char_boundary(end) {
            end -= 1;
        }
        format!("{}..[{}]", &s[..end], s.len())
    }
}

pub const DISCONNECT_REASONS_ALL: &[u8] = &[
    0x00, 0x04, 0x80, 0x81, 0x82, 0x83, 0x87, 0x89, 0x8b, 0x8d, 0x8e, 0x8f, 0x90, 0x93, 0x94, 0x95,
    0x96, 0x97, 0x98, 0x99, 0x9a, 0x9b, 0x9c, 0x9d, 0x9e, 0x9f, 0xa0, 0xa1, 0xa2,
];
/// reason codes a server may send in DISCONNECT (0x04 is client-only)
pub const DISCONNECT_REASONS_SERVER: &[u8] = &[
    0x00, 0x80, 0x81, 0x82, 0x83, 0x87, 0x89, 0x8b, 0x8d, 0x8e, 0x8f, 0x90, 0x93, 0x94, 0x95, 0x96,
    0x97, 0x98, 0x99, 0x9a, 0x9b, 0x9c, 0x9d, 0x9e, 0x9f, 0xa0, 0xa1, 0xa2,
];
pub const CONNACK_REASONS: &[u8] = &[
    0x00, 0x80, 0x81, 0x82, 0x83, 0x84, 0x85, 0x86, 0x87, 0x88, 0x89, 0x8a, 0x8c, 0x90, 0x95, 0x97,
    0x99, 0x9a, 0x9b, 0x9c, 0x9d, 0x9f,
];
pub const SUBACK_REASONS: &[u8] =
    &[0x00, 0x01, 0x02, 0x80, 0x83, 0x87, 0x8f, 0x91, 0x97, 0x9e, 0xa1, 0xa2];
pub const UNSUBACK_REASONS: &[u8] = &[0x00, 0x11, 0x80, 0x83, 0x87, 0x8f, 0x91];
pub const AUTH_REASONS_SERVER: &[u8] = &[0x00, 0x18];

/// Splits the first whole packet off `b`. Ok(None) = incomplete.
pub fn frame(b: &[u8]) -> Result<Option<usize>, DecodeError> {
    if b.len() < 2 {
        return Ok(None);
    }
    match get_varint(&b[1..]) {
        Ok((v, n)) => {
            let total = 1 + n + v as usize;
            if b.len() >= total {
                Ok(Some(total))
            } else {
                Ok(None)
            }
        }
        Err(true) => Ok(None),
        Err(false) => err("malformed remaining length"),
    }
}

/// Splits a byte stream into whole packets; returns the packets and the number of
/// trailing bytes that do not (yet) form a whole packet.
pub fn split_stream(mut b: &[u8]) -> Result<(Vec<&[u8]>, usize), DecodeError> {
    let mut out = Vec::new();
    loop {
        match frame(b)? {
            Some(n) => {
                out.push(&b[..n]);
                b = &b[n..];
            }
            None => return Ok((out, b.len())),
        }
    }
}

/// Strictly decodes exactly one client -> server packet occupying all of `b`.
pub fn decode_client_packet(b: &[u8]) -> Result<CPacket, DecodeError> {
    if b.len() < 2 {
        return err("packet shorter than 2 bytes");
    }
    let hdr = b[0];
    let (rem, n) = match get_varint(&b[1..]) {
        Ok(x) => x,
        Err(_) => return err("malformed remaining length"),
    };
    let body = &b[1 + n..];
    if body.len() != rem as usize {
        return err(format!(
            "remaining length {rem} but {} bytes follow the fixed header",
            body.len()
        ));
    }
    let mut rd = Rd::new(body);
    let ty = hdr >> 4;
    let flags = hdr & 0x0f;
    let pkt = match ty {
        1 => {
            if flags != 0 {
                return err("CONNECT: reserved header flags not zero");
            }
            let name = rd.string("protocol name")?;
            if name != "MQTT" {
                return err(format!("CONNECT: protocol name {name:?}"));
            }
            let ver = rd.u8("protocol version")?;
            if ver != 5 {
                return err(format!("CONNECT: protocol version {ver}"));
            }
            let cf = rd.u8("connect flags")?;
            if cf & 1 != 0 {
                return err("CONNECT: reserved connect flag set");
            }
            let clean_start = cf & 2 != 0;
            let will_flag = cf & 4 != 0;
            let will_qos = (cf >> 3) & 3;
            let will_retain = cf & 0x20 != 0;
            let has_pw = cf & 0x40 != 0;
            let has_user = cf & 0x80 != 0;
            if will_qos == 3 {
                return err("CONNECT: will QoS 3");
            }
            if !will_flag && (will_qos != 0 || will_retain) {
                return err(format!(
                    "CONNECT: will flag 0 but will QoS {will_qos} / will retain {will_retain}"
                ));
            }
            let keep_alive = rd.u16("keep alive")?;
            let props = decode_props(&mut rd, IN_CONNECT, "CONNECT")?;
            if find(&props, 22).is_some() && find(&props, 21).is_none() {
                return err("CONNECT: authentication data without authentication method");
            }
            let client_id = rd.string("client identifier")?;
            let will = if will_flag {
                let wprops = decode_props(&mut rd, IN_WILL, "CONNECT will")?;
                let topic = rd.string("will topic")?;
                let payload = rd.bin("will payload")?;
                Some(Will { qos: will_qos, retain: will_retain, props: wprops, topic, payload })
            } else {
                None
            };
            let username = if has_user { Some(rd.string("user name")?) } else { None };
            let password = if has_pw { Some(rd.bin("password")?) } else { None };
            CPacket::Connect(Connect { clean_start, keep_alive, props, client_id, will, username, password })
        }
        3 => {
            let dup = flags & 8 != 0;
            let qos = (flags >> 1) & 3;
            let retain = flags & 1 != 0;
            if qos == 3 {
                return err("PUBLISH: QoS 3");
            }
            if qos == 0 && dup {
                return err("PUBLISH: DUP set with QoS 0");
            }
            let topic = rd.string("topic name")?;
            if topic.contains('#') || topic.contains('+') {
                return err("PUBLISH: wildcard in topic name");
            }
            let id = if qos > 0 {
                let id = rd.u16("packet identifier")?;
                if id == 0 {
                    return err("PUBLISH: packet identifier 0");
                }
                Some(id)
            } else {
                None
            };
            let props = decode_props(&mut rd, IN_PUBLISH, "PUBLISH")?;
            if find(&props, 11).is_some() {
                return err("PUBLISH: subscription identifier sent by a client");
            }
            if topic.is_empty() && find(&props, 35).is_none() {
                return err("PUBLISH: empty topic name without topic alias");
            }
            let payload = rd.bytes(rd.left(), "payload")?.to_vec();
            CPacket::Publish(Publish { dup, qos, retain, topic, id, props, payload })
        }
        4 | 5 | 6 | 7 => {
            let kind = match ty {
                4 => AckKind::Puback,
                5 => AckKind::Pubrec,
                6 => AckKind::Pubrel,
                _ => AckKind::Pubcomp,
            };
            if hdr != kind.header() {
                return err(format!("{kind:?}: fixed header {hdr:#x}"));
            }
            let id = rd.u16("packet identifier")?;
            if id == 0 {
                return err(format!("{kind:?}: packet identifier 0"));
            }
            let mut reason = 0;
            let mut props = Vec::new();
            if rem >= 3 {
                reason = rd.u8("reason code")?;
                if !kind.legal_reasons().contains(&reason) {
                    return err(format!("{kind:?}: illegal reason code {reason:#x}"));
                }
            }
            if rem >= 4 {
                props = decode_props(&mut rd, IN_ACK, "ack")?;
            }
            CPacket::Ack(Ack { kind, id, reason, props, remaining_len: rem })
        }
        8 => {
            if flags != 2 {
                return err("SUBSCRIBE: header flags must be 0010");
            }
            let id = rd.u16("packet identifier")?;
            if id == 0 {
                return err("SUBSCRIBE: packet identifier 0");
            }
            let props = decode_props(&mut rd, IN_SUBSCRIBE, "SUBSCRIBE")?;
            if props.iter().filter(|p| p.id == 11).count() > 1 {
                return err("SUBSCRIBE: more than one subscription identifier");
            }
            let mut filters = Vec::new();
            while rd.left() > 0 {
                let filter = rd.string("topic filter")?;
                if filter.is_empty() {
                    return err("SUBSCRIBE: empty topic filter");
                }
                let o = rd.u8("subscription options")?;
                if o & 0xc0 != 0 {
                    return err(format!("SUBSCRIBE: reserved option bits set ({o:#04x})"));
                }
                let max_qos = o & 3;
                if max_qos == 3 {
                    return err("SUBSCRIBE: maximum QoS 3");
                }
                let rh = (o >> 4) & 3;
                if rh == 3 {
                    return err("SUBSCRIBE: retain handling 3");
                }
                filters.push(SubFilter {
                    filter,
                    max_qos,
                    no_local: o & 4 != 0,
                    retain_as_published: o & 8 != 0,
                    retain_handling: rh,
                });
            }
            if filters.is_empty() {
                return err("SUBSCRIBE: no topic filter");
            }
            CPacket::Subscribe(Subscribe { id, props, filters })
        }
        10 => {
            if flags != 2 {
                return err("UNSUBSCRIBE: header flags must be 0010");
            }
            let id = rd.u16("packet identifier")?;
            if id == 0 {
                return err("UNSUBSCRIBE: packet identifier 0");
            }
            let props = decode_props(&mut rd, IN_UNSUBSCRIBE, "UNSUBSCRIBE")?;
            let mut filters = Vec::new();
            while rd.left() > 0 {
                let f = rd.string("topic filter")?;
                if f.is_empty() {
                    return err("UNSUBSCRIBE: empty topic filter");
                }
                filters.push(f);
            }
            if filters.is_empty() {
                return err("UNSUBSCRIBE: no topic filter");
            }
            CPacket::Unsubscribe(Unsubscribe { id, props, filters })
        }
        12 => {
            if flags != 0 || rem != 0 {
                return err("PINGREQ: must be c0 00");
            }
            CPacket::Pingreq
        }
        14 => {
            if flags != 0 {
                return err("DISCONNECT: reserved header flags not zero");
            }
            let mut reason = 0;
            let mut props = Vec::new();
            if rem >= 1 {
                reason = rd.u8("reason code")?;
                if !DISCONNECT_REASONS_ALL.contains(&reason) {
                    return err(format!("DISCONNECT: illegal reason code {reason:#x}"));
                }
            }
            if rem >= 2 {
                props = decode_props(&mut rd, IN_DISCONNECT, "DISCONNECT")?;
            }
            CPacket::Disconnect(DisconnectC { reason, props, remaining_len: rem })
        }
        15 => {
            if flags != 0 {
                return err("AUTH: reserved header flags not zero");
            }
            let mut reason = 0;
            let mut props = Vec::new();
            if rem >= 1 {
                reason = rd.u8("reason code")?;
                if ![0x00, 0x18, 0x19].contains(&reason) {
                    return err(format!("AUTH: illegal reason code {reason:#x}"));
                }
                props = decode_props(&mut rd, IN_AUTH, "AUTH")?;
                if find(&props, 21).is_none() {
                    return err("AUTH: authentication method missing");
                }
            }
            CPacket::Auth(AuthC { reason, props, remaining_len: rem })
        }
        _ => return err(format!("packet type {ty} is not sent by clients")),
    };
    if rd.left() != 0 {
        return err(format!(
            "{}: {} trailing bytes inside the remaining length",
            pkt.type_name(),
            rd.left()
        ));
    }
    Ok(pkt)
}

// ------------------------------------------------- server -> client packets

#[derive(Debug, Clone, PartialEq, Eq)]
pub enum AckForm {
    /// remaining length 2: reason 0, no properties
    Short2,
    /// remaining length 3: reason only
    Short3,
    /// reason + property length + properties
    Full,
}

#[derive(Debug, Clone, PartialEq, Eq)]
pub enum SPacket {
    Connack { session_present: bool, reason: u8, props: Vec<Prop> },
    /// `reason: None` = remaining length 0
    Auth { reason: Option<u8>, props: Vec<Prop> },
    Publish(Publish),
    Ack { kind: AckKind, id: u16, reason: u8, props: Vec<Prop>, form: AckForm },
    Suback { id: u16, props: Vec<Prop>, reasons: Vec<u8> },
    Unsuback { id: u16, props: Vec<Prop>, reasons: Vec<u8> },
    Pingresp,
    /// form: 0 = remaining length 0, 1 = reason only, 2 = full
    Disconnect { reason: u8, props: Vec<Prop>, form: u8 },
}

impl SPacket {
    pub fn type_name(&self) -> &'static str {
        match self {
            SPacket::Connack { .. } => "CONNACK",
            SPacket::Auth { .. } => "AUTH",
            SPacket::Publish(_) => "PUBLISH",
            SPacket::Ack { kind, .. } => match kind {
                AckKind::Puback => "PUBACK",
                AckKind::Pubrec => "PUBREC",
                AckKind::Pubrel => "PUBREL",
                AckKind::Pubcomp => "PUBCOMP",
            },
            SPacket::Suback { .. } => "SUBACK",
            SPacket::Unsuback { .. } => "UNSUBACK",
            SPacket::Pingresp => "PINGRESP",
            SPacket::Disconnect { .. } => "DISCONNECT",
        }
    }

    pub fn brief(&self) -> String {
        match self {
            SPacket::Connack { reason, props, session_present } => {
                format!("CONNACK(sp={} reason={:#x} props={})", *session_present as u8, reason, props.len())
            }
            SPacket::Auth { reason, props } => format!("AUTH(reason={:?} props={})", reason, props.len()),
            SPacket::Publish(p) => format!(
                "PUBLISH(q{} id={:?} dup={} subids={:?} topic={:?} len={})",
                p.qos,
                p.id,
                p.dup as u8,
                p.props.iter().filter(|x| x.id == 11).map(|x| match x.val {
                    PVal::Var(v) => v,
                    _ => 0,
                }).collect::<Vec<_>>(),
                trunc(&p.topic),
                p.payload.len()
            ),
            SPacket::Ack { id, reason, form, props, .. } => {
                format!("{}(id={} reason={:#x} form={:?} props={})", self.type_name(), id, reason, form, props.len())
            }
            SPacket::Suback { id, reasons, .. } => format!("SUBACK(id={} reasons={:x?})", id, reasons),
            SPacket::Unsuback { id, reasons, .. } => format!("UNSUBACK(id={} reasons={:x?})", id, reasons),
            SPacket::Pingresp => "PINGRESP".into(),
            SPacket::Disconnect { reason, form, props } => {
                format!("DISCONNECT(reason={:#x} form={} props={})", reason, form, props.len())
            }
        }
    }

    pub fn encode(&self) -> Vec<u8> {
        let mut body = Vec::new();
        let hdr: u8;
        match self {
            SPacket::Connack { session_present, reason, props } => {
                hdr = 0x20;
                body.push(*session_present as u8);
                body.push(*reason);
                body.extend(encode_props(props));
            }
            SPacket::Auth { reason, props } => {
                hdr = 0xf0;
                if let Some(r) = reason {
                    body.push(*r);
                    body.extend(encode_props(props));
                }
            }
            SPacket::Publish(p) => {
                hdr = 0x30 | ((p.dup as u8) << 3) | (p.qos << 1) | p.retain as u8;
                put_str(&mut body, &p.topic);
                if p.qos > 0 {
                    body.extend_from_slice(&p.id.expect("qos>0 needs id").to_be_bytes());
                }
                body.extend(encode_props(&p.props));
                body.extend_from_slice(&p.payload);
            }
            SPacket::Ack { kind, id, reason, props, form } => {
                hdr = kind.header();
                body.extend_from_slice(&id.to_be_bytes());
                match form {
                    AckForm::Short2 => {
                        assert!(*reason == 0 && props.is_empty());
                    }
                    AckForm::Short3 => {
                        assert!(props.is_empty());
                        body.push(*reason);
                    }
                    AckForm::Full => {
                        body.push(*reason);
                        body.extend(encode_props(props));
                    }
                }
            }
            SPacket::Suback { id, props, reasons } => {
                hdr = 0x90;
                body.extend_from_slice(&id.to_be_bytes());
                body.extend(encode_props(props));
                body.extend_from_slice(reasons);
            }
            SPacket::Unsuback { id, props, reasons } => {
                hdr = 0xb0;
                body.extend_from_slice(&id.to_be_bytes());
                body.extend(encode_props(props));
                body.extend_from_slice(reasons);
            }
            SPacket::Pingresp => {
                hdr = 0xd0;
            }
            SPacket::Disconnect { reason, props, form } => {
                hdr = 0xe0;
                match form {
                    0 => assert!(*reason == 0 && props.is_empty()),
                    1 => {
                        assert!(props.is_empty());
                        body.push(*reason)
                    }
                    _ => {
                        body.push(*reason);
                        body.extend(encode_props(props));
                    }
                }
            }
        }
        let mut out = vec![hdr];
        put_varint(&mut out, body.len() as u32);
        out.extend(body);
        out
    }
}

/// Encodes a client packet (used only by the codec's own round-trip self-test and by the
/// C04 mutation corpus, which also throws client-direction packets at the client).
pub fn encode_client_packet(p: &CPacket) -> Vec<u8> {
    let mut body = Vec::new();
    let hdr: u8;
    match p {
        CPacket::Connect(c) => {
            hdr = 0x10;
            put_str(&mut body, "MQTT");
            body.push(5);
            let mut f = 0u8;
            if c.clean_start {
                f |= 2;
            }
            if let Some(w) = &c.will {
                f |= 4 | (w.qos << 3) | ((w.retain as u8) << 5);
            }
            if c.password.is_some() {
                f |= 0x40;
            }
            if c.username.is_some() {
                f |= 0x80;
            }
            body.push(f);
            body.extend_from_slice(&c.keep_alive.to_be_bytes());
            body.extend(encode_props(&c.props));
            put_str(&mut body, &c.client_id);
            if let Some(w) = &c.will {
                body.extend(encode_props(&w.props));
                put_str(&mut body, &w.topic);
                put_bin(&mut body, &w.payload);
            }
            if let Some(u) = &c.username {
                put_str(&mut body, u);
            }
            if let Some(pw) = &c.password {
                put_bin(&mut body, pw);
            }
        }
        CPacket::Auth(a) => {
            hdr = 0xf0;
            if a.remaining_len != 0 {
                body.push(a.reason);
                body.extend(encode_props(&a.props));
            }
        }
        CPacket::Publish(pb) => return SPacket::Publish(pb.clone()).encode(),
        CPacket::Ack(a) => {
            let form = match a.remaining_len {
                2 => AckForm::Short2,
                3 => AckForm::Short3,
                _ => AckForm::Full,
            };
            return SPacket::Ack { kind: a.kind, id: a.id, reason: a.reason, props: a.props.clone(), form }
                .encode();
        }
        CPacket::Subscribe(s) => {
            hdr = 0x82;
            body.extend_from_slice(&s.id.to_be_bytes());
            body.extend(encode_props(&s.props));
            for f in &s.filters {
                put_str(&mut body, &f.filter);
                body.push(
                    f.max_qos
                        | ((f.no_local as u8) << 2)
                        | ((f.retain_as_published as u8) << 3)
                        | (f.retain_handling << 4),
                );
            }
        }
        CPacket::Unsubscribe(s) => {
            hdr = 0xa2;
            body.extend_from_slice(&s.id.to_be_bytes());
            body.extend(encode_props(&s.props));
            for f in &s.filters {
                put_str(&mut body, f);
            }
        }
        CPacket::Pingreq => {
            hdr = 0xc0;
        }
        CPacket::Disconnect(d) => {
            hdr = 0xe0;
            if d.remaining_len >= 1 {
                body.push(d.reason);
            }
            if d.remaining_len >= 2 {
                body.extend(encode_props(&d.props));
            }
        }
    }
    let mut out = vec![hdr];
    put_varint(&mut out, body.len() as u32);
    out.extend(body);
    out
}

/// Self-test: the only place where the two halves of the reference codec meet.
pub fn selftest() -> Result<usize, String> {
    let mut n = 0;
    let cases: Vec<CPacket> = vec![
        CPacket::Pingreq,
        CPacket::Connect(Connect {
            clean_start: true,
            keep_alive: 60,
            props: vec![Prop::u32(17, 100), Prop::u16(33, 10), Prop::pair("a", "b"), Prop::pair("a", "c")],
            client_id: "cid".into(),
            will: Some(Will {
                qos: 2,
                retain: true,
                props: vec![Prop::u32(24, 5), Prop::byte(1, 1)],
                topic: "w".into(),
                payload: vec![1, 2, 3],
            }),
            username: Some("u".into()),
            password: Some(vec![9]),
        }),
        CPacket::Publish(Publish {
            dup: false,
            qos: 1,
            retain: true,
            topic: "t".into(),
            id: Some(7),
            props: vec![Prop::u16(35, 3), Prop::str(3, "x")],
            payload: vec![0; 200],
        }),
        CPacket::Subscribe(Subscribe {
            id: 9,
            props: vec![Prop::var(11, 300)],
            filters: vec![SubFilter {
                filter: "a/#".into(),
                max_qos: 1,
                no_local: true,
                retain_as_published: true,
                retain_handling: 2,
            }],
        }),
        CPacket::Unsubscribe(Unsubscribe { id: 4, props: vec![], filters: vec!["x".into(), "y".into()] }),
        CPacket::Disconnect(DisconnectC { reason: 0x04, props: vec![Prop::u32(17, 0)], remaining_len: 7 }),
        CPacket::Auth(AuthC { reason: 0x18, props: vec![Prop::str(21, "m"), Prop::bin(22, b"d")], remaining_len: 10 }),
        CPacket::Ack(Ack { kind: AckKind::Pubrel, id: 3, reason: 0, props: vec![], remaining_len: 2 }),
        CPacket::Ack(Ack { kind: AckKind::Puback, id: 3, reason: 0x10, props: vec![], remaining_len: 3 }),
    ];
    for c in cases {
        let b = encode_client_packet(&c);
        let mut c2 = c.clone();
        // remaining_len fields are derived; normalise
        let rem = get_varint(&b[1..]).unwrap().0;
        match &mut c2 {
            CPacket::Disconnect(d) => d.remaining_len = rem,
            CPacket::Auth(a) => a.remaining_len = rem,
            CPacket::Ack(a) => a.remaining_len = rem,
            _ => {}
        }
        match decode_client_packet(&b) {
            Ok(d) if d == c2 => n += 1,
            Ok(d) => return Err(format!("round trip mismatch: {:?} vs {:?}", d, c2)),
            Err(e) => return Err(format!("round trip decode error {e} for {:?}", c2)),
        }
        // every strict prefix must be rejected
        for cut in 0..b.len() {
            if decode_client_packet(&b[..cut]).is_ok() {
                return Err(format!("prefix of length {cut} accepted for {:?}", c2));
            }
        }
    }
    // rejections the monitors depend on
    let bad: Vec<(&str, Vec<u8>)> = vec![
        ("connect rem short", vec![0x10, 0x0e, 0, 4, b'M', b'Q', b'T', b'T', 5, 0, 0, 0, 0, 0x21, 0, 10, 0, 1, b'c']),
        ("sub opts reserved", vec![0x82, 0x07, 0, 1, 0, 0, 1, b'a', 0x59]),
        ("auth without proplen", vec![0xf0, 0x05, 0x18, 0x15, 0, 1, b'm']),
        ("publish id 0", vec![0x32, 0x06, 0, 1, b't', 0, 0, 0]),
        ("pingreq len", vec![0xc0, 0x01, 0]),
    ];
    for (name, b) in bad {
        if decode_client_packet(&b).is_ok() {
            return Err(format!("strict decoder accepted malformed packet: {name}"));
        }
        n += 1;
    }
    for v in [0u32, 1, 127, 128, 16383, 16384, 2097151, 2097152, 268435455] {
        let mut o = Vec::new();
        put_varint(&mut o, v);
        if o.len() != varint_len(v) || get_varint(&o) != Ok((v, o.len())) {
            return Err(format!("varint {v}"));
        }
        n += 1;
    }
    Ok(n)
}
