//! Owned request specifications (what the harness asks the client to do) and
//! summaries of everything the client's public API lets a caller observe.

use poster::error::MqttError;
use poster::reason::*;
use poster::{
    AuthOpts, AuthRsp, ConnectOpts, ConnectRsp, DisconnectOpts, PublishData, PublishOpts, QoS,
    RetainHandling, SubscribeOpts, SubscribeRsp, SubscriptionOpts, UnsubscribeOpts, UnsubscribeRsp,
    UserProperties,
};
use std::time::Duration;

pub type UP = Vec<(String, String)>;

pub fn qos_of(v: u8) -> QoS {
    match v {
        0 => QoS::AtMostOnce,
        1 => QoS::AtLeastOnce,
        2 => QoS::ExactlyOnce,
        _ => panic!("harness: bad qos"),
    }
}

pub fn rh_of(v: u8) -> RetainHandling {
    match v {
        0 => RetainHandling::SendOnSubscribe,
        1 => RetainHandling::SendIfNoSubscription,
        2 => RetainHandling::NoSendOnSubscribe,
        _ => panic!("harness: bad retain handling"),
    }
}

pub fn disconnect_reason_of(v: u8) -> DisconnectReason {
    use DisconnectReason::*;
    match v {
        0x00 => Success,
        0x04 => DisconnectWithWillMessage,
        0x80 => UnspecifiedError,
        0x81 => MalformedPacket,
        0x82 => ProtocolError,
        0x83 => ImplementationSpecificError,
        0x87 => NotAuthorized,
        0x89 => ServerBusy,
        0x8b => ServerShuttingDown,
        0x8d => KeepAliveTimeout,
        0x8e => SessionTakenOver,
        0x8f => TopicFilterInvalid,
        0x90 => TopicNameInvalid,
        0x93 => ReceiveMaximumExcceeded,
        0x94 => TopicAliasInvalid,
        0x95 => PacketTooLarge,
        0x96 => MessageRateTooHigh,
        0x97 => QuotaExceeded,
        0x98 => AdministrativeAction,
        0x99 => PayloadFormatInvalid,
        0x9a => RetainNotSupported,
        0x9b => QoSNotSupported,
        0x9c => UseAnotherServer,
        0x9d => ServerMoved,
        0x9e => SharedSubscriptionsNotSupported,
        0x9f => ConnectionRateExceeded,
        0xa0 => MaximumConnectTime,
        0xa1 => SubscriptionIdentifiersNotSupported,
        0xa2 => WildcardSubscriptionsNotSupported,
        _ => panic!("harness: bad disconnect reason"),
    }
}

pub fn auth_reason_of(v: u8) -> AuthReason {
    match v {
        0x00 => AuthReason::Success,
        0x18 => AuthReason::ContinueAuthentication,
        0x19 => AuthReason::ReAuthenticate,
        _ => panic!("harness: bad auth reason"),
    }
}

// ------------------------------------------------------------------ requests

#[derive(Debug, Clone, Default, PartialEq)]
pub struct WillSpec {
    pub topic: String,
    pub payload: Vec<u8>,
    pub qos: Option<u8>,
    pub retain: Option<bool>,
    pub delay: Option<u32>,
    pub pfi: Option<bool>,
    pub mei: Option<u32>,
    pub content_type: Option<String>,
    pub response_topic: Option<String>,
    pub correlation: Option<Vec<u8>>,
    pub user_props: UP,
}

#[derive(Debug, Clone, Default, PartialEq)]
pub struct ConnSpec {
    pub client_id: Option<String>,
    pub keep_alive: Option<u16>,
    pub sei: Option<u32>,
    pub receive_maximum: Option<u16>,
    pub max_packet_size: Option<u32>,
    pub topic_alias_maximum: Option<u16>,
    pub req_resp_info: Option<bool>,
    pub req_prob_info: Option<bool>,
    pub auth_method: Option<String>,
    pub auth_data: Option<Vec<u8>>,
    pub user_props: UP,
    pub clean_start: Option<bool>,
    pub will: Option<WillSpec>,
    pub username: Option<String>,
    pub password: Option<Vec<u8>>,
}

impl ConnSpec {
    pub fn opts(&self) -> ConnectOpts<'_> {
        let mut o = ConnectOpts::new();
        if let Some(v) = &self.client_id {
            o = o.client_identifier(v);
        }
        if let Some(v) = self.keep_alive {
            o = o.keep_alive(Duration::from_secs(v as u64));
        }
        if let Some(v) = self.sei {
            o = o.session_expiry_interval(Duration::from_secs(v as u64));
        }
        if let Some(v) = self.receive_maximum {
            o = o.receive_maximum(v);
        }
        if let Some(v) = self.max_packet_size {
            o = o.maximum_packet_size(v);
        }
        if let Some(v) = self.topic_alias_maximum {
            o = o.topic_alias_maximum(v);
        }
        if let Some(v) = self.req_resp_info {
            o = o.request_response_information(v);
        }
        if let Some(v) = self.req_prob_info {
            o = o.request_problem_information(v);
        }
        if let Some(v) = &self.auth_method {
            o = o.authentication_method(v);
        }
        if let Some(v) = &self.auth_data {
            o = o.authentication_data(v);
        }
        for (k, v) in &self.user_props {
            o = o.user_property((k, v));
        }
        if let Some(v) = self.clean_start {
            o = o.clean_start(v);
        }
        if let Some(w) = &self.will {
            o = o.will_topic(&w.topic).will_payload(&w.payload);
            if let Some(v) = w.qos {
                o = o.will_qos(qos_of(v));
            }
            if let Some(v) = w.retain {
                o = o.will_retain(v);
            }
            if let Some(v) = w.delay {
                o = o.will_delay_interval(Duration::from_secs(v as u64));
            }
            if let Some(v) = w.pfi {
                o = o.will_payload_format_indicator(v);
            }
            if let Some(v) = w.mei {
                o = o.will_message_expiry_interval(Duration::from_secs(v as u64));
            }
            if let Some(v) = &w.content_type {
                o = o.will_content_type(v);
            }
            if let Some(v) = &w.response_topic {
                o = o.will_response_topic(v);
            }
            if let Some(v) = &w.correlation {
                o = o.will_correlation_data(v);
            }
            for (k, v) in &w.user_props {
                o = o.will_user_property((k, v));
            }
        }
        if let Some(v) = &self.username {
            o = o.username(v);
        }
        if let Some(v) = &self.password {
            o = o.password(v);
        }
        o
    }
}

#[derive(Debug, Clone, Default, PartialEq)]
pub struct AuthSpec {
    pub reason: Option<u8>,
    pub method: Option<String>,
    pub data: Option<Vec<u8>>,
    pub user_props: UP,
}

impl AuthSpec {
    pub fn opts(&self) -> AuthOpts<'_> {
        let mut o = AuthOpts::new();
        if let Some(v) = self.reason {
            o = o.reason(auth_reason_of(v));
        }
        if let Some(v) = &self.method {
            o = o.authentication_method(v);
        }
        if let Some(v) = &self.data {
            o = o.authentication_data(v);
        }
        for (k, v) in &self.user_props {
            o = o.user_property((k, v));
        }
        o
    }
}

#[derive(Debug, Clone, Default, PartialEq)]
pub struct PubSpec {
    pub qos: Option<u8>,
    pub retain: Option<bool>,
    pub topic: Option<String>,
    pub pfi: Option<bool>,
    pub topic_alias: Option<u16>,
    pub mei: Option<u32>,
    pub correlation: Option<Vec<u8>>,
    pub response_topic: Option<String>,
    pub content_type: Option<String>,
    pub user_props: UP,
    pub payload: Option<Vec<u8>>,
}

impl PubSpec {
    pub fn simple(qos: u8, topic: &str, payload: &[u8]) -> PubSpec {
        PubSpec {
            qos: Some(qos),
            topic: Some(topic.to_string()),
            payload: Some(payload.to_vec()),
            ..Default::default()
        }
    }
    pub fn eff_qos(&self) -> u8 {
        self.qos.unwrap_or(0)
    }
    /// Whether `opts()` calls every single-valued setter twice, first with another value: the value set last is the
    /// one the caller asked for. Decided from the content so that about a third of all publishes are built this way.
    pub fn set_twice(&self) -> bool {
        let h = self.payload.as_ref().map_or(0, |p| p.len()) + self.topic.as_ref().map_or(0, |t| t.len()) + self.eff_qos() as usize;
        h % 3 == 1
    }
    pub fn opts(&self) -> PublishOpts<'_> {
        let mut o = PublishOpts::new();
        let twice = self.set_twice();
        if let Some(v) = self.qos {
            if twice {
                o = o.qos(qos_of((v + 1 + (self.topic.as_ref().map_or(0, |t| t.len()) % 2) as u8) % 3));
            }
            o = o.qos(qos_of(v));
        }
        if let Some(v) = self.retain {
            if twice {
                o = o.retain(!v);
            }
            o = o.retain(v);
        }
        if let Some(v) = &self.topic {
            if twice {
                o = o.topic_name("overwritten/topic");
            }
            o = o.topic_name(v);
        }
        if let Some(v) = self.pfi {
            if twice {
                o = o.payload_format_indicator(!v);
            }
            o = o.payload_format_indicator(v);
        }
        if let Some(v) = self.topic_alias {
            if twice {
                o = o.topic_alias(v ^ 0x0101);
            }
            o = o.topic_alias(v);
        }
        if let Some(v) = self.mei {
            if twice {
                o = o.message_expiry_interval(Duration::from_secs((v ^ 0x8001) as u64));
            }
            o = o.message_expiry_interval(Duration::from_secs(v as u64));
        }
        if let Some(v) = &self.correlation {
            if twice {
                o = o.correlation_data(b"overwritten correlation data");
            }
            o = o.correlation_data(v);
        }
        if let Some(v) = &self.response_topic {
            if twice {
                o = o.response_topic("overwritten/response");
            }
            o = o.response_topic(v);
        }
        if let Some(v) = &self.content_type {
            if twice {
                o = o.content_type("overwritten/type");
            }
            o = o.content_type(v);
        }
        for (k, v) in &self.user_props {
            o = o.user_property((k, v));
        }
        if let Some(v) = &self.payload {
            if twice {
                o = o.payload(b"overwritten payload");
            }
            o = o.payload(v);
        }
        o
    }
}

#[derive(Debug, Clone, Default, PartialEq)]
pub struct SubOptSpec {
    pub max_qos: Option<u8>,
    pub no_local: Option<bool>,
    pub rap: Option<bool>,
    pub rh: Option<u8>,
}

impl SubOptSpec {
    pub fn opts(&self) -> SubscriptionOpts {
        let mut o = SubscriptionOpts::new();
        if let Some(v) = self.max_qos {
            o = o.maximum_qos(qos_of(v));
        }
        if let Some(v) = self.no_local {
            o = o.no_local(v);
        }
        if let Some(v) = self.rap {
            o = o.retain_as_published(v);
        }
        if let Some(v) = self.rh {
            o = o.retain_handling(rh_of(v));
        }
        o
    }
}

#[derive(Debug, Clone, Default, PartialEq)]
pub struct SubSpec {
    pub filters: Vec<(String, SubOptSpec)>,
    pub user_props: UP,
}

impl SubSpec {
    pub fn simple(filter: &str) -> SubSpec {
        SubSpec { filters: vec![(filter.to_string(), SubOptSpec::default())], user_props: vec![] }
    }
    pub fn opts(&self) -> SubscribeOpts<'_> {
        let mut o = SubscribeOpts::new();
        for (f, so) in &self.filters {
            o = o.subscription(f, so.opts());
        }
        for (k, v) in &self.user_props {
            o = o.user_property((k, v));
        }
        o
    }
}

#[derive(Debug, Clone, Default, PartialEq)]
pub struct UnsubSpec {
    pub filters: Vec<String>,
    pub user_props: UP,
}

impl UnsubSpec {
    pub fn simple(filter: &str) -> UnsubSpec {
        UnsubSpec { filters: vec![filter.to_string()], user_props: vec![] }
    }
    pub fn opts(&self) -> UnsubscribeOpts<'_> {
        let mut o = UnsubscribeOpts::new();
        for f in &self.filters {
            o = o.topic_filter(f);
        }
        for (k, v) in &self.user_props {
            o = o.user_property((k, v));
        }
        o
    }
}

#[derive(Debug, Clone, Default, PartialEq)]
pub struct DiscSpec {
    pub reason: Option<u8>,
    pub sei: Option<u32>,
    pub reason_string: Option<String>,
    pub user_props: UP,
}

impl DiscSpec {
    pub fn opts(&self) -> DisconnectOpts<'_> {
        let mut o = DisconnectOpts::new();
        if let Some(v) = self.reason {
            o = o.reason(disconnect_reason_of(v));
        }
        if let Some(v) = self.sei {
            o = o.session_expiry_interval(Duration::from_secs(v as u64));
        }
        if let Some(v) = &self.reason_string {
            o = o.reason_string(v);
        }
        for (k, v) in &self.user_props {
            o = o.user_property((k, v));
        }
        o
    }
}

#[derive(Debug, Clone, PartialEq)]
pub enum OpSpec {
    Publish(PubSpec),
    Subscribe(SubSpec),
    Unsubscribe(UnsubSpec),
    Ping,
    Disconnect(DiscSpec),
}

impl OpSpec {
    pub fn kind(&self) -> &'static str {
        match self {
            OpSpec::Publish(p) => match p.eff_qos() {
                0 => "pub0",
                1 => "pub1",
                _ => "pub2",
            },
            OpSpec::Subscribe(_) => "sub",
            OpSpec::Unsubscribe(_) => "unsub",
            OpSpec::Ping => "ping",
            OpSpec::Disconnect(_) => "disc",
        }
    }
}

// ----------------------------------------------------------------- summaries

fn up(u: &UserProperties) -> UP {
    u.iter().map(|(k, v)| (k.to_string(), v.to_string())).collect()
}

fn os(s: Option<&str>) -> Option<String> {
    s.map(|x| x.to_string())
}

#[derive(Debug, Clone, PartialEq)]
pub struct ConnackSum {
    pub session_present: bool,
    pub reason: u8,
    pub wildcard: bool,
    pub subid_available: bool,
    pub shared: bool,
    pub max_qos: u8,
    pub retain_available: bool,
    pub server_keep_alive: Option<u64>,
    pub receive_maximum: u16,
    pub topic_alias_maximum: u16,
    pub sei: Option<u64>,
    pub max_packet_size: Option<u32>,
    pub assigned_client_id: Option<String>,
    pub reason_string: Option<String>,
    pub response_information: Option<String>,
    pub server_reference: Option<String>,
    pub auth_method: Option<String>,
    pub auth_data: Option<Vec<u8>>,
    pub user_props: UP,
}

pub fn sum_connack(r: &ConnectRsp) -> ConnackSum {
    ConnackSum {
        session_present: r.session_present(),
        reason: r.reason() as u8,
        wildcard: r.wildcard_subscription_available(),
        subid_available: r.subscription_identifier_available(),
        shared: r.shared_subscription_available(),
        max_qos: r.maximum_qos() as u8,
        retain_available: r.retain_available(),
        server_keep_alive: r.server_keep_alive().map(|d| d.as_secs()),
        receive_maximum: r.receive_maximum(),
        topic_alias_maximum: r.topic_alias_maximum(),
        sei: r.session_expiry_interval().map(|d| d.as_secs()),
        max_packet_size: r.maximum_packet_size(),
        assigned_client_id: os(r.assigned_client_identifier()),
        reason_string: os(r.reason_string()),
        response_information: os(r.response_information()),
        server_reference: os(r.server_reference()),
        auth_method: os(r.authentication_method()),
        auth_data: r.authentication_data().map(|d| d.to_vec()),
        user_props: up(r.user_properties()),
    }
}

#[derive(Debug, Clone, PartialEq)]
pub struct AuthSum {
    pub reason: u8,
    pub reason_string: Option<String>,
    pub method: Option<String>,
    pub data: Option<Vec<u8>>,
    pub user_props: UP,
}

pub fn sum_auth(r: &AuthRsp) -> AuthSum {
    AuthSum {
        reason: r.reason() as u8,
        reason_string: os(r.reason_string()),
        method: os(r.authentication_method()),
        data: r.authentication_data().map(|d| d.to_vec()),
        user_props: up(r.user_properties()),
    }
}

#[derive(Debug, Clone, PartialEq)]
pub struct SubackSum {
    pub reasons: Vec<u8>,
    pub reason_string: Option<String>,
    pub user_props: UP,
}

pub fn sum_suback(r: &SubscribeRsp) -> SubackSum {
    SubackSum {
        reasons: r.payload().iter().map(|x| *x as u8).collect(),
        reason_string: os(r.reason_string()),
        user_props: up(r.user_properties()),
    }
}

pub fn sum_unsuback(r: &UnsubscribeRsp) -> SubackSum {
    SubackSum {
        reasons: r.payload().iter().map(|x| *x as u8).collect(),
        reason_string: os(r.reason_string()),
        user_props: up(r.user_properties()),
    }
}

#[derive(Debug, Clone, PartialEq)]
pub struct MsgSum {
    pub dup: bool,
    pub retain: bool,
    pub qos: u8,
    pub topic: String,
    pub pfi: Option<bool>,
    pub topic_alias: Option<u16>,
    pub mei: Option<u64>,
    pub correlation: Option<Vec<u8>>,
    pub response_topic: Option<String>,
    pub content_type: Option<String>,
    pub payload: Vec<u8>,
    pub user_props: UP,
}

pub fn sum_msg(m: &PublishData) -> MsgSum {
    MsgSum {
        dup: m.dup(),
        retain: m.retain(),
        qos: m.qos() as u8,
        topic: m.topic_name().to_string(),
        pfi: m.payload_format_indicator(),
        topic_alias: m.topic_alias(),
        mei: m.message_expiry_interval().map(|d| d.as_secs()),
        correlation: m.correlation_data().map(|d| d.to_vec()),
        response_topic: os(m.response_topic()),
        content_type: os(m.content_type()),
        payload: m.payload().to_vec(),
        user_props: up(m.user_properties()),
    }
}

impl MsgSum {
    pub fn brief(&self) -> String {
        format!(
            "msg(q{} dup={} topic={:?} payload={:?})",
            self.qos,
            self.dup as u8,
            crate::refcodec::trunc(&self.topic),
            crate::refcodec::trunc(&String::from_utf8_lossy(&self.payload))
        )
    }
}

#[derive(Debug, Clone, PartialEq)]
pub struct AckErrSum {
    pub reason: u8,
    pub reason_string: Option<String>,
    pub user_props: UP,
}

#[derive(Debug, Clone, PartialEq)]
pub enum ErrSum {
    Internal(String),
    ConnectError { reason: u8, reason_string: Option<String>, server_reference: Option<String>, user_props: UP },
    AuthError { reason: u8, reason_string: Option<String>, user_props: UP },
    PubackError(AckErrSum),
    PubrecError(AckErrSum),
    PubcompError(AckErrSum),
    SocketClosed,
    HandleClosed,
    ContextExited,
    Disconnected {
        reason: u8,
        sei: u64,
        reason_string: Option<String>,
        server_reference: Option<String>,
        user_props: UP,
    },
    Codec(String),
    QuotaExceeded,
    MaximumPacketSizeExceeded,
}

impl ErrSum {
    pub fn kind(&self) -> &'static str {
        match self {
            ErrSum::Internal(_) => "InternalError",
            ErrSum::ConnectError { .. } => "ConnectError",
            ErrSum::AuthError { .. } => "AuthError",
            ErrSum::PubackError(_) => "PubackError",
            ErrSum::PubrecError(_) => "PubrecError",
            ErrSum::PubcompError(_) => "PubcompError",
            ErrSum::SocketClosed => "SocketClosed",
            ErrSum::HandleClosed => "HandleClosed",
            ErrSum::ContextExited => "ContextExited",
            ErrSum::Disconnected { .. } => "Disconnected",
            ErrSum::Codec(_) => "CodecError",
            ErrSum::QuotaExceeded => "QuotaExceeded",
            ErrSum::MaximumPacketSizeExceeded => "MaximumPacketSizeExceeded",
        }
    }
}

pub fn sum_err(e: &MqttError) -> ErrSum {
    match e {
        MqttError::InternalError(x) => ErrSum::Internal(x.to_string()),
        MqttError::ConnectError(x) => ErrSum::ConnectError {
            reason: x.reason() as u8,
            reason_string: os(x.reason_string()),
            server_reference: os(x.server_reference()),
            user_props: up(x.user_properties()),
        },
        MqttError::AuthError(x) => ErrSum::AuthError {
            reason: x.reason() as u8,
            reason_string: os(x.reason_string()),
            user_props: up(x.user_properties()),
        },
        MqttError::PubackError(x) => ErrSum::PubackError(AckErrSum {
            reason: x.reason() as u8,
            reason_string: os(x.reason_string()),
            user_props: up(x.user_properties()),
        }),
        MqttError::PubrecError(x) => ErrSum::PubrecError(AckErrSum {
            reason: x.reason() as u8,
            reason_string: os(x.reason_string()),
            user_props: up(x.user_properties()),
        }),
        MqttError::PubcompError(x) => ErrSum::PubcompError(AckErrSum {
            reason: x.reason() as u8,
            reason_string: os(x.reason_string()),
            user_props: up(x.user_properties()),
        }),
        MqttError::SocketClosed(_) => ErrSum::SocketClosed,
        MqttError::HandleClosed(_) => ErrSum::HandleClosed,
        MqttError::ContextExited(_) => ErrSum::ContextExited,
        MqttError::Disconnected(x) => ErrSum::Disconnected {
            reason: x.reason() as u8,
            sei: x.session_expiry_interval().as_secs(),
            reason_string: os(x.reason_string()),
            server_reference: os(x.server_reference()),
            user_props: up(x.user_properties()),
        },
        MqttError::CodecError(x) => ErrSum::Codec(x.to_string()),
        MqttError::QuotaExceeded(_) => ErrSum::QuotaExceeded,
        MqttError::MaximumPacketSizeExceeded(_) => ErrSum::MaximumPacketSizeExceeded,
    }
}

/// Result of connect()/authorize()
#[derive(Debug, Clone, PartialEq)]
pub enum ConnOut {
    Connack(ConnackSum),
    Auth(AuthSum),
    Err(ErrSum),
}

/// Everything a context call can report.
#[derive(Debug, Clone, PartialEq)]
pub enum CtxOut {
    Conn(ConnOut),
    Run(Result<(), ErrSum>),
}

/// Observable result of a handle operation.
#[derive(Debug, Clone, PartialEq)]
pub enum OpOut {
    Unit(Result<(), ErrSum>),
    Suback(Result<SubackSum, ErrSum>),
    Unsuback(Result<SubackSum, ErrSum>),
}

impl OpOut {
    pub fn brief(&self) -> String {
        match self {
            OpOut::Unit(Ok(())) => "Ok".into(),
            OpOut::Unit(Err(e)) => format!("Err({e:?})"),
            OpOut::Suback(Ok(s)) | OpOut::Unsuback(Ok(s)) => format!("Ok(reasons={:x?})", s.reasons),
            OpOut::Suback(Err(e)) | OpOut::Unsuback(Err(e)) => format!("Err({e:?})"),
        }
    }
    pub fn err(&self) -> Option<&ErrSum> {
        match self {
            OpOut::Unit(Err(e)) | OpOut::Suback(Err(e)) | OpOut::Unsuback(Err(e)) => Some(e),
            _ => None,
        }
    }
    pub fn is_ok(&self) -> bool {
        self.err().is_none()
    }
}
