#![allow(dead_code, unused_imports, clippy::all)]
mod checks;
mod enumerate;
mod refcodec;
mod report;
mod sim;
mod spec;
mod world;

use report::{Rep, Tier};

fn main() {
    let args: Vec<String> = std::env::args().collect();
    if args.len() < 2 {
        eprintln!("usage: pvh <check> [--tier quick|thorough] [--seed N] [--shard I] [--nshards N] [--out FILE] [--only CASE] [--verbose]");
        std::process::exit(2);
    }
    let check = args[1].clone();
    let mut tier = Tier::Quick;
    let mut seed = 1u64;
    let mut shard = 0u64;
    let mut nshards = 1u64;
    let mut out: Option<String> = None;
    let mut only: Option<String> = None;
    let mut verbose = false;
    let mut profile = String::from("unknown");
    let mut i = 2;
    while i < args.len() {
        match args[i].as_str() {
            "--tier" => {
                tier = if args[i + 1] == "thorough" { Tier::Thorough } else { Tier::Quick };
                i += 1;
            }
            "--seed" => {
                seed = args[i + 1].parse().expect("seed");
                i += 1;
            }
            "--shard" => {
                shard = args[i + 1].parse().expect("shard");
                i += 1;
            }
            "--nshards" => {
                nshards = args[i + 1].parse().expect("nshards");
                i += 1;
            }
            "--out" => {
                out = Some(args[i + 1].clone());
                i += 1;
            }
            "--only" => {
                only = Some(args[i + 1].clone());
                i += 1;
            }
            "--profile" => {
                profile = args[i + 1].clone();
                i += 1;
            }
            "--verbose" => verbose = true,
            x => {
                eprintln!("unknown argument {x}");
                std::process::exit(2);
            }
        }
        i += 1;
    }
    sim::install_panic_hook();
    if profile != "miri" {
        let limit = std::env::var("PVH_HANG_CPU_S").ok().and_then(|v| v.parse::<u64>().ok()).unwrap_or(100);
        sim::start_cpu_watchdog(limit);
    }
    if check == "selftest" {
        match refcodec::selftest() {
            Ok(n) => {
                println!("refcodec selftest ok ({n} cases)");
                return;
            }
            Err(e) => {
                println!("refcodec selftest FAILED: {e}");
                std::process::exit(3);
            }
        }
    }
    let mut rep = Rep::new(&check.to_uppercase(), tier, seed, shard, nshards);
    rep.only = only;
    rep.verbose = verbose;
    rep.profile = profile;
    if let Err(e) = refcodec::selftest() {
        eprintln!("refcodec selftest FAILED: {e}");
        std::process::exit(3);
    }
    if !checks::dispatch(&check, &mut rep) {
        eprintln!("unknown check {check}");
        std::process::exit(2);
    }
    rep.write_out(out.as_deref());
}
