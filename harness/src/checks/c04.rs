//! C04 — no inbound bytes, packet order or transport fault can panic or wedge the client.

use crate::refcodec::{self as rc, AckForm, AckKind, CPacket, Prop, SPacket};
use crate::report::Rep;
use crate::sim::*;
use crate::spec::*;

#[derive(Clone, Copy, Debug, PartialEq, Eq, Hash)]
pub enum Phase {
    Connecting,
    Authorizing,
    Running,
}

pub const PHASES: [Phase; 3] = [Phase::Connecting, Phase::Authorizing, Phase::Running];

pub struct Setup {
    pub sim: Sim,
    pub call: &'static str,
    pub stream: Option<usize>,
}

/// Brings a client into `phase`, with operations outstanding in the running phase so that
/// acknowledgements for known and unknown identifiers both occur.
pub fn setup(seed: u64, phase: Phase) -> Setup {
    let mut sim = Sim::new(seed);
    match phase {
        Phase::Connecting => {
            sim.cmd(Cmd::Connect(ConnSpec::default()));
            sim.settle();
            Setup { sim, call: "connect", stream: None }
        }
        Phase::Authorizing => {
            sim.cmd(Cmd::Connect(ConnSpec { auth_method: Some("m".into()), auth_data: Some(vec![1]), ..Default::default() }));
            sim.settle();
            sim.feed_packet(&SPacket::Auth { reason: Some(0x18), props: vec![Prop::str(21, "m"), Prop::bin(22, b"c")] });
            sim.settle();
            sim.cmd(Cmd::Authorize(AuthSpec { reason: Some(0x18), method: Some("m".into()), data: Some(vec![2]), user_props: vec![] }));
            sim.settle();
            Setup { sim, call: "authorize", stream: None }
        }
        Phase::Running => {
            sim.cmd(Cmd::Connect(ConnSpec::default()));
            sim.settle();
            sim.feed_packet(&SPacket::Connack { session_present: false, reason: 0, props: vec![] });
            sim.settle();
            sim.cmd(Cmd::Run);
            sim.settle();
            // packet identifiers 1.. in order: sub A=1 (subscription id 1, live stream), pub1=2, pub2=3, sub(outstanding)=4
            // (subscription id 2), unsub=5, sub D=6 (subscription id 3, acknowledged, stream dropped)
            let s = sim.start_op(0, OpSpec::Subscribe(SubSpec::simple("a/#")));
            sim.settle();
            sim.feed_packet(&SPacket::Suback { id: 1, props: vec![], reasons: vec![0] });
            sim.settle();
            let stream = sim.take_stream(s);
            sim.handles[0].as_ref().unwrap().verif_seed_ids(6, 3);
            let d = sim.start_op(0, OpSpec::Subscribe(SubSpec::simple("d/#")));
            sim.settle();
            sim.feed_packet(&SPacket::Suback { id: 6, props: vec![], reasons: vec![0] });
            sim.settle();
            sim.ops[d].rsp = None; // response and with it the stream receiver dropped
            sim.handles[0].as_ref().unwrap().verif_seed_ids(2, 2);
            sim.start_op(0, OpSpec::Publish(PubSpec::simple(1, "t", b"1")));
            sim.start_op(0, OpSpec::Publish(PubSpec::simple(2, "t", b"2")));
            sim.start_op(0, OpSpec::Subscribe(SubSpec::simple("b/#")));
            sim.start_op(0, OpSpec::Unsubscribe(UnsubSpec::simple("c")));
            sim.start_op(0, OpSpec::Ping);
            sim.settle();
            Setup { sim, call: "run", stream }
        }
    }
}

pub const HISTORIES: usize = 5;

/// Running states that only a connection history reaches (the same Context connected twice).
pub fn setup_history(seed: u64, h: usize) -> Setup {
    let mut sim = Sim::new(seed);
    let (sei, r1): (Option<u32>, Option<u16>) = match h {
        0 | 1 => (Some(3600), None),
        2 => (Some(3600), Some(3)),
        3 => (None, None),
        _ => (Some(0), None),
    };
    sim.cmd(Cmd::Connect(ConnSpec { sei, ..Default::default() }));
    sim.settle();
    sim.feed_packet(&SPacket::Connack { session_present: false, reason: 0, props: r1.map(|r| vec![Prop::u16(33, r)]).unwrap_or_default() });
    sim.settle();
    sim.cmd(Cmd::Run);
    sim.settle();
    let s = sim.start_op(0, OpSpec::Subscribe(SubSpec::simple("a/#")));
    sim.settle();
    sim.feed_packet(&SPacket::Suback { id: 1, props: vec![], reasons: vec![0] });
    sim.settle();
    let stream = sim.take_stream(s);
    if h == 1 || h == 2 || h == 4 {
        // identifiers 2, 3, 4: QoS 1 unacknowledged, QoS 2 before PUBREC, QoS 2 before PUBCOMP
        sim.start_op(0, OpSpec::Publish(PubSpec::simple(1, "t", b"1")));
        sim.start_op(0, OpSpec::Publish(PubSpec::simple(2, "t", b"2")));
        sim.start_op(0, OpSpec::Publish(PubSpec::simple(2, "t", b"3")));
        sim.settle();
        sim.feed_packet(&SPacket::Ack { kind: AckKind::Pubrec, id: 4, reason: 0, props: vec![], form: AckForm::Short2 });
        sim.settle();
        // an inbound QoS 2 message awaiting its PUBREL
        sim.feed_packet(&SPacket::Publish(rc::Publish { dup: false, qos: 2, retain: false, topic: "a/x".into(), id: Some(9), props: vec![Prop::var(11, 1)], payload: b"in".to_vec() }));
        sim.settle();
    }
    if h == 3 {
        sim.feed_packet(&SPacket::Disconnect { reason: 0x8b, props: vec![], form: 1 });
    } else {
        sim.set_eof();
    }
    sim.settle();
    if h != 3 {
        sim.cmd(Cmd::MarkDisconnected(if h == 4 { 100 } else { 1 }));
    }
    sim.new_transport();
    sim.cmd(Cmd::Connect(ConnSpec { sei, ..Default::default() }));
    sim.settle();
    let props2 = match h {
        0 | 1 => vec![Prop::u16(33, 2), Prop::u32(39, 500)],
        2 => vec![],
        3 => vec![],
        _ => vec![Prop::u16(33, 1)],
    };
    sim.feed_packet(&SPacket::Connack { session_present: h <= 2, reason: 0, props: props2 });
    sim.settle();
    sim.cmd(Cmd::Run);
    sim.settle();
    if h == 3 || h == 4 {
        sim.start_op(0, OpSpec::Publish(PubSpec::simple(1, "t", b"n")));
        sim.start_op(0, OpSpec::Ping);
        sim.settle();
    }
    Setup { sim, call: "run", stream }
}

pub enum Fault {
    Eof,
    ReadErr,
}

pub struct Outcome {
    pub panics: Vec<String>,
    pub stalled: Option<String>,
    pub returned_before_fault: bool,
    pub returned_after_fault: bool,
    pub max_calls: u64,
}

/// Delivers `bytes` (whole or in two pieces), then ends the transport. Returns what the monitors saw.
pub fn drive(su: &mut Setup, bytes: &[u8], split: Option<usize>, fault: Fault) -> Outcome {
    su.sim.log_enabled = true;
    let call = su.call;
    let n_before = su.sim.ctx_results().len();
    match split {
        Some(k) if k < bytes.len() => {
            su.sim.feed(&bytes[..k]);
            su.sim.settle();
            su.sim.feed(&bytes[k..]);
            su.sim.settle();
        }
        _ => {
            su.sim.feed(bytes);
            su.sim.settle();
        }
    }
    let stalled = su.sim.stalled();
    let returned_before_fault = su.sim.ctx_results().len() > n_before;
    if !returned_before_fault && su.sim.ctx_alive() {
        match fault {
            Fault::Eof => su.sim.set_eof(),
            Fault::ReadErr => su.sim.set_read_err(),
        }
        su.sim.settle();
    }
    let stalled = stalled.or_else(|| su.sim.stalled());
    let returned_after_fault = su.sim.ctx_results().len() > n_before;
    let _ = call;
    Outcome { panics: su.sim.panics.clone(), stalled, returned_before_fault, returned_after_fault, max_calls: su.sim.max_io_calls_in_poll }
}

fn classify_panic(p: &str) -> String {
    if p.contains("VERIF_LIVELOCK") {
        return "livelock".into();
    }
    p.to_string()
}

pub fn judge(rep: &mut Rep, id: &str, phase: Phase, what: &str, bytes: &[u8], su: &Setup, o: &Outcome) -> bool {
    let mut bad = false;
    let shown = &bytes[..bytes.len().min(48)];
    for p in &o.panics {
        bad = true;
        let c = classify_panic(p);
        if c == "livelock" {
            rep.violation(&format!("C04/wedge/livelock/phase={phase:?}"), id, &format!("{what}: one poll made more than {} transport calls; input {:02x?}\n{}", LIVELOCK_LIMIT, shown, su.sim.tail_log(20)));
        } else {
            rep.violation(&format!("C04/panic/{c}/phase={phase:?}"), id, &format!("{what}: library panicked: {p}\ninput ({} bytes): {:02x?}\n--- trace ---\n{}", bytes.len(), shown, su.sim.tail_log(20)));
        }
    }
    if let Some(s) = &o.stalled {
        bad = true;
        rep.violation(&format!("C04/wedge/stalled-with-unread-input/phase={phase:?}"), id, &format!("{what}: {s}\ninput: {:02x?}\n{}", shown, su.sim.tail_log(20)));
    }
    if !o.returned_after_fault && o.panics.is_empty() {
        bad = true;
        rep.violation(&format!("C04/wedge/call-does-not-return-after-transport-end/phase={phase:?}"), id, &format!("{what}: {}() still pending at quiescence after the transport ended; input {:02x?}\n{}", su.call, shown, su.sim.tail_log(20)));
    }
    rep.max("max_transport_calls_in_one_poll", o.max_calls as i64);
    if o.returned_before_fault {
        rep.add("returned_on_input", 1);
    } else {
        rep.add("kept_serving_until_transport_end", 1);
    }
    bad
}

/// valid packets of every type (server- and client-direction)
pub fn corpus() -> Vec<(String, Vec<u8>)> {
    let mut v: Vec<(String, Vec<u8>)> = Vec::new();
    let mut add = |n: &str, p: SPacket| v.push((n.to_string(), p.encode()));
    add("connack", SPacket::Connack { session_present: false, reason: 0, props: vec![] });
    add("connack-props", SPacket::Connack { session_present: true, reason: 0, props: vec![Prop::u16(33, 5), Prop::u32(39, 1000), Prop::str(18, "cid"), Prop::byte(36, 1), Prop::pair("k", "v"), Prop::u32(17, 60)] });
    add("connack-fail", SPacket::Connack { session_present: false, reason: 0x87, props: vec![Prop::str(31, "no")] });
    add("auth", SPacket::Auth { reason: Some(0x18), props: vec![Prop::str(21, "m"), Prop::bin(22, b"d")] });
    add("auth0", SPacket::Auth { reason: None, props: vec![] });
    add("publish-q0", SPacket::Publish(rc::Publish { dup: false, qos: 0, retain: false, topic: "a/b".into(), id: None, props: vec![Prop::var(11, 1)], payload: b"hello".to_vec() }));
    add("publish-q1", SPacket::Publish(rc::Publish { dup: false, qos: 1, retain: true, topic: "a/b".into(), id: Some(10), props: vec![Prop::var(11, 1), Prop::byte(1, 1), Prop::u32(2, 5), Prop::u16(35, 3), Prop::str(8, "r"), Prop::bin(9, b"c"), Prop::str(3, "t"), Prop::pair("k", "v")], payload: b"x".to_vec() }));
    add("publish-q2", SPacket::Publish(rc::Publish { dup: true, qos: 2, retain: false, topic: "a".into(), id: Some(11), props: vec![], payload: vec![] }));
    for (n, ids) in [("dead-live", vec![3u32, 1]), ("live-dead", vec![1, 3]), ("dead-pending", vec![3, 2]), ("dead-dead", vec![3, 3]), ("all", vec![3, 2, 1]), ("live-live", vec![1, 1]), ("dead-unknown-live", vec![3, 77, 1])] {
        for q in [0u8, 1] {
            add(&format!("publish-multi-{n}-q{q}"), SPacket::Publish(rc::Publish { dup: false, qos: q, retain: false, topic: "m".into(), id: if q > 0 { Some(20) } else { None }, props: ids.iter().map(|i| Prop::var(11, *i)).collect(), payload: b"mm".to_vec() }));
        }
    }
    // one identifier per matching subscription of this client: many of them (distinct, and with repetitions)
    for n in [8usize, 9, 16, 17, 33, 100] {
        for q in [0u8, 2] {
            let ids: Vec<u32> = (0..n).map(|i| if i % 5 == 4 { 1 } else { 1 + i as u32 }).collect();
            add(&format!("publish-many-{n}-q{q}"), SPacket::Publish(rc::Publish { dup: false, qos: q, retain: false, topic: "m".into(), id: if q > 0 { Some(21) } else { None }, props: ids.iter().map(|i| Prop::var(11, *i)).collect(), payload: b"mm".to_vec() }));
        }
    }
    add("publish-nosub", SPacket::Publish(rc::Publish { dup: false, qos: 1, retain: false, topic: "z".into(), id: Some(12), props: vec![Prop::var(11, 300)], payload: vec![1, 2, 3] }));
    for (n, kind, id) in [("puback", AckKind::Puback, 2u16), ("pubrec", AckKind::Pubrec, 3), ("pubrel", AckKind::Pubrel, 11), ("pubcomp", AckKind::Pubcomp, 3), ("puback-unknown", AckKind::Puback, 999), ("pubrec-unknown", AckKind::Pubrec, 999), ("pubcomp-unknown", AckKind::Pubcomp, 999)] {
        add(&format!("{n}-2"), SPacket::Ack { kind, id, reason: 0, props: vec![], form: AckForm::Short2 });
        add(&format!("{n}-3"), SPacket::Ack { kind, id, reason: kind.legal_reasons()[1], props: vec![], form: AckForm::Short3 });
        add(&format!("{n}-full"), SPacket::Ack { kind, id, reason: kind.legal_reasons()[1], props: vec![Prop::str(31, "rs"), Prop::pair("a", "b")], form: AckForm::Full });
    }
    add("suback", SPacket::Suback { id: 4, props: vec![Prop::str(31, "ok")], reasons: vec![0, 1, 0x80] });
    add("suback-unknown", SPacket::Suback { id: 777, props: vec![], reasons: vec![0] });
    add("unsuback", SPacket::Unsuback { id: 5, props: vec![], reasons: vec![0x11] });
    add("pingresp", SPacket::Pingresp);
    add("disconnect0", SPacket::Disconnect { reason: 0, props: vec![], form: 0 });
    add("disconnect1", SPacket::Disconnect { reason: 0x8b, props: vec![], form: 1 });
    add("disconnect-full", SPacket::Disconnect { reason: 0x9c, props: vec![Prop::str(28, "srv"), Prop::str(31, "moved"), Prop::pair("a", "b")], form: 2 });
    // packets only a client may send
    let mut addc = |n: &str, p: CPacket| v.push((n.to_string(), rc::encode_client_packet(&p)));
    addc("c-connect", CPacket::Connect(rc::Connect { client_id: "x".into(), ..Default::default() }));
    addc("c-subscribe", CPacket::Subscribe(rc::Subscribe { id: 1, props: vec![], filters: vec![rc::SubFilter { filter: "a".into(), max_qos: 1, no_local: false, retain_as_published: false, retain_handling: 0 }] }));
    addc("c-unsubscribe", CPacket::Unsubscribe(rc::Unsubscribe { id: 1, props: vec![], filters: vec!["a".into()] }));
    addc("c-pingreq", CPacket::Pingreq);
    // illegal property placements / zero values / unknown ids (well-framed, ill-formed content)
    let mut adds = |n: &str, p: SPacket| v.push((n.to_string(), p.encode()));
    adds("splice-connack-subid", SPacket::Connack { session_present: false, reason: 0, props: vec![Prop::var(11, 5)] });
    adds("splice-connack-dup-rm", SPacket::Connack { session_present: false, reason: 0, props: vec![Prop::u16(33, 5), Prop::u16(33, 6)] });
    adds("splice-connack-rm0", SPacket::Connack { session_present: false, reason: 0, props: vec![Prop::u16(33, 0)] });
    adds("splice-connack-mps0", SPacket::Connack { session_present: false, reason: 0, props: vec![Prop::u32(39, 0)] });
    adds("splice-connack-unknown", SPacket::Connack { session_present: false, reason: 0, props: vec![Prop::byte(0x7e, 1)] });
    adds("splice-connack-bool2", SPacket::Connack { session_present: false, reason: 0, props: vec![Prop::byte(37, 2)] });
    adds("splice-connack-qos3", SPacket::Connack { session_present: false, reason: 0, props: vec![Prop::byte(36, 3)] });
    adds("splice-publish-rm", SPacket::Publish(rc::Publish { dup: false, qos: 0, retain: false, topic: "a".into(), id: None, props: vec![Prop::var(11, 1), Prop::u16(33, 4)], payload: vec![] }));
    adds("splice-publish-subid0", SPacket::Publish(rc::Publish { dup: false, qos: 0, retain: false, topic: "a".into(), id: None, props: vec![Prop::var(11, 0)], payload: vec![] }));
    adds("splice-publish-alias0", SPacket::Publish(rc::Publish { dup: false, qos: 0, retain: false, topic: "a".into(), id: None, props: vec![Prop::var(11, 1), Prop::u16(35, 0)], payload: vec![] }));
    adds("splice-publish-id0", SPacket::Publish(rc::Publish { dup: false, qos: 1, retain: false, topic: "a".into(), id: Some(0), props: vec![Prop::var(11, 1)], payload: vec![] }));
    adds("splice-puback-id0", SPacket::Ack { kind: AckKind::Puback, id: 0, reason: 0, props: vec![], form: AckForm::Short2 });
    adds("splice-puback-sei", SPacket::Ack { kind: AckKind::Puback, id: 2, reason: 0, props: vec![Prop::u32(17, 1)], form: AckForm::Full });
    adds("splice-puback-badreason", SPacket::Ack { kind: AckKind::Puback, id: 2, reason: 0x42, props: vec![], form: AckForm::Short3 });
    adds("splice-suback-badreason", SPacket::Suback { id: 4, props: vec![], reasons: vec![0x55] });
    adds("splice-disconnect-sei", SPacket::Disconnect { reason: 0x80, props: vec![Prop::u32(17, 5)], form: 2 });
    adds("splice-disconnect-badreason", SPacket::Disconnect { reason: 0x01, props: vec![], form: 1 });
    adds("splice-auth-badreason", SPacket::Auth { reason: Some(0x44), props: vec![Prop::str(21, "m")] });
    // invalid UTF-8 in a string
    let mut bad_utf8 = SPacket::Publish(rc::Publish { dup: false, qos: 0, retain: false, topic: "ab".into(), id: None, props: vec![Prop::var(11, 1)], payload: vec![] }).encode();
    bad_utf8[4] = 0xff;
    v.push(("bad-utf8-topic".into(), bad_utf8));
    v
}

fn one(rep: &mut Rep, id: &str, phase: Phase, what: &str, bytes: &[u8], split: Option<usize>, fault: Fault) -> bool {
    let mut su = setup(rep.seed, phase);
    let o = drive(&mut su, bytes, split, fault);
    rep.add("evaluations", 1);
    judge(rep, id, phase, what, bytes, &su, &o)
}

fn run_miri(rep: &mut Rep) {
    rep.note("miri: per shard 30 stacked PRNG mutations of valid packets + 10 truncations, in PRNG-chosen phases");
    let corp = corpus();
    let mut rng = Rng::new(rep.seed.wrapping_mul(7727).wrapping_add(rep.shard * 977));
    for k in 0..40 {
        let id = format!("miri:{}:{k}", rep.shard);
        let phase = PHASES[rng.below(3)];
        let mut m = corp[rng.below(corp.len())].1.clone();
        if k < 30 {
            for _ in 0..1 + rng.below(3) {
                if m.is_empty() {
                    break;
                }
                match rng.below(3) {
                    0 => {
                        let p = rng.below(m.len());
                        m[p] = rng.next() as u8;
                    }
                    1 => {
                        let p = rng.below(m.len() + 1);
                        m.insert(p, *rng.pick(&[0u8, 0x7f, 0x80, 0xff, 0x0b, 0x26]));
                    }
                    _ => {
                        let p = rng.below(m.len());
                        m.remove(p);
                    }
                }
            }
            rep.add("random_mutations", 1);
        } else {
            let cut = rng.below(m.len());
            m.truncate(cut);
            rep.add("truncations", 1);
        }
        one(rep, &id, phase, "miri sample", &m, None, if k % 2 == 0 { Fault::Eof } else { Fault::ReadErr });
        rep.distinct(&(&m, phase));
    }
}

/// One large packet handed over in thousands of tiny reads that are all ready at once: the whole packet is assembled within a
/// single poll of connect() / authorize() / run(). Depth of the call stack must not grow with the number of reads - in an
/// unoptimised build least of all, where no tail call is ever eliminated (profile `dev`, opt-level 0). A stack overflow kills
/// the worker process; the driver names the case.
fn deep_reads(rep: &mut Rep) {
    // (2 097 152 is the first remaining length that needs four bytes)
    let sizes: &[usize] = if rep.quick() { &[1500, 20_000, 300_000, 2_100_000] } else { &[1500, 20_000, 300_000, 2_097_000, 2_100_000, 9_000_000] };
    rep.note(&format!("deep reads: one CONNACK / PUBLISH of {:?} bytes delivered in 1- and 2-byte reads that are all ready at once, in each phase", sizes));
    let mut idx = 60_000_000u64;
    for phase in PHASES {
        for &size in sizes {
            for cap in [1usize, 2, 4096, usize::MAX] {
                // packets of megabytes arrive byte by byte in the thorough tier only
                // (byte by byte at most 2.1 MB: the mock's own bound of 4 000 000 transport calls within one poll, which is what
                // recognises a client spinning on the transport, must stay out of reach of a legitimate packet)
                if cap <= 2 && size > 1_000_000 && (rep.quick() || size > 2_200_000) {
                    continue;
                }
                let id = format!("deep:{phase:?}:{size}:{cap}");
                idx += 1;
                if !rep.take(idx, &id) {
                    continue;
                }
                let mut su = setup(rep.seed, phase);
                su.sim.log_enabled = false;
                let pkt = match phase {
                    Phase::Running => SPacket::Publish(rc::Publish { dup: false, qos: 0, retain: false, topic: "a/deep".into(), id: None, props: vec![Prop::var(11, 1)], payload: vec![0x61; size] }),
                    _ => {
                        let mut props = Vec::new();
                        let mut left = size;
                        while left > 0 {
                            let n = left.min(60_000);
                            props.push(Prop::pair("k", &"v".repeat(n)));
                            left -= n;
                        }
                        SPacket::Connack { session_present: false, reason: 0, props }
                    }
                };
                su.sim.reader.0.borrow_mut().default_cap = if cap == 4096 { [1000usize, 700, 333, 4096][(size / 7 + phase as usize) % 4] } else { cap };
                // a small packet directly behind the large one, available with its last bytes (in the running phase: a PINGRESP
                // for the ping that is waiting; while connecting nothing may follow the CONNACK but what run() will read)
                let mut bytes = pkt.encode();
                if phase == Phase::Running {
                    bytes.extend(SPacket::Pingresp.encode());
                }
                su.sim.feed(&bytes);
                su.sim.settle();
                rep.add("evaluations", 1);
                rep.add("deep_read_cases", 1);
                if size >= 2_097_152 {
                    rep.add("packets_with_a_four_byte_remaining_length", 1);
                }
                rep.max("max_transport_calls_in_one_poll", su.sim.max_io_calls_in_poll as i64);
                rep.distinct(&("deep", phase, size, cap));
                for p in su.sim.panics.clone() {
                    rep.violation(&format!("C04/panic/{p}/phase={phase:?}"), &id, &format!("panic while a {size}-byte packet arrived in {cap}-byte reads: {p}"));
                }
                let ok = match phase {
                    Phase::Running => {
                        let n = su.stream.map(|st| {
                            su.sim.drain_stream(st);
                            su.sim.streams[st].items.len()
                        });
                        // the ping of the set-up (last operation started there) has its answer behind the large packet
                        let ping_done = su.sim.ops.last().and_then(|o| o.out.as_ref()).map(|o| o.is_ok()).unwrap_or(false);
                        n == Some(1) && su.sim.run_result().is_none() && ping_done && su.sim.unread() == 0
                    }
                    _ => matches!(su.sim.last_ctx_result(su.call), Some(CtxOut::Conn(ConnOut::Connack(_)))),
                };
                if !ok && su.sim.panics.is_empty() {
                    rep.violation(&format!("C04/wedge/large-packet-in-tiny-reads/phase={phase:?}"), &id, &format!("a well-formed {size}-byte packet delivered in {cap}-byte reads was not handed on: {}() = {:?}, unread {}", su.call, su.sim.last_ctx_result(su.call).map(|c| brief_ctx(&c)), su.sim.unread()));
                } else if ok {
                    rep.sample(|| format!("{id}: assembled within {} transport calls in one poll", su.sim.max_io_calls_in_poll));
                }
            }
        }
    }
}

pub fn run(rep: &mut Rep) {
    if rep.profile == "miri" {
        return run_miri(rep);
    }
    deep_reads(rep);
    if rep.profile == "dev" {
        // the unoptimised build exists for what only it can show (stack depth); the enumerations run in the other builds
        return;
    }
    let mut idx = 0u64;
    // (a) all byte strings up to a bound over a boundary alphabet
    let alpha: [u8; 16] = [0x00, 0x01, 0x02, 0x04, 0x10, 0x20, 0x30, 0x32, 0x40, 0x62, 0x7f, 0x80, 0xd0, 0xe0, 0xf0, 0xff];
    let maxlen = if rep.quick() { 4 } else { 5 };
    rep.note(&format!("(a) ALL byte strings of length 1..={maxlen} over the 16-symbol alphabet {:02x?} in each of the phases connecting / authorizing / running, each followed by end-of-stream", alpha));
    for len in 1..=maxlen {
        let total = 16u64.pow(len as u32);
        for n in 0..total {
            let mut b = Vec::with_capacity(len);
            let mut k = n;
            for _ in 0..len {
                b.push(alpha[(k % 16) as usize]);
                k /= 16;
            }
            for phase in PHASES {
                let id = format!("str:{len}:{n}:{phase:?}");
                idx += 1;
                if !rep.take(idx, &id) {
                    continue;
                }
                one(rep, &id, phase, "byte string", &b, None, Fault::Eof);
                rep.add("byte_strings", 1);
                rep.distinct(&(&b, phase));
            }
        }
    }
    // (b)/(c) every valid packet of every type in every phase, whole, truncated, perturbed
    let corp = corpus();
    rep.note(&format!("(b,c) {} packets of every type (expected, unexpected for the phase, client-only types, acknowledgements for known and unknown identifiers, spliced / zero / unknown properties, invalid UTF-8) x 3 phases: delivered whole, every truncation, every byte set to 00/7f/80/ff and +-1, every single-bit flip, remaining length rewritten (+-1, +-2, 5-byte encodings), doubled (duplicate), stacked PRNG mutations", corp.len()));
    for (name, bytes) in &corp {
        for phase in PHASES {
            // whole, twice in a row (duplicate), and split after the first byte
            for variant in 0..3 {
                let id = format!("pkt:{name}:{phase:?}:{variant}");
                idx += 1;
                if !rep.take(idx, &id) {
                    continue;
                }
                let data: Vec<u8> = if variant == 1 { [bytes.clone(), bytes.clone()].concat() } else { bytes.clone() };
                one(rep, &id, phase, &format!("packet {name}"), &data, if variant == 2 { Some(1) } else { None }, if variant == 0 { Fault::Eof } else { Fault::ReadErr });
                rep.add("whole_packets", 1);
                rep.distinct(&(name, phase, variant));
            }
            for cut in 0..bytes.len() {
                let id = format!("trunc:{name}:{phase:?}:{cut}");
                idx += 1;
                if !rep.take(idx, &id) {
                    continue;
                }
                one(rep, &id, phase, &format!("packet {name} truncated to {cut} bytes"), &bytes[..cut], None, if cut % 2 == 0 { Fault::Eof } else { Fault::ReadErr });
                rep.add("truncations", 1);
                rep.distinct(&(name, phase, "t", cut));
            }
            for pos in 0..bytes.len() {
                let orig = bytes[pos];
                let mut vals: Vec<u8> = vec![0x00, 0x7f, 0x80, 0xff, orig.wrapping_add(1), orig.wrapping_sub(1)];
                for bit in 0..8 {
                    vals.push(orig ^ (1 << bit));
                }
                vals.sort();
                vals.dedup();
                for v in vals {
                    if v == orig {
                        continue;
                    }
                    let id = format!("byte:{name}:{phase:?}:{pos}:{v:02x}");
                    idx += 1;
                    if !rep.take(idx, &id) {
                        continue;
                    }
                    let mut m = bytes.clone();
                    m[pos] = v;
                    one(rep, &id, phase, &format!("packet {name} with byte {pos} = {v:#04x}"), &m, None, Fault::Eof);
                    rep.add("byte_mutations", 1);
                    rep.distinct(&(name, phase, pos, v));
                }
            }
            // remaining length rewritten
            if let Ok((rem, n)) = rc::get_varint(&bytes[1..]) {
                let body = &bytes[1 + n..];
                let mut lens: Vec<Vec<u8>> = Vec::new();
                for d in [-2i64, -1, 1, 2, 126, 127, 128] {
                    let x = rem as i64 + d;
                    if (0..=268_435_455).contains(&x) {
                        let mut o = Vec::new();
                        rc::put_varint(&mut o, x as u32);
                        lens.push(o);
                    }
                }
                lens.push(vec![0x80, 0x80, 0x80, 0x80, 0x01]);
                lens.push(vec![0xff, 0xff, 0xff, 0xff, 0x7f]);
                lens.push(vec![0xff, 0xff, 0xff, 0xff, 0xff, 0x01]);
                lens.push(vec![0x80, 0x00]); // non-minimal
                lens.push(vec![0x80 | (rem as u8 & 0x7f), 0x80, 0x00]);
                for (li, l) in lens.iter().enumerate() {
                    let id = format!("remlen:{name}:{phase:?}:{li}");
                    idx += 1;
                    if !rep.take(idx, &id) {
                        continue;
                    }
                    let mut m = vec![bytes[0]];
                    m.extend_from_slice(l);
                    m.extend_from_slice(body);
                    one(rep, &id, phase, &format!("packet {name} with remaining length bytes {:02x?}", l), &m, None, Fault::Eof);
                    rep.add("length_perturbations", 1);
                    rep.distinct(&(name, phase, "len", li));
                }
            }
        }
    }
    // stacked PRNG mutations
    let nrand = if rep.quick() { 20_000 } else { 600_000 };
    for k in 0..nrand {
        let id = format!("rand:{k}");
        idx += 1;
        if !rep.take(idx, &id) {
            continue;
        }
        let mut rng = Rng::new(rep.seed.wrapping_mul(7727).wrapping_add(k));
        let phase = PHASES[rng.below(3)];
        let mut data: Vec<u8> = Vec::new();
        for _ in 0..1 + rng.below(3) {
            let mut m = corp[rng.below(corp.len())].1.clone();
            for _ in 0..rng.below(4) {
                if m.is_empty() {
                    break;
                }
                match rng.below(5) {
                    0 => {
                        let p = rng.below(m.len());
                        m[p] = rng.next() as u8;
                    }
                    1 => {
                        let p = rng.below(m.len());
                        m.truncate(p);
                    }
                    2 => {
                        let p = rng.below(m.len() + 1);
                        m.insert(p, *rng.pick(&[0u8, 0x7f, 0x80, 0xff, 0x0b, 0x26, 0x1f]));
                    }
                    3 => {
                        let p = rng.below(m.len());
                        m.remove(p);
                    }
                    _ => {
                        let p = rng.below(m.len());
                        let q = rng.below(m.len());
                        m.swap(p, q);
                    }
                }
            }
            data.extend(m);
        }
        let split = if rng.chance(1, 2) && !data.is_empty() { Some(rng.below(data.len())) } else { None };
        one(rep, &id, phase, "stacked PRNG mutations", &data, split, if rng.chance(1, 2) { Fault::Eof } else { Fault::ReadErr });
        rep.add("random_mutations", 1);
        rep.distinct(&(&data, phase));
    }
    // (d) transport faults at every byte offset of a canned conversation
    let conv: Vec<u8> = [
        SPacket::Publish(rc::Publish { dup: false, qos: 1, retain: false, topic: "a/b".into(), id: Some(10), props: vec![Prop::var(11, 1)], payload: b"hello".to_vec() }).encode(),
        SPacket::Ack { kind: AckKind::Puback, id: 2, reason: 0, props: vec![], form: AckForm::Short2 }.encode(),
        SPacket::Ack { kind: AckKind::Pubrec, id: 3, reason: 0, props: vec![], form: AckForm::Short2 }.encode(),
        SPacket::Pingresp.encode(),
        SPacket::Publish(rc::Publish { dup: false, qos: 2, retain: false, topic: "a".into(), id: Some(11), props: vec![Prop::var(11, 1)], payload: vec![9; 40] }).encode(),
        SPacket::Ack { kind: AckKind::Pubrel, id: 11, reason: 0, props: vec![], form: AckForm::Short2 }.encode(),
        SPacket::Suback { id: 4, props: vec![], reasons: vec![0] }.encode(),
        SPacket::Ack { kind: AckKind::Pubcomp, id: 3, reason: 0, props: vec![], form: AckForm::Short2 }.encode(),
    ]
    .concat();
    rep.note(&format!("(d) canned conversation of {} inbound bytes: EOF and read error injected at every byte offset; write error, and a sink that accepts nothing more (poll_write returning Ok(0), behind whole or 2-byte partial writes), injected at every outbound byte offset (connect and run phases)", conv.len()));
    for off in 0..=conv.len() {
        for f in 0..2 {
            let id = format!("fault:read:{off}:{f}");
            idx += 1;
            if !rep.take(idx, &id) {
                continue;
            }
            one(rep, &id, Phase::Running, &format!("{} after {off} bytes of the conversation", if f == 0 { "EOF" } else { "read error" }), &conv[..off], None, if f == 0 { Fault::Eof } else { Fault::ReadErr });
            rep.add("read_faults", 1);
            rep.distinct(&("rf", off, f));
        }
    }
    // ... and after each of those transport ends (or a server DISCONNECT with more data behind it in the same read) the same
    // Context is given a fresh transport: whatever the dead connection had left unconsumed must not reach the new one
    rep.note("second connection after the transport ended at every byte offset of the conversation (or after a server DISCONNECT followed by more data): connect() on a fresh transport returns the new CONNACK, run() serves, a ping completes");
    for off in 0..=conv.len() + 1 {
        let id = format!("fault:reconnect:{off}");
        idx += 1;
        if !rep.take(idx, &id) {
            continue;
        }
        let mut su = setup(rep.seed, Phase::Running);
        su.sim.log_enabled = true;
        if off <= conv.len() {
            su.sim.feed(&conv[..off]);
            su.sim.settle();
            if su.sim.run_result().is_none() {
                if off % 2 == 0 {
                    su.sim.set_eof();
                } else {
                    su.sim.set_read_err();
                }
                su.sim.settle();
            }
        } else {
            // a server DISCONNECT and two more packets in one read
            let mut b = SPacket::Disconnect { reason: 0x8b, props: vec![], form: 1 }.encode();
            b.extend_from_slice(&SPacket::Pingresp.encode());
            b.extend_from_slice(&[0x30, 0x05, 0x00]);
            su.sim.feed(&b);
            su.sim.settle();
        }
        rep.add("evaluations", 1);
        rep.add("reconnections_after_transport_end", 1);
        rep.distinct(&("reconnect", off));
        if su.sim.run_result().is_none() {
            // (reported by the read-fault cases above)
            continue;
        }
        su.sim.new_transport();
        su.sim.cmd(Cmd::Connect(ConnSpec::default()));
        su.sim.settle();
        su.sim.feed_packet(&SPacket::Connack { session_present: false, reason: 0, props: vec![] });
        su.sim.settle();
        let got = su.sim.ctx_results().last().cloned();
        let mut bad = false;
        for p in su.sim.panics.clone() {
            rep.violation(&format!("C04/panic/{}/phase=second-connection", classify_panic(&p)), &id, &format!("{p}\n{}", su.sim.tail_log(20)));
            bad = true;
        }
        match got {
            Some(("connect", CtxOut::Conn(ConnOut::Connack(_)))) => {
                su.sim.cmd(Cmd::Run);
                su.sim.settle();
                let p = su.sim.start_op(0, OpSpec::Ping);
                su.sim.settle();
                su.sim.feed_packet(&SPacket::Pingresp);
                su.sim.settle();
                // (pings left over from the first connection are answered first, in issue order)
                su.sim.feed_packet(&SPacket::Pingresp);
                su.sim.settle();
                if su.sim.ops[p].out.is_none() || su.sim.run_result().is_some() {
                    rep.violation("C04/wedge/second-connection-not-serving", &id, &format!("after the first connection ended {off} bytes into the conversation: ping on the new connection -> {:?}, run() = {:?}\n{}", su.sim.ops[p].out.as_ref().map(|o| o.brief()), su.sim.run_result(), su.sim.tail_log(20)));
                    bad = true;
                }
            }
            other => {
                if !bad {
                    rep.violation("C04/wedge/second-connect-does-not-return-the-connack", &id, &format!("after the first connection ended {off} bytes into the conversation, connect() on a fresh transport that delivered a whole CONNACK gave {:?}\n{}", other.map(|(c, o)| format!("{c}: {}", brief_ctx(&o))), su.sim.tail_log(20)));
                }
            }
        }
    }
    // write errors: at every offset of everything the client writes during set-up + conversation
    let total_written = {
        let mut su = setup(rep.seed, Phase::Running);
        su.sim.feed(&conv);
        su.sim.settle();
        su.sim.written_len()
    };
    for off2 in 0..=(2 * total_written + 1) {
        // kind 0: the write fails with an error; kind 1: the sink accepts nothing more (poll_write returns Ok(0))
        let (off, kind) = (off2 / 2, off2 % 2);
        let id = if kind == 0 { format!("fault:write:{off}") } else { format!("fault:write-zero:{off}") };
        idx += 1;
        if !rep.take(idx, &id) {
            continue;
        }
        // the fault is armed before the client starts; whichever call is writing at that offset must fail cleanly
        let mut sim = Sim::new(rep.seed);
        if kind == 0 {
            sim.writer.0.borrow_mut().err_at = Some(off);
        } else {
            sim.writer.0.borrow_mut().zero_at = Some(off);
            // partial writes in front of the full sink
            sim.writer.0.borrow_mut().plan = if off % 3 == 0 { WritePlan::All } else { WritePlan::Max(2) };
            rep.add("zero_length_write_faults", 1);
        }
        sim.cmd(Cmd::Connect(ConnSpec::default()));
        sim.settle();
        let mut results = sim.ctx_results().len();
        let mut wedged = None;
        if results == 0 {
            sim.feed_packet(&SPacket::Connack { session_present: false, reason: 0, props: vec![] });
            sim.settle();
            results = sim.ctx_results().len();
            if results == 0 {
                wedged = Some("connect() did not return after CONNACK");
            }
        }
        let connected = matches!(sim.last_ctx_result("connect"), Some(CtxOut::Conn(ConnOut::Connack(_))));
        if connected {
            sim.cmd(Cmd::Run);
            sim.settle();
            let ops = [
                OpSpec::Subscribe(SubSpec::simple("a/#")),
                OpSpec::Publish(PubSpec::simple(1, "t", b"1")),
                OpSpec::Publish(PubSpec::simple(2, "t", b"2")),
                OpSpec::Subscribe(SubSpec::simple("b/#")),
                OpSpec::Unsubscribe(UnsubSpec::simple("c")),
                OpSpec::Ping,
            ];
            for o in ops {
                if sim.run_result().is_some() {
                    break;
                }
                sim.start_op(0, o);
                sim.settle();
            }
            if sim.run_result().is_none() {
                sim.feed(&conv);
                sim.settle();
            }
            if sim.run_result().is_none() && sim.writer.0.borrow().err_signalled {
                wedged = Some("run() still pending although a write failed");
            }
            if sim.run_result().is_none() && !sim.writer.0.borrow().err_signalled {
                // offset beyond what this run wrote: end it normally
                sim.set_eof();
                sim.settle();
            }
        }
        rep.add("evaluations", 1);
        rep.add("write_faults", 1);
        rep.distinct(&("wf", off, kind));
        for p in sim.panics.clone() {
            rep.violation(&format!("C04/panic/{}/phase=write-fault", classify_panic(&p)), &id, &format!("write error at outbound offset {off}: {p}\n{}", sim.tail_log(20)));
        }
        if let Some(w) = wedged {
            rep.violation("C04/wedge/write-error-not-reported", &id, &format!("write error at outbound offset {off}: {w}\n{}", sim.tail_log(20)));
        }
        if let Some(s) = sim.stalled() {
            rep.violation("C04/wedge/stalled-with-unread-input/phase=write-fault", &id, &format!("{s}\n{}", sim.tail_log(20)));
        }
    }
    // (e) states reached through a connection history: the same Context connected a second time
    let nh = HISTORIES;
    let seqs = if rep.quick() { 120 } else { 1500 };
    rep.note(&format!("(e) {nh} connection histories (session resumed idle / with three unfinished handshakes under a smaller Receive Maximum / with a larger one; plain second connection after a server DISCONNECT; expired session with abandoned operations): every corpus packet delivered whole and doubled, plus {seqs} PRNG sequences of 8 corpus packets per history, each followed by end-of-stream"));
    for h in 0..nh {
        for (ci, (name, bytes)) in corp.iter().enumerate() {
            for dbl in 0..2 {
                let id = format!("hist:{h}:{ci}:{dbl}");
                idx += 1;
                if !rep.take(idx, &id) {
                    continue;
                }
                let mut su = setup_history(rep.seed, h);
                let b = if dbl == 1 { [bytes.clone(), bytes.clone()].concat() } else { bytes.clone() };
                let o = drive(&mut su, &b, None, Fault::Eof);
                rep.add("evaluations", 1);
                rep.add("history_state_cases", 1);
                rep.distinct(&("hist", h, ci, dbl));
                judge(rep, &id, Phase::Running, &format!("history {h}, packet {name}{}", if dbl == 1 { " twice" } else { "" }), &b, &su, &o);
            }
        }
        for k in 0..seqs {
            let id = format!("histseq:{h}:{k}");
            idx += 1;
            if !rep.take(idx, &id) {
                continue;
            }
            let mut rng = Rng::new(rep.seed.wrapping_mul(0x9e37).wrapping_add(h as u64 * 100_000 + k as u64));
            let mut b = Vec::new();
            let mut names = Vec::new();
            for _ in 0..8 {
                let (n, bytes) = &corp[rng.below(corp.len())];
                // packets that end run() by design would cut most sequences short: take them rarely
                if (n.starts_with("connack") || n.starts_with("auth") || n.starts_with("disconnect") || n.starts_with("c-") || n.starts_with("bad")) && !rng.chance(1, 8) {
                    continue;
                }
                names.push(n.clone());
                b.extend_from_slice(bytes);
            }
            let mut su = setup_history(rep.seed, h);
            let o = drive(&mut su, &b, None, if k % 2 == 0 { Fault::Eof } else { Fault::ReadErr });
            rep.add("evaluations", 1);
            rep.add("history_state_sequences", 1);
            rep.distinct(&("histseq", h, &names));
            judge(rep, &id, Phase::Running, &format!("history {h}, packets {:?}", names), &b, &su, &o);
        }
    }
}
