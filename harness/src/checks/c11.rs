//! C11 — packet ids are non-zero and unique among outstanding operations, for any history.

use super::{add_counters, harvest};
use crate::refcodec::{self as rc, AckForm, AckKind, CPacket, Prop, SPacket};
use crate::report::Rep;
use crate::sim::Rng;
use crate::world::*;
use futures::io::{AsyncRead, AsyncWrite};
use poster::{ConnectOpts, Context, PublishOpts, QoS, SubscribeOpts, SubscriptionOpts, UnsubscribeOpts};
use std::collections::{HashMap, HashSet, VecDeque};
use std::io;
use std::pin::Pin;
use std::sync::{Arc, Condvar, Mutex};
use std::task::{Context as TaskCx, Poll, Waker};

// ------------------------------------------------------------------ single task, long histories

fn long_run(rep: &mut Rep, id: &str, total: usize, window: usize, seed_ids: Option<(u16, u32)>, seed: u64) {
    let mut rng = Rng::new(seed);
    let mut w = World::boot(WorldCfg { seed, seed_ids, ..Default::default() });
    w.sim.log_enabled = false;
    w.light = true;
    // third handle clone
    w.sim.clone_handle(0);
    let mut outstanding: VecDeque<(usize, u8)> = VecDeque::new();
    let mut allocations = 0usize;
    for n in 0..total {
        let kind = match rng.below(10) {
            0..=3 => Kind::Pub1,
            4..=6 => Kind::Pub2,
            7 => Kind::Sub,
            8 => Kind::Unsub,
            _ => Kind::Pub0,
        };
        let h = n % 3;
        let i = w.start(h, kind);
        w.settle();
        if n % 64 == 0 {
            w.check();
        }
        if kind != Kind::Pub0 {
            allocations += 1;
            outstanding.push_back((i, 1));
        }
        while outstanding.len() > window {
            let (j, st) = outstanding.pop_front().unwrap();
            w.check();
            if w.m[j].req_wire.is_none() {
                continue;
            }
            w.deliver_ack(j, st, 0, 0);
            w.settle();
            if st == 1 && w.m[j].kind == Kind::Pub2 {
                w.check();
                if w.m[j].rel_wire.is_some() {
                    // PUBCOMP goes to the front: the exchange finishes before older ids can be reused
                    w.deliver_ack(j, 2, 0, 0);
                    w.settle();
                }
            }
        }
        if w.blind {
            break;
        }
        // keep memory bounded: finished ops' sim slots hold only small summaries
    }
    w.check();
    rep.add("evaluations", 1);
    rep.add("id_consuming_operations", allocations as i64);
    rep.add("identifier_wraps", (allocations / 65535) as i64);
    rep.max("max_window", window as i64);
    rep.distinct(&(total, window, seed_ids));
    let ids: HashSet<u16> = w.m.iter().filter_map(|m| m.pkt_id).collect();
    rep.max("max_distinct_packet_ids_in_one_run", ids.len() as i64);
    if harvest(rep, &mut w, id) == 0 {
        rep.sample(|| format!("{id}: {allocations} identifier-consuming operations, window {window}, {} distinct identifiers seen, {} wraps", ids.len(), allocations / 65535));
    }
    add_counters(rep, &w);
}

// ------------------------------------------------------------------ multi-thread stress

struct PipeState {
    buf: VecDeque<u8>,
    waker: Option<Waker>,
    closed: bool,
}

struct Pipe {
    st: Mutex<PipeState>,
    cv: Condvar,
}

impl Pipe {
    fn new() -> Arc<Pipe> {
        Arc::new(Pipe { st: Mutex::new(PipeState { buf: VecDeque::new(), waker: None, closed: false }), cv: Condvar::new() })
    }
    fn push(&self, b: &[u8]) {
        let w = {
            let mut s = self.st.lock().unwrap();
            s.buf.extend(b.iter().copied());
            s.waker.take()
        };
        self.cv.notify_all();
        if let Some(w) = w {
            w.wake();
        }
    }
    fn close(&self) {
        let w = {
            let mut s = self.st.lock().unwrap();
            s.closed = true;
            s.waker.take()
        };
        self.cv.notify_all();
        if let Some(w) = w {
            w.wake();
        }
    }
    /// blocking read of whatever is available (up to 64 KiB); None at close
    fn pull(&self, timeout_ms: u64) -> Option<Vec<u8>> {
        let mut s = self.st.lock().unwrap();
        if s.buf.is_empty() && !s.closed {
            let (g, _) = self.cv.wait_timeout(s, std::time::Duration::from_millis(timeout_ms)).unwrap();
            s = g;
        }
        if s.buf.is_empty() {
            return if s.closed { None } else { Some(Vec::new()) };
        }
        let n = s.buf.len().min(65536);
        Some(s.buf.drain(..n).collect())
    }
}

struct PipeReader(Arc<Pipe>);
struct PipeWriter(Arc<Pipe>);

impl AsyncRead for PipeReader {
    fn poll_read(self: Pin<&mut Self>, cx: &mut TaskCx<'_>, out: &mut [u8]) -> Poll<io::Result<usize>> {
        let mut s = self.0.st.lock().unwrap();
        if !s.buf.is_empty() {
            let n = out.len().min(s.buf.len());
            for b in out.iter_mut().take(n) {
                *b = s.buf.pop_front().unwrap();
            }
            return Poll::Ready(Ok(n));
        }
        if s.closed {
            return Poll::Ready(Ok(0));
        }
        s.waker = Some(cx.waker().clone());
        Poll::Pending
    }
}

impl AsyncWrite for PipeWriter {
    fn poll_write(self: Pin<&mut Self>, _cx: &mut TaskCx<'_>, b: &[u8]) -> Poll<io::Result<usize>> {
        self.0.push(b);
        Poll::Ready(Ok(b.len()))
    }
    fn poll_flush(self: Pin<&mut Self>, _cx: &mut TaskCx<'_>) -> Poll<io::Result<()>> {
        Poll::Ready(Ok(()))
    }
    fn poll_close(self: Pin<&mut Self>, _cx: &mut TaskCx<'_>) -> Poll<io::Result<()>> {
        Poll::Ready(Ok(()))
    }
}

#[derive(Default)]
struct BrokerReport {
    violations: Vec<(String, String)>,
    requests: u64,
    max_outstanding: usize,
    distinct_ids: usize,
    sub_ids: usize,
    decode_errors: u64,
}

fn broker(c2s: Arc<Pipe>, s2c: Arc<Pipe>, seed: u64) -> BrokerReport {
    let mut rng = Rng::new(seed);
    let mut rep = BrokerReport::default();
    let mut buf: Vec<u8> = Vec::new();
    let mut outstanding: HashSet<u16> = HashSet::new();
    let mut pending: Vec<(SPacket, Option<u16>)> = Vec::new(); // ack to send, id it finishes
    let mut ids: HashSet<u16> = HashSet::new();
    let mut sub_ids: HashMap<u32, u64> = HashMap::new();
    let mut done = false;
    let mut idle = 0;
    while !done {
        match c2s.pull(1) {
            None => break,
            Some(b) => {
                if b.is_empty() {
                    idle += 1;
                } else {
                    idle = 0;
                }
                buf.extend(b)
            }
        }
        loop {
            let n = match rc::frame(&buf) {
                Ok(Some(n)) => n,
                Ok(None) => break,
                Err(e) => {
                    rep.violations.push(("C11/mt/wire-unsplittable".into(), e.0));
                    done = true;
                    break;
                }
            };
            let pkt: Vec<u8> = buf.drain(..n).collect();
            match rc::decode_client_packet(&pkt) {
                Err(e) => {
                    rep.decode_errors += 1;
                    if rep.decode_errors < 3 {
                        rep.violations.push(("C11/mt/malformed-packet".into(), format!("{e}: {:02x?}", &pkt[..pkt.len().min(32)])));
                    }
                }
                Ok(CPacket::Connect(_)) => s2c.push(&SPacket::Connack { session_present: false, reason: 0, props: vec![] }.encode()),
                Ok(CPacket::Publish(p)) => {
                    if let Some(id) = p.id {
                        rep.requests += 1;
                        ids.insert(id);
                        if !outstanding.insert(id) {
                            rep.violations.push(("C11/duplicate-packet-id".into(), format!("PUBLISH uses packet identifier {id} while the acknowledgement of another operation with that identifier has not been sent yet ({} outstanding)", outstanding.len())));
                        }
                        let kind = if p.qos == 1 { AckKind::Puback } else { AckKind::Pubrec };
                        pending.push((SPacket::Ack { kind, id, reason: 0, props: vec![], form: AckForm::Short2 }, if p.qos == 1 { Some(id) } else { None }));
                    }
                }
                Ok(CPacket::Ack(a)) if a.kind == AckKind::Pubrel => {
                    pending.push((SPacket::Ack { kind: AckKind::Pubcomp, id: a.id, reason: 0, props: vec![], form: AckForm::Short2 }, Some(a.id)));
                }
                Ok(CPacket::Subscribe(s)) => {
                    rep.requests += 1;
                    ids.insert(s.id);
                    if !outstanding.insert(s.id) {
                        rep.violations.push(("C11/duplicate-packet-id".into(), format!("SUBSCRIBE uses packet identifier {} still outstanding", s.id)));
                    }
                    match rc::find(&s.props, 11) {
                        Some(rc::PVal::Var(v)) => {
                            let c = sub_ids.entry(*v).or_insert(0);
                            *c += 1;
                            if *c > 1 {
                                rep.violations.push(("C11/duplicate-subscription-id".into(), format!("subscription identifier {v} used by two subscribe() calls")));
                            }
                        }
                        _ => rep.violations.push(("C11/subscribe-without-subscription-id".into(), "SUBSCRIBE without subscription identifier".into())),
                    }
                    pending.push((SPacket::Suback { id: s.id, props: vec![], reasons: vec![0; s.filters.len()] }, Some(s.id)));
                }
                Ok(CPacket::Unsubscribe(s)) => {
                    rep.requests += 1;
                    ids.insert(s.id);
                    if !outstanding.insert(s.id) {
                        rep.violations.push(("C11/duplicate-packet-id".into(), format!("UNSUBSCRIBE uses packet identifier {} still outstanding", s.id)));
                    }
                    pending.push((SPacket::Unsuback { id: s.id, props: vec![], reasons: vec![0; s.filters.len()] }, Some(s.id)));
                }
                Ok(CPacket::Pingreq) => pending.push((SPacket::Pingresp, None)),
                Ok(CPacket::Disconnect(_)) => {
                    done = true;
                }
                Ok(_) => {}
            }
            if outstanding.len() > rep.max_outstanding {
                rep.max_outstanding = outstanding.len();
            }
        }
        // release acknowledgements with random delay and reordering
        let keep = if idle >= 1 { 0 } else { rng.below(48) };
        while pending.len() > keep {
            let k = rng.below(pending.len());
            let (pkt, fin) = pending.swap_remove(k);
            if let Some(id) = fin {
                outstanding.remove(&id);
            }
            s2c.push(&pkt.encode());
        }
    }
    rep.distinct_ids = ids.len();
    rep.sub_ids = sub_ids.len();
    s2c.close();
    rep
}

fn mt_stress(rep: &mut Rep, id: &str, threads: usize, ops_per_thread: usize, seed: u64) {
    let c2s = Pipe::new();
    let s2c = Pipe::new();
    let (mut ctx, handle) = Context::new();
    let (r, w) = (PipeReader(s2c.clone()), PipeWriter(c2s.clone()));
    let b = {
        let (c2s, s2c) = (c2s.clone(), s2c.clone());
        std::thread::spawn(move || broker(c2s, s2c, seed))
    };
    let ctx_thread = std::thread::spawn(move || {
        futures::executor::block_on(async move {
            ctx.set_up((r, w));
            match ctx.connect(ConnectOpts::new().client_identifier("mt")).await {
                Ok(_) => {}
                Err(e) => return format!("connect failed: {e}"),
            }
            match ctx.run().await {
                Ok(()) => "Ok".to_string(),
                Err(e) => format!("{e}"),
            }
        })
    });
    let mut clients = Vec::new();
    for t in 0..threads {
        let mut h = handle.clone();
        let seed = seed.wrapping_add(t as u64 * 7919);
        clients.push(std::thread::spawn(move || {
            let mut rng = Rng::new(seed);
            let mut done = 0u64;
            let mut errors = 0u64;
            let mut n = 0;
            while n < ops_per_thread {
                // a batch of operations outstanding at once from this thread
                let batch = 1 + rng.below(12);
                let kinds: Vec<usize> = (0..batch).map(|_| rng.below(8)).collect();
                let res: Vec<bool> = futures::executor::block_on(async {
                    let mut futs: Vec<Pin<Box<dyn std::future::Future<Output = bool> + Send>>> = Vec::new();
                    for (k, kind) in kinds.iter().enumerate() {
                        let mut hh = h.clone();
                        let topic = format!("t/{t}/{k}");
                        let kind = *kind;
                        futs.push(Box::pin(async move {
                            match kind {
                                0..=2 => hh.publish(PublishOpts::new().topic_name(&topic).qos(QoS::AtLeastOnce).payload(b"x")).await.is_ok(),
                                3..=4 => hh.publish(PublishOpts::new().topic_name(&topic).qos(QoS::ExactlyOnce).payload(b"y")).await.is_ok(),
                                5 => hh.subscribe(SubscribeOpts::new().subscription(&topic, SubscriptionOpts::new())).await.is_ok(),
                                6 => hh.unsubscribe(UnsubscribeOpts::new().topic_filter(&topic)).await.is_ok(),
                                _ => hh.ping().await.is_ok(),
                            }
                        }));
                    }
                    futures::future::join_all(futs).await
                });
                n += batch;
                done += res.iter().filter(|x| **x).count() as u64;
                errors += res.iter().filter(|x| !**x).count() as u64;
            }
            let _ = &mut h;
            (done, errors)
        }));
    }
    let mut done = 0;
    let mut errors = 0;
    let mut client_panics = 0;
    for c in clients {
        match c.join() {
            Ok((d, e)) => {
                done += d;
                errors += e;
            }
            Err(_) => client_panics += 1,
        }
    }
    let mut h = handle;
    let _ = futures::executor::block_on(h.disconnect(poster::DisconnectOpts::new()));
    drop(h);
    let run_res = ctx_thread.join().unwrap_or_else(|_| "context thread panicked".into());
    c2s.close();
    let br = b.join().expect("harness: broker thread");
    rep.add("evaluations", 1);
    rep.add("mt_operations_completed", done as i64);
    rep.add("mt_requests_seen_by_broker", br.requests as i64);
    rep.add("id_consuming_operations", br.requests as i64);
    rep.add("identifier_wraps", (br.requests / 65535) as i64);
    rep.max("max_outstanding_reached", br.max_outstanding as i64);
    rep.max("max_distinct_packet_ids_in_one_run", br.distinct_ids as i64);
    rep.distinct(&(threads, ops_per_thread, seed));
    for (sig, d) in &br.violations {
        rep.violation(sig, id, &format!("multi-thread stress ({threads} client threads x {ops_per_thread} ops): {d}"));
    }
    if client_panics > 0 {
        rep.violation("C11/panic/client-thread", id, &format!("{client_panics} client threads panicked while starting operations"));
    }
    if errors > 0 {
        rep.violation("C11/mt/operation-failed", id, &format!("{errors} operations failed although the broker acknowledged everything; run() = {run_res}"));
    }
    if run_res != "Ok" {
        rep.violation("C11/mt/run-ended", id, &format!("run() ended with {run_res}"));
    }
    rep.sample(|| format!("{id}: {done} operations from {threads} threads, broker saw {} identifier-consuming requests, {} distinct packet identifiers, {} subscription identifiers, max {} outstanding", br.requests, br.distinct_ids, br.sub_ids, br.max_outstanding));
}

pub fn run(rep: &mut Rep) {
    if rep.profile == "miri" {
        // Miri tier: scaled-down wrap-around run and a tiny real-thread stress (data-race detection on the
        // shared identifier counters and the channels)
        rep.note("miri: per shard one 150-operation run across the identifier wrap and one 2-thread x 24-operation stress");
        long_run(rep, &format!("miri-long:{}", rep.shard), 150, 5, Some((65500 - (rep.shard as u16) * 7, 120 + rep.shard as u32)), rep.seed + rep.shard);
        mt_stress(rep, &format!("miri-mt:{}", rep.shard), 2, 24, rep.seed.wrapping_mul(31).wrapping_add(rep.shard));
        return;
    }
    let mut idx = 0u64;
    // single task: (total operations, window of outstanding operations acknowledged FIFO)
    let mut runs: Vec<(usize, usize, Option<(u16, u32)>)> = vec![
        (3000, 1, Some((65500, 1))),
        (3000, 7, Some((65530, 120))),
        (5000, 1000, Some((65000, 16380))),
        (70_000, 1, None),
        (70_000, 7, None),
        (140_000, 1000, None),
        (80_000, 60_000, None),
    ];
    if !rep.quick() {
        runs.push((200_000, 7, None));
        runs.push((200_000, 1000, None));
        runs.push((200_000, 60_000, None));
        runs.push((300_000, 1, Some((1, 2_097_000))));
    }
    rep.note(&format!("single task: runs of up to {} identifier-consuming operations (mixed publish QoS 1/2, subscribe, unsubscribe; 3 handle clones) with windows of {{1, 7, 1000, 60000}} outstanding operations acknowledged FIFO, counters seeded just below the wrap via hook H2 in the short runs; broker-side monitor: identifier non-zero and not equal to that of any operation whose acknowledgement has not been sent", runs.iter().map(|r| r.0).max().unwrap()));
    for (k, (total, window, ids)) in runs.iter().enumerate() {
        let id = format!("long:{k}:{total}:{window}");
        idx += 1;
        if rep.take(idx, &id) {
            long_run(rep, &id, *total, *window, *ids, rep.seed.wrapping_add(k as u64));
        }
    }
    // multi-thread
    let mt: Vec<(usize, usize)> = if rep.quick() { vec![(4, 12_000), (8, 8_000), (2, 12_000), (8, 5_000), (6, 8_000)] } else { vec![(4, 40_000), (8, 40_000), (8, 40_000), (6, 60_000), (2, 100_000), (8, 20_000), (3, 70_000), (5, 50_000)] };
    rep.note("multi-thread: 2-8 OS threads with handle clones issuing batches of 1-12 concurrent operations (block_on + join_all) against a context thread and a broker thread that acknowledges with random delay and reordering; the broker thread checks uniqueness in wire order");
    for (k, (threads, ops)) in mt.iter().enumerate() {
        let id = format!("mt:{k}:{threads}:{ops}");
        idx += 1;
        if rep.take(idx, &id) {
            mt_stress(rep, &id, *threads, *ops, rep.seed.wrapping_mul(31).wrapping_add(k as u64));
        }
    }
    let _ = Prop::byte(1, 1);
}
