//! C11 — packet ids are non-zero and unique among outstanding operations, for any history.

use super::{add_counters, harvest};
use crate::refcodec::{self as rc, AckForm, AckKind, CPacket, Prop, SPacket};
use crate::report::Rep;
use crate::sim::Rng;
use crate::world::*;
use super::script::Alpha;
use futures::io::{AsyncRead, AsyncWrite};
use poster::{ConnectOpts, Context, PublishOpts, QoS, SubscribeOpts, SubscriptionOpts, UnsubscribeOpts};
use std::collections::{HashMap, HashSet, VecDeque};
use std::io;
use std::pin::Pin;
use std::sync::{Arc, Condvar, Mutex};
use std::task::{Context as TaskCx, Poll, Waker};

// ------------------------------------------------------------------ single task, long histories

fn long_run(rep: &mut Rep, id: &str, total: usize, window: usize, seed_ids: Option<(u16, u32)>, seed: u64) {
    let mut rng = Rng::new(seed);
    let mut w = World::boot(WorldCfg { seed, seed_ids, ..Default::default() });
    w.sim.log_enabled = false;
    w.light = true;
    // third handle clone
    w.sim.clone_handle(0);
    let mut outstanding: VecDeque<(usize, u8)> = VecDeque::new();
    let mut allocations = 0usize;
    for n in 0..total {
        let kind = match rng.below(10) {
            0..=3 => Kind::Pub1,
            4..=6 => Kind::Pub2,
            7 => Kind::Sub,
            8 => Kind::Unsub,
            _ => Kind::Pub0,
        };
        let h = n % 3;
        let i = w.start(h, kind);
        w.settle();
        if n % 64 == 0 {
            w.check();
        }
        if kind != Kind::Pub0 {
            allocations += 1;
            outstanding.push_back((i, 1));
        }
        while outstanding.len() > window {
            let (j, st) = outstanding.pop_front().unwrap();
            w.check();
            if w.m[j].req_wire.is_none() {
                continue;
            }
            w.deliver_ack(j, st, 0, 0);
            w.settle();
            if st == 1 && w.m[j].kind == Kind::Pub2 {
                w.check();
                if w.m[j].rel_wire.is_some() {
                    // PUBCOMP goes to the front: the exchange finishes before older ids can be reused
                    w.deliver_ack(j, 2, 0, 0);
                    w.settle();
                }
            }
        }
        if w.blind {
            break;
        }
        // keep memory bounded: finished ops' sim slots hold only small summaries
    }
    w.check();
    rep.add("evaluations", 1);
    rep.add("id_consuming_operations", allocations as i64);
    rep.add("identifier_wraps", (allocations / 65535) as i64);
    rep.max("max_window", window as i64);
    rep.distinct(&(total, window, seed_ids));
    let ids: HashSet<u16> = w.m.iter().filter_map(|m| m.pkt_id).collect();
    rep.max("max_distinct_packet_ids_in_one_run", ids.len() as i64);
    if harvest(rep, &mut w, id) == 0 {
        rep.sample(|| format!("{id}: {allocations} identifier-consuming operations, window {window}, {} distinct identifiers seen, {} wraps", ids.len(), allocations / 65535));
    }
    add_counters(rep, &w);
}

use super::mt::mt_stress;

pub fn run(rep: &mut Rep) {
    if rep.profile == "miri" {
        // Miri tier: scaled-down wrap-around run and a tiny real-thread stress (data-race detection on the
        // shared identifier counters and the channels)
        rep.note("miri: per shard one 150-operation run across the identifier wrap and one 2-thread x 24-operation stress");
        long_run(rep, &format!("miri-long:{}", rep.shard), 150, 5, Some((65500 - (rep.shard as u16) * 7, 120 + rep.shard as u32)), rep.seed + rep.shard);
        mt_stress(rep, &format!("miri-mt:{}", rep.shard), 2, 24, rep.seed.wrapping_mul(31).wrapping_add(rep.shard), false, "C11");
        return;
    }
    if rep.profile == "tsan" {
        // the race detector has something to observe only where several threads run
        rep.note("tsan: only the real-thread stress runs under ThreadSanitizer (the single-task runs have no concurrency for it to observe)");
        let mt: Vec<(usize, usize)> = vec![(4, 20_000), (8, 20_000), (6, 20_000), (2, 30_000), (8, 10_000), (3, 20_000)];
        for (k, (threads, ops)) in mt.iter().enumerate() {
            let id = format!("mt:{k}:{threads}:{ops}");
            if rep.take(k as u64, &id) {
                mt_stress(rep, &id, *threads, *ops, rep.seed.wrapping_mul(31).wrapping_add(k as u64), k % 2 == 1, "C11");
            }
        }
        return;
    }
    let mut idx = 0u64;
    // single task: (total operations, window of outstanding operations acknowledged FIFO)
    let mut runs: Vec<(usize, usize, Option<(u16, u32)>)> = vec![
        (3000, 1, Some((65500, 1))),
        (3000, 7, Some((65530, 120))),
        (5000, 1000, Some((65000, 16380))),
        (70_000, 1, None),
        (70_000, 7, None),
        (140_000, 1000, None),
        (80_000, 60_000, None),
    ];
    if !rep.quick() {
        runs.push((200_000, 7, None));
        runs.push((200_000, 1000, None));
        runs.push((200_000, 60_000, None));
        runs.push((300_000, 1, Some((1, 2_097_000))));
    }
    rep.note(&format!("single task: runs of up to {} identifier-consuming operations (mixed publish QoS 1/2, subscribe, unsubscribe; 3 handle clones) with windows of {{1, 7, 1000, 60000}} outstanding operations acknowledged FIFO, counters seeded just below the wrap via hook H2 in the short runs; broker-side monitor: identifier non-zero and not equal to that of any operation whose acknowledgement has not been sent", runs.iter().map(|r| r.0).max().unwrap()));
    for (k, (total, window, ids)) in runs.iter().enumerate() {
        let id = format!("long:{k}:{total}:{window}");
        idx += 1;
        if rep.take(idx, &id) {
            long_run(rep, &id, *total, *window, *ids, rep.seed.wrapping_add(k as u64));
        }
    }
    // subscription identifiers across every encoding boundary of the variable byte integer
    let bounds: [u32; 5] = [127, 16_383, 2_097_151, 4_194_303, 268_435_455 - 12];
    rep.note(&format!("subscription identifiers: counter seeded (hook H2) 4 below each of {:?}, 12 subscribe() calls from three handle clones with live streams across the boundary, all outstanding together; identifiers on the wire non-zero, pairwise distinct and equal to the identifier the messages are routed by (one message per subscription, checked on its stream)", bounds));
    for (bi, b) in bounds.iter().enumerate() {
        let id = format!("subid-boundary:{b}");
        idx += 1;
        if !rep.take(idx, &id) {
            continue;
        }
        let mut w = World::boot(WorldCfg { seed: rep.seed, seed_ids: Some((100 + bi as u16, b - 4)), ..Default::default() });
        w.sim.clone_handle(0);
        let mut subs = Vec::new();
        for j in 0..12usize {
            let i = w.start(j % 3, Kind::Sub);
            w.settle_check();
            subs.push(i);
        }
        for &i in &subs {
            if w.m[i].req_wire.is_some() {
                w.deliver_ack(i, 1, 0, 0);
                w.settle_check();
                w.take_stream(i);
            }
        }
        let mut want: Vec<u32> = Vec::new();
        for (j, &i) in subs.iter().enumerate() {
            let expect = b - 4 + j as u32;
            want.push(expect);
            match w.m[i].sub_id {
                Some(v) if v == expect => {}
                other => {
                    w.viol(&["C11"], "C11/subscription-id-not-the-allocated-one".into(), format!("op{i}: the {j}-th subscribe() after seeding the counter at {} carries subscription identifier {:?} on the wire, expected {expect}", b - 4, other));
                }
            }
            if let Some(v) = w.m[i].sub_id {
                w.in_publish(0, 0, false, &[v], false);
                w.settle_check();
            }
        }
        super::script::finish(&mut w);
        rep.add("evaluations", 1);
        rep.add("subscription_id_boundary_cases", 1);
        rep.add("subscription_ids_checked", subs.len() as i64);
        rep.distinct(&("subid", b));
        if harvest(rep, &mut w, &id) == 0 {
            rep.sample(|| format!("{id}: identifiers {:?} on the wire, one message routed to each", want));
        }
        add_counters(rep, &w);
    }
    // identifiers across connections of the same Context: handshakes carried into a resumed session keep their
    // identifiers, so whatever is started on the new connection must avoid them
    rep.note("across connections: 1-4 QoS 1/2 publishes left unfinished, the connection ended by the user's DISCONNECT / end-of-stream / server DISCONNECT, the session resumed (hook H1) or the Context simply connected again; then publishes, subscribes and unsubscribes from two clones: identifiers on the new wire checked against the re-sent handshakes; counters also seeded near the wrap");
    for unfinished in 1..=4usize {
        for cause in 0..3u8 {
            for (si, seedids) in [None, Some((65533u16, 5u32))].iter().enumerate() {
                let id = format!("reconnect:{unfinished}:{cause}:{si}");
                idx += 1;
                if !rep.take(idx, &id) {
                    continue;
                }
                let mut w = World::boot(WorldCfg { seed: rep.seed, sei: Some(3600), seed_ids: *seedids, ..Default::default() });
                for j in 0..unfinished {
                    let i = w.start(j % 2, if j % 2 == 0 { Kind::Pub1 } else { Kind::Pub2 });
                    w.settle_check();
                    if j == 3 {
                        // one QoS 2 exchange already in its second phase
                        w.deliver_ack(i, 1, 0, 0);
                        w.settle_check();
                    }
                }
                match cause {
                    0 => super::script::apply(&mut w, super::script::Act::Term(super::script::TermAct::UserDisconnect)),
                    1 => w.eof(),
                    _ => w.server_disconnect(0x8b, 1, false),
                }
                w.settle_check();
                let resumed = w.resume_full(ResumeOpts { secs_ago: 1, sei: Some(3600), ..Default::default() });
                w.settle_check();
                if resumed && !w.blind {
                    for j in 0..6usize {
                        w.start(j % 2, [Kind::Pub1, Kind::Sub, Kind::Unsub, Kind::Pub2, Kind::Pub1, Kind::Sub][j]);
                        w.settle_check();
                    }
                    for _ in 0..12 {
                        let Some(&(i, st)) = w.ackable().first() else { break };
                        w.deliver_ack(i, st, 0, 0);
                        w.settle_check();
                    }
                }
                super::script::finish(&mut w);
                rep.add("evaluations", 1);
                rep.add("reconnection_cases", 1);
                rep.distinct(&("reconnect", unfinished, cause, si));
                if harvest(rep, &mut w, &id) == 0 {
                    let ids: Vec<u16> = w.m.iter().filter_map(|m| m.pkt_id).collect();
                    rep.sample(|| format!("{id}: identifiers over both connections {:?}", ids));
                }
                add_counters(rep, &w);
            }
        }
    }
    // an identifier that became free when its exchange failed (PUBREC / PUBACK with reason >= 0x80) is handed out again after
    // the counter has wrapped; the connection is then lost and the session resumed: the finished exchange must not come
    // back under the identifier its successor now uses
    rep.note("failed exchange, wrap, resumption: a QoS 2 publish refused by PUBREC (or a QoS 1 publish refused by PUBACK) with reason 0x80 / 0x97, the identifier counter advanced to one allocation before that identifier (hook H2; once with 65 535 real acknowledged publishes), a new publish left unacknowledged under the same identifier, the connection lost and the session resumed: no two exchanges on the resumed connection may share an identifier");
    for first_q2 in [true, false] {
        for ridx in [2usize, 7] {
            for second_q2 in [false, true] {
                for base in [1u16, 300, 65535] {
                    let id = format!("refused-wrap-resume:{}:{ridx}:{}:{base}", first_q2 as u8, second_q2 as u8);
                    idx += 1;
                    if !rep.take(idx, &id) {
                        continue;
                    }
                    let mut w = World::boot(WorldCfg { seed: rep.seed, sei: Some(3600), seed_ids: Some((base.wrapping_sub(1), 5)), ..Default::default() });
                    let a = w.start(0, if first_q2 { Kind::Pub2 } else { Kind::Pub1 });
                    w.settle_check();
                    let Some(aid) = w.m[a].pkt_id else { continue };
                    w.deliver_ack(a, 1, ridx, 0);
                    w.settle_check();
                    // one allocation before the wrap reaches `aid` again
                    if let Some(h) = w.sim.handles[0].as_ref() {
                        h.verif_seed_ids(aid.wrapping_sub(3), 50);
                    }
                    let mut reused = false;
                    for _ in 0..6 {
                        let b = w.start(1, if second_q2 { Kind::Pub2 } else { Kind::Pub1 });
                        w.settle_check();
                        if w.m[b].pkt_id == Some(aid) {
                            reused = true;
                            break;
                        }
                        w.deliver_ack(b, 1, 0, 0);
                        w.settle_check();
                        if second_q2 {
                            w.deliver_ack(b, 2, 0, 0);
                            w.settle_check();
                        }
                    }
                    if reused {
                        rep.add("identifiers_reused_after_a_failed_exchange", 1);
                    }
                    w.eof();
                    w.settle_check();
                    let resumed = w.resume_full(ResumeOpts { secs_ago: 1, sei: Some(3600), ..Default::default() });
                    w.settle_check();
                    if resumed && !w.blind {
                        for _ in 0..4 {
                            let Some(&(i, st)) = w.ackable().first() else { break };
                            w.deliver_ack(i, st, 0, 0);
                            w.settle_check();
                        }
                    }
                    super::script::finish(&mut w);
                    rep.add("evaluations", 1);
                    rep.add("failed_exchange_wrap_resume_cases", 1);
                    rep.distinct(&("refused-wrap-resume", first_q2, ridx, second_q2, base));
                    if harvest(rep, &mut w, &id) == 0 {
                        rep.sample(|| format!("{id}: identifier {aid} failed, reused = {reused}, session resumed with distinct identifiers"));
                    }
                    add_counters(rep, &w);
                }
            }
        }
    }
    for start in [1u16, 40_000] {
        let id = format!("full-cycle:{start}");
        idx += 1;
        if rep.take(idx, &id) {
            full_cycle_with_one_outstanding(rep, &id, start);
        }
    }
    idx += 1;
    if rep.take(idx, "refused-wrap-resume:real") {
        real_wrap_after_failed_exchange(rep, "refused-wrap-resume:real");
    }
    // small Receive Maximum: publishes refused for quota (their identifier never reaches the wire) interleaved with
    // other identifier-consuming operations whose futures are polled late
    let wa = Alpha {
        kinds: vec![Kind::Pub1, Kind::Pub1, Kind::Pub2, Kind::Sub, Kind::Unsub, Kind::PubBig],
        max_ops: 60,
        max_conc: 8,
        pub_ack_variants: vec![(0, 0), (2, 1)],
        // (SUBACKs that grant every filter, refuse every filter, or grant some and refuse others)
        sub_ack_variants: vec![(0, 0), (2, 1), (4, 0), (8, 1)],
        holds_any: true,
        holds: true,
        race: true,
        drops: true,
        handle_churn: true,
        ..Default::default()
    };
    let walks = if rep.quick() { 600 } else { 12000 };
    rep.note(&format!("refusals: {walks} PRNG walks of 70 actions with Receive Maximum 1-3 (and Maximum Packet Size 64 in a third of them): QoS 1/2 publishes refused locally mixed with subscribes / unsubscribes from two handle clones, futures held back and polled late, the context held while requests queue, cancellations; every identifier on the wire checked against the outstanding set"));
    for k in 0..walks {
        let id = format!("refusal-walk:{k}");
        idx += 1;
        if !rep.take(idx, &id) {
            continue;
        }
        let seed = rep.seed.wrapping_mul(1_000_003).wrapping_add(k);
        let mut rng = Rng::new(seed);
        // both counters start a few allocations below an encoding step (the subscription identifier's 1-/2-/3-/4-byte steps move
        // the SUBSCRIBE's property section across its own 127 / 128 step when the call carries a 125-byte user property)
        let sids = [1u32, 120, 125, 16_380, 2_097_148];
        let mut w = World::boot(WorldCfg { seed, receive_max: Some(1 + (k % 3) as u16), max_packet: if k % 3 == 0 { Some(64) } else { None }, order: (k % 4) as u8, seed_ids: Some((1 + ((k * 3701) % 65000) as u16, sids[(k % 5) as usize])), ..Default::default() });
        // under the Maximum Packet Size every third subscribe / unsubscribe is refused too: its identifiers are consumed, never sent
        w.big_subs = k % 3 == 0;
        // ... and where no limit is announced every second subscribe carries three filters
        w.multi_filter = k % 3 != 0;
        let acts = super::script::run_walk(&mut w, &wa, &mut rng, 70);
        rep.add("evaluations", 1);
        rep.add("refusal_walks", 1);
        rep.add("id_consuming_operations", acts.iter().filter(|a| matches!(a, super::script::Act::Start(_) | super::script::Act::FirstPoll(_))).count() as i64);
        rep.distinct(&("refusal", w.shape()));
        harvest(rep, &mut w, &id);
        add_counters(rep, &w);
    }
    // multi-thread
    let mt: Vec<(usize, usize)> = if rep.quick() { vec![(4, 12_000), (8, 8_000), (2, 12_000), (8, 5_000), (6, 8_000)] } else { vec![(4, 40_000), (8, 40_000), (8, 40_000), (6, 60_000), (2, 100_000), (8, 20_000), (3, 70_000), (5, 50_000)] };
    rep.note("multi-thread: 2-8 OS threads with handle clones issuing batches of 1-12 concurrent operations (block_on + join_all) against a context thread and a broker thread that acknowledges with random delay and reordering; the broker thread checks uniqueness in wire order");
    for (k, (threads, ops)) in mt.iter().enumerate() {
        let id = format!("mt:{k}:{threads}:{ops}");
        idx += 1;
        if rep.take(idx, &id) {
            mt_stress(rep, &id, *threads, *ops, rep.seed.wrapping_mul(31).wrapping_add(k as u64), k % 2 == 1, "C11");
        }
    }
    let _ = Prop::byte(1, 1);
}

/// The same history without the hook: 65 535 acknowledged QoS 1 publishes bring the counter back to the identifier of the
/// failed QoS 2 exchange.
fn real_wrap_after_failed_exchange(rep: &mut Rep, id: &str) {
    use crate::sim::{Cmd, Sim};
    use crate::spec::{ConnSpec, OpSpec, PubSpec};
    let mut sim = Sim::new(rep.seed);
    sim.log_enabled = false;
    sim.cmd(Cmd::Connect(ConnSpec { sei: Some(3600), ..Default::default() }));
    sim.settle();
    sim.feed_packet(&SPacket::Connack { session_present: false, reason: 0, props: vec![] });
    sim.settle();
    sim.cmd(Cmd::Run);
    sim.settle();
    sim.parse_wire();
    let last_id = |sim: &mut Sim, before: usize| -> Option<u16> {
        sim.parse_wire();
        sim.wire[before..].iter().find_map(|w| match &w.pkt { Ok(CPacket::Publish(p)) => p.id, _ => None })
    };
    let before = sim.wire.len();
    sim.start_op(0, OpSpec::Publish(PubSpec::simple(2, "first", b"a")));
    sim.settle();
    let Some(aid) = last_id(&mut sim, before) else { return };
    sim.feed_packet(&SPacket::Ack { kind: AckKind::Pubrec, id: aid, reason: 0x97, props: vec![], form: AckForm::Short3 });
    sim.settle();
    let mut allocated = 0usize;
    let mut reused = false;
    for j in 0..70_000usize {
        let before = sim.wire.len();
        sim.start_op(0, OpSpec::Publish(PubSpec::simple(1, "w", b"b")));
        sim.settle();
        let Some(pid) = last_id(&mut sim, before) else { break };
        allocated += 1;
        if pid == aid {
            reused = true;
            break;
        }
        sim.feed_packet(&SPacket::Ack { kind: AckKind::Puback, id: pid, reason: 0, props: vec![], form: AckForm::Short2 });
        sim.settle();
        // keep the harness's own bookkeeping small
        if j % 4096 == 4095 {
            sim.wire.clear();
        }
    }
    rep.add("evaluations", 1);
    rep.add("id_consuming_operations", allocated as i64);
    if !reused {
        rep.add("real_wrap_cases_not_reaching_reuse", 1);
        return;
    }
    sim.set_eof();
    sim.settle();
    sim.cmd(Cmd::MarkDisconnected(1));
    sim.new_transport();
    sim.cmd(Cmd::Connect(ConnSpec { sei: Some(3600), ..Default::default() }));
    sim.settle();
    sim.feed_packet(&SPacket::Connack { session_present: true, reason: 0, props: vec![] });
    sim.settle();
    sim.parse_wire();
    let after = sim.wire.len();
    sim.cmd(Cmd::Run);
    sim.settle();
    sim.parse_wire();
    let ids: Vec<u16> = sim.wire[after..].iter().filter_map(|w| match &w.pkt { Ok(CPacket::Publish(p)) if p.qos > 0 => p.id, Ok(CPacket::Ack(a)) if a.kind == AckKind::Pubrel => Some(a.id), _ => None }).collect();
    rep.add("real_wraps_after_a_failed_exchange", 1);
    rep.add("identifiers_reused_after_a_failed_exchange", 1);
    let mut sorted = ids.clone();
    sorted.sort();
    sorted.dedup();
    for p in sim.panics.clone() {
        rep.violation(&format!("C11/panic/{p}"), id, &format!("panic: {p}"));
    }
    if sorted.len() != ids.len() {
        rep.violation("C11/duplicate-packet-id/resent", id, &format!("identifier {aid}: QoS 2 exchange refused by PUBREC 0x97, {allocated} allocations later a QoS 1 publish carries it again and is unacknowledged when the connection is lost; the resumed connection carries exchanges with identifiers {:?}", ids));
    } else {
        rep.sample(|| format!("{id}: identifier {aid} reused after {allocated} allocations; resumed connection carries identifiers {:?}", ids));
    }
}

/// The premise at its edge: one operation stays outstanding while 65 534 further identifiers are allocated (each of those
/// operations acknowledged before the next) - the largest number the property allows. None of them may carry the outstanding
/// identifier, none may be zero; the 65 535 identifiers seen are then all different.
fn full_cycle_with_one_outstanding(rep: &mut Rep, id: &str, start: u16) {
    use crate::sim::{Cmd, Sim};
    use crate::spec::{ConnSpec, OpSpec, PubSpec, SubSpec, UnsubSpec};
    let mut sim = Sim::new(rep.seed);
    sim.log_enabled = false;
    sim.cmd(Cmd::Connect(ConnSpec::default()));
    sim.settle();
    sim.feed_packet(&SPacket::Connack { session_present: false, reason: 0, props: vec![] });
    sim.settle();
    sim.cmd(Cmd::Run);
    sim.settle();
    sim.parse_wire();
    sim.handles[0].as_ref().unwrap().verif_seed_ids(start, 1);
    let ident = |sim: &mut Sim, before: usize| -> Option<(u16, u8)> {
        sim.parse_wire();
        sim.wire[before..].iter().find_map(|w| match &w.pkt {
            Ok(CPacket::Publish(p)) => p.id.map(|i| (i, p.qos)),
            Ok(CPacket::Subscribe(x)) => Some((x.id, 8)),
            Ok(CPacket::Unsubscribe(x)) => Some((x.id, 10)),
            _ => None,
        })
    };
    let before = sim.wire.len();
    sim.start_op(0, OpSpec::Publish(PubSpec::simple(1, "held", b"a")));
    sim.settle();
    let Some((held, _)) = ident(&mut sim, before) else { return };
    let mut seen = vec![false; 65536];
    seen[held as usize] = true;
    let mut allocated = 0usize;
    let mut bad: Option<String> = None;
    for j in 0..65_534usize {
        let before = sim.wire.len();
        let spec = match j % 4 {
            0 => OpSpec::Publish(PubSpec::simple(1, "w", b"b")),
            1 => OpSpec::Subscribe(SubSpec::simple("f")),
            2 => OpSpec::Publish(PubSpec::simple(2, "w", b"c")),
            _ => OpSpec::Unsubscribe(UnsubSpec::simple("f")),
        };
        sim.start_op(0, spec);
        sim.settle();
        let Some((pid, kind)) = ident(&mut sim, before) else {
            bad = Some(format!("allocation {} after the outstanding operation: nothing identifiable was written; panics {:?}", j + 1, sim.panics));
            break;
        };
        allocated += 1;
        if pid == 0 {
            bad = Some(format!("allocation {} carries packet identifier 0", j + 1));
            break;
        }
        if pid == held {
            bad = Some(format!("allocation {} after the outstanding operation carries its identifier {held} (fewer than 65 535 identifiers were allocated while it was outstanding)", j + 1));
            break;
        }
        if seen[pid as usize] {
            // legitimate (that operation was acknowledged), but then a full cycle cannot be 65 535 long: noted
            rep.add("identifiers_seen_twice_within_one_cycle", 1);
        }
        seen[pid as usize] = true;
        match kind {
            1 => sim.feed_packet(&SPacket::Ack { kind: AckKind::Puback, id: pid, reason: 0, props: vec![], form: AckForm::Short2 }),
            2 => {
                sim.feed_packet(&SPacket::Ack { kind: AckKind::Pubrec, id: pid, reason: 0, props: vec![], form: AckForm::Short2 });
                sim.settle();
                sim.feed_packet(&SPacket::Ack { kind: AckKind::Pubcomp, id: pid, reason: 0, props: vec![], form: AckForm::Short2 });
            }
            8 => sim.feed_packet(&SPacket::Suback { id: pid, props: vec![], reasons: vec![0] }),
            _ => sim.feed_packet(&SPacket::Unsuback { id: pid, props: vec![], reasons: vec![0] }),
        }
        sim.settle();
        if j % 4096 == 4095 {
            sim.wire.clear();
            sim.ops.truncate(1);
        }
    }
    rep.add("evaluations", 1);
    rep.add("id_consuming_operations", allocated as i64);
    rep.add("full_cycles_with_one_operation_outstanding", 1);
    rep.distinct(&("full-cycle", start));
    for p in sim.panics.clone() {
        rep.violation(&format!("C11/panic/{p}"), id, &format!("panic: {p}"));
    }
    match bad {
        Some(b) => rep.violation("C11/duplicate-packet-id/full-cycle", id, &format!("counter seeded at {start}, operation with identifier {held} left outstanding: {b}")),
        None => rep.sample(|| format!("{id}: identifier {held} outstanding, {allocated} further allocations, all different from it and non-zero")),
    }
}
