//! C13 — connect() and run() end with the documented outcome, and only then.

use super::script::*;
use super::{add_counters, explore_world, harvest};
use crate::refcodec::{self as rc, Prop, SPacket};
use crate::report::Rep;
use crate::sim::*;
use crate::spec::*;
use crate::world::*;

fn connect_phase(rep: &mut Rep) {
    // (a) connect()/authorize() outcomes
    let mut idx = 0u64;
    let mut viol = |rep: &mut Rep, sig: String, case: &str, detail: String, sim: &Sim| {
        rep.violation(&sig, case, &format!("{detail}\n--- trace ---\n{}", sim.tail_log(40)));
    };
    for via_auth in [false, true] {
        for &reason in rc::CONNACK_REASONS {
            for pmode in [0u8, 1, 2] {
                let props = pmode > 0;
                let id = format!("connack:auth{}:r{reason:#x}:p{}", via_auth as u8, pmode);
                idx += 1;
                if !rep.take(idx, &id) {
                    continue;
                }
                let mut sim = Sim::new(rep.seed);
                let mut spec = ConnSpec::default();
                if via_auth {
                    spec.auth_method = Some("m".into());
                    spec.auth_data = Some(vec![1]);
                }
                sim.cmd(Cmd::Connect(spec));
                sim.settle();
                if via_auth {
                    sim.feed_packet(&SPacket::Auth { reason: Some(0x18), props: vec![Prop::str(21, "m"), Prop::bin(22, b"chal")] });
                    sim.settle();
                    match sim.last_ctx_result("connect") {
                        Some(CtxOut::Conn(ConnOut::Auth(a))) if a.reason == 0x18 && a.data.as_deref() == Some(&b"chal"[..]) => {}
                        other => viol(rep, "C13/connect-auth-challenge-result".into(), &id, format!("AUTH challenge (reason 0x18) must make connect() return AuthRsp; got {:?}", other), &sim),
                    }
                    sim.cmd(Cmd::Authorize(AuthSpec { reason: Some(0x18), method: Some("m".into()), data: Some(vec![2]), user_props: vec![] }));
                    sim.settle();
                }
                let call = if via_auth { "authorize" } else { "connect" };
                let mut p = Vec::new();
                let (mut rs, mut sr, mut up) = (None, None, vec![]);
                if props {
                    rs = Some("why".to_string());
                    sr = Some("other:1883".to_string());
                    up = vec![("a".to_string(), "1".to_string()), ("a".to_string(), "2".to_string())];
                    p.push(Prop::pair("a", "1"));
                    p.push(Prop::str(31, "why"));
                    p.push(Prop::str(28, "other:1883"));
                    p.push(Prop::pair("a", "2"));
                }
                if pmode == 2 {
                    // a broker that states every capability explicitly, all of them at "not available"; a refusing broker
                    // may say so of subscription identifiers too (the client cannot work with such a broker, which is for
                    // the application to find out from the refusal, not from a panic)
                    p.insert(1, Prop::byte(0x24, 0));
                    p.push(Prop::byte(0x25, 0));
                    p.push(Prop::byte(0x28, 0));
                    p.push(Prop::byte(0x2a, 0));
                    p.insert(0, Prop::u16(0x21, 5));
                    p.push(Prop::u16(0x22, 0));
                    // ... and ends with a user property whose value is empty
                    p.push(Prop::pair("last", ""));
                    up.push(("last".to_string(), String::new()));
                    if reason >= 0x80 {
                        p.insert(2, Prop::byte(0x29, 0));
                        rep.add("refusing_connacks_with_subscription_identifiers_unavailable", 1);
                    }
                }
                sim.feed_packet(&SPacket::Connack { session_present: false, reason, props: p });
                sim.settle();
                let got = sim.last_ctx_result(call);
                let ok = match &got {
                    Some(CtxOut::Conn(ConnOut::Connack(c))) => reason < 0x80 && c.reason == reason && c.reason_string == rs && c.server_reference == sr && c.user_props == up,
                    Some(CtxOut::Conn(ConnOut::Err(ErrSum::ConnectError { reason: r, reason_string, server_reference, user_props }))) => {
                        reason >= 0x80 && *r == reason && *reason_string == rs && *server_reference == sr && *user_props == up
                    }
                    _ => false,
                };
                if !ok {
                    viol(rep, format!("C13/{call}-wrong-result/connack-reason={}", if reason < 0x80 { "success" } else { "failure" }), &id, format!("CONNACK reason {reason:#x} (props mode {pmode}): {call}() returned {:?}", got), &sim);
                }
                for p in sim.panics.clone() {
                    viol(rep, format!("C13/panic/{p}"), &id, format!("panic: {p}"), &sim);
                }
                rep.add("evaluations", 1);
                rep.add("connect_outcomes_checked", 1);
                rep.distinct(&(via_auth, reason, pmode));
                rep.sample(|| format!("{id} -> {:?}", got.map(|g| brief_ctx(&g))));
            }
        }
    }
    // AUTH challenges of every size class (a Kerberos / SCRAM token is easily larger than 127 bytes): AuthRsp with the data intact,
    // for the challenge answering CONNECT and for the one answering the client's AUTH
    for (k, &n) in [0usize, 1, 100, 113, 114, 115, 116, 117, 127, 128, 150, 16_370, 16_384, 20_000, 65_000].iter().enumerate() {
        let id = format!("auth-challenge:{n}");
        idx += 1;
        if !rep.take(idx, &id) {
            continue;
        }
        let mut sim = Sim::new(rep.seed);
        sim.cmd(Cmd::Connect(ConnSpec { auth_method: Some("GSSAPI".into()), auth_data: Some(vec![1]), ..Default::default() }));
        sim.settle();
        let mut ok = true;
        for round in 0..2usize {
            let data: Vec<u8> = (0..n + round).map(|j| (j * 7 + k + round) as u8).collect();
            let mut props = vec![Prop::str(21, "GSSAPI"), Prop::bin(22, &data)];
            if round == 1 {
                props.push(Prop::str(31, "continue"));
                props.push(Prop::pair("step", "2"));
            }
            sim.feed_packet(&SPacket::Auth { reason: Some(0x18), props });
            sim.settle();
            let call = if round == 0 { "connect" } else { "authorize" };
            match sim.last_ctx_result(call) {
                Some(CtxOut::Conn(ConnOut::Auth(a))) if a.reason == 0x18 && a.data.as_deref() == Some(&data[..]) && a.method.as_deref() == Some("GSSAPI") => {}
                other => {
                    ok = false;
                    viol(rep, format!("C13/{call}-auth-challenge-result"), &id, format!("AUTH challenge (reason 0x18) with {} bytes of authentication data must make {call}() return AuthRsp with that data; got {:?}", data.len(), other.map(|o| brief_ctx(&o))), &sim);
                    break;
                }
            }
            sim.cmd(Cmd::Authorize(AuthSpec { reason: Some(0x18), method: Some("GSSAPI".into()), data: Some(vec![2, round as u8]), user_props: vec![] }));
            sim.settle();
        }
        if ok {
            sim.feed_packet(&SPacket::Connack { session_present: false, reason: 0, props: vec![Prop::str(21, "GSSAPI"), Prop::bin(22, &vec![9u8; n])] });
            sim.settle();
            if !matches!(sim.last_ctx_result("authorize"), Some(CtxOut::Conn(ConnOut::Connack(_)))) {
                viol(rep, "C13/authorize-wrong-result/connack-after-challenges".into(), &id, format!("CONNACK after two AUTH rounds: authorize() returned {:?}", sim.last_ctx_result("authorize").map(|o| brief_ctx(&o))), &sim);
            }
        }
        for p in sim.panics.clone() {
            viol(rep, format!("C13/panic/{p}"), &id, format!("panic: {p}"), &sim);
        }
        rep.add("evaluations", 1);
        rep.add("auth_challenge_sizes_checked", 1);
        rep.distinct(&("auth-challenge", n));
    }
    // a long CONNACK (remaining length needs 2 bytes) arriving in pieces must still give ConnectRsp
    {
        let long = "r".repeat(150);
        let connack = SPacket::Connack { session_present: false, reason: 0, props: vec![Prop::str(31, &long), Prop::u16(33, 7)] }.encode();
        for cut in 1..connack.len().min(12) {
            for mode in 0..2u8 {
                let id = format!("connack-split:{cut}:{mode}");
                idx += 1;
                if !rep.take(idx, &id) {
                    continue;
                }
                let mut sim = Sim::new(rep.seed);
                sim.cmd(Cmd::Connect(ConnSpec::default()));
                sim.settle();
                if mode == 0 {
                    sim.feed(&connack[..cut]);
                    sim.settle();
                    sim.feed(&connack[cut..]);
                } else {
                    sim.trickle = Some(cut);
                    sim.feed(&connack);
                }
                sim.settle();
                let got = sim.last_ctx_result("connect");
                let ok = matches!(&got, Some(CtxOut::Conn(ConnOut::Connack(c))) if c.reason_string.as_deref() == Some(long.as_str()) && c.receive_maximum == 7);
                if !ok {
                    viol(rep, format!("C13/connect-wrong-result/long-connack-in-pieces"), &id, format!("CONNACK of {} bytes delivered in pieces (cut {cut}, mode {mode}): connect() returned {:?}", connack.len(), got.map(|g| brief_ctx(&g))), &sim);
                }
                rep.add("evaluations", 1);
                rep.add("connect_outcomes_checked", 1);
                rep.distinct(&("connack-split", cut, mode));
            }
        }
    }
    // transport ends before / in the middle of the response
    let connack = SPacket::Connack { session_present: false, reason: 0, props: vec![Prop::u16(33, 10), Prop::str(18, "assigned")] }.encode();
    for call_auth in [false, true] {
        for cut in 0..connack.len() {
            for fault in 0..3u8 {
                let id = format!("connfault:auth{}:cut{cut}:f{fault}", call_auth as u8);
                idx += 1;
                if !rep.take(idx, &id) {
                    continue;
                }
                let mut sim = Sim::new(rep.seed);
                let mut spec = ConnSpec::default();
                if call_auth {
                    spec.auth_method = Some("m".into());
                    spec.auth_data = Some(vec![1]);
                }
                if fault == 2 {
                    // write error at offset `cut` of the request
                    sim.writer.0.borrow_mut().err_at = Some(cut.min(8));
                }
                sim.cmd(Cmd::Connect(spec));
                sim.settle();
                let mut call = "connect";
                if call_auth && fault != 2 {
                    sim.feed_packet(&SPacket::Auth { reason: Some(0x18), props: vec![Prop::str(21, "m"), Prop::bin(22, b"x")] });
                    sim.settle();
                    sim.cmd(Cmd::Authorize(AuthSpec { reason: Some(0x18), method: Some("m".into()), data: Some(vec![2]), user_props: vec![] }));
                    sim.settle();
                    call = "authorize";
                }
                if fault != 2 {
                    sim.feed(&connack[..cut]);
                    sim.settle();
                    if fault == 0 {
                        sim.set_eof();
                    } else {
                        sim.set_read_err();
                    }
                    sim.settle();
                }
                let got = sim.last_ctx_result(call);
                let ok = matches!(got, Some(CtxOut::Conn(ConnOut::Err(ErrSum::SocketClosed))));
                if !ok && sim.panics.is_empty() {
                    let f = ["eof", "read_error", "write_error"][fault as usize];
                    let sig = if got.is_none() { format!("C13/{call}-not-returned/cause={f}") } else { format!("C13/{call}-wrong-result/cause={f}") };
                    viol(rep, sig, &id, format!("transport ended ({f}) after {cut} bytes of the response: {call}() -> {:?}; expected SocketClosed", got), &sim);
                }
                for p in sim.panics.clone() {
                    viol(rep, format!("C13/panic/{p}"), &id, format!("panic: {p}"), &sim);
                }
                rep.add("evaluations", 1);
                rep.add("connect_faults_checked", 1);
                rep.distinct(&(call_auth, cut, fault));
            }
        }
    }
}

/// session states in which a terminating cause is injected
fn prepare(w: &mut World, state: u8) {
    match state {
        1 => {
            w.start(0, Kind::Pub1);
        }
        2 => {
            let i = w.start(0, Kind::Pub2);
            w.settle_check();
            w.deliver_ack(i, 1, 0, 0);
        }
        3 => {
            let i = w.start(0, Kind::Sub);
            w.settle_check();
            w.deliver_ack(i, 1, 0, 0);
            w.settle_check();
            w.take_stream(i);
            let sid = w.sub_id_of(i).unwrap_or(1);
            // (if the connection could not even be established there is no stream: the model has said so already)
            if let Some(s0) = w.sim.streams.get_mut(0) {
                s0.held = true;
            }
            w.in_publish(1, 5, false, &[sid], false);
            w.start(1, Kind::Sub);
        }
        4 => {
            w.start(0, Kind::Ping);
            w.start(1, Kind::Unsub);
        }
        _ => {}
    }
    w.settle_check();
}

pub fn run(rep: &mut Rep) {
    connect_phase(rep);
    // (b) every server DISCONNECT reason x form x property set x session state
    let mut idx = 1_000_000u64;
    for &reason in rc::DISCONNECT_REASONS_SERVER {
        for (form, props) in [(0u8, false), (1, false), (2, false), (2, true)] {
            if form == 0 && reason != 0 {
                continue;
            }
            for state in 0..5u8 {
                let id = format!("sdisc:r{reason:#x}:f{form}:p{}:s{state}", props as u8);
                idx += 1;
                if !rep.take(idx, &id) {
                    continue;
                }
                let mut w = World::boot(WorldCfg { seed: rep.seed, ..Default::default() });
                prepare(&mut w, state);
                w.server_disconnect(reason, form, props);
                w.settle_check();
                finish(&mut w);
                rep.add("evaluations", 1);
                rep.add("server_disconnects", 1);
                rep.distinct(&(reason, form, props, state));
                if harvest(rep, &mut w, &id) == 0 {
                    rep.sample(|| format!("{id} -> run() = {:?}", w.sim.run_result()));
                }
                add_counters(rep, &w);
            }
        }
    }
    // a long server DISCONNECT (150-byte reason string) delivered in pieces: run() must wait for all of it and report it
    for cut in 1..10usize {
        for mode in 0..2u8 {
            for state in [0u8, 2] {
                let id = format!("sdisc-long:{cut}:{mode}:s{state}");
                idx += 1;
                if !rep.take(idx, &id) {
                    continue;
                }
                let mut w = World::boot(WorldCfg { seed: rep.seed, ..Default::default() });
                prepare(&mut w, state);
                let long = "x".repeat(150);
                let pkt = SPacket::Disconnect { reason: 0x8b, props: vec![Prop::str(31, &long)], form: 2 }.encode();
                w.term = Some(Term::ServerDisconnect(ErrSum::Disconnected { reason: 0x8b, sei: 0, reason_string: Some(long.clone()), server_reference: None, user_props: vec![] }));
                w.sim.note(|| format!("deliver DISCONNECT(reason=0x8b, 150-byte reason string) in pieces: cut {cut} mode {mode}"));
                if mode == 0 {
                    w.sim.feed(&pkt[..cut]);
                    w.sim.settle();
                    // not yet complete: run() must still be pending
                    if w.sim.run_result().is_some() {
                        let r = w.sim.run_result();
                        w.viol(&["C13"], "C13/run-returned-on-partial-packet".into(), format!("run() returned {:?} after only {cut} of {} bytes of a server DISCONNECT", r, pkt.len()));
                    }
                    w.sim.feed(&pkt[cut..]);
                } else {
                    w.sim.trickle = Some(cut);
                    w.sim.feed(&pkt);
                    w.sim.trickle = None;
                }
                w.settle_check();
                finish(&mut w);
                rep.add("evaluations", 1);
                rep.add("server_disconnects", 1);
                rep.distinct(&("sdisc-long", cut, mode, state));
                harvest(rep, &mut w, &id);
                add_counters(rep, &w);
            }
        }
    }
    // other causes x session state, also with requests queued behind the cause
    for cause in [TermAct::UserDisconnect, TermAct::Eof, TermAct::ReadErr, TermAct::WriteErr, TermAct::Garbage, TermAct::DropHandles] {
        for state in 0..5u8 {
            for queued in [false, true] {
                let id = format!("cause:{cause:?}:s{state}:q{}", queued as u8);
                idx += 1;
                if !rep.take(idx, &id) {
                    continue;
                }
                let mut w = World::boot(WorldCfg { seed: rep.seed, ..Default::default() });
                prepare(&mut w, state);
                if cause == TermAct::DropHandles {
                    // every operation must have finished, otherwise its task still owns a handle clone
                    for (i, st) in w.ackable() {
                        w.deliver_ack(i, st, 0, 0);
                        w.settle_check();
                    }
                    while !w.pings_outstanding().is_empty() {
                        w.pingresp();
                        w.settle_check();
                    }
                    for (i, st) in w.ackable() {
                        w.deliver_ack(i, st, 0, 0);
                        w.settle_check();
                    }
                }
                if queued && cause != TermAct::DropHandles {
                    w.sim.hold_ctx = true;
                }
                apply(&mut w, Act::Term(cause));
                if queued && cause != TermAct::DropHandles {
                    // requests queued behind the cause
                    w.start(0, Kind::Pub0);
                    w.start(1, Kind::Pub1);
                    w.sim.hold_ctx = false;
                }
                w.settle_check();
                finish(&mut w);
                rep.add("evaluations", 1);
                rep.add("other_causes", 1);
                rep.distinct(&(format!("{cause:?}"), state, queued));
                if harvest(rep, &mut w, &id) == 0 {
                    rep.sample(|| format!("{id} -> run() = {:?}", w.sim.run_result()));
                }
                add_counters(rep, &w);
            }
        }
    }
    // requests whose future is dropped before the context gets to them: the user's DISCONNECT still ends run() with Ok(()),
    // any other abandoned request is not a terminating cause
    for kind in [Kind::Disc, Kind::Pub0, Kind::Pub1, Kind::Pub2, Kind::Sub, Kind::Unsub, Kind::Ping] {
        for state in 0..5u8 {
            for how in 0..2u8 {
                let id = format!("abandoned:{}:s{state}:h{how}", kind.name());
                idx += 1;
                if !rep.take(idx, &id) {
                    continue;
                }
                let mut w = World::boot(WorldCfg { seed: rep.seed, ..Default::default() });
                prepare(&mut w, state);
                if how == 0 {
                    w.sim.hold_ctx = true;
                } else {
                    w.sim.stall_writer();
                }
                let i = w.start(0, kind);
                if kind == Kind::Disc && w.term.is_none() {
                    w.term = Some(Term::UserDisconnect);
                }
                w.settle_check();
                w.drop_op(i);
                if how == 0 {
                    w.sim.hold_ctx = false;
                } else {
                    w.sim.release_writer();
                }
                w.settle_check();
                // a second look: nothing terminating happened (or: the DISCONNECT went out)
                w.settle_check();
                finish(&mut w);
                rep.add("evaluations", 1);
                rep.add("abandoned_requests", 1);
                rep.distinct(&("abandoned", kind.name(), state, how));
                if harvest(rep, &mut w, &id) == 0 {
                    rep.sample(|| format!("{id} -> run() = {:?}", w.sim.run_result()));
                }
                add_counters(rep, &w);
            }
        }
    }
    // (c) cause injected after every prefix of bounded scripts (enumerated), including "no cause: run() keeps running"
    let a = Alpha {
        kinds: vec![Kind::Pub1, Kind::Pub2, Kind::Sub],
        max_ops: 2,
        max_conc: 2,
        pub_ack_variants: vec![(0, 0), (2, 1)],
        sub_ack_variants: vec![(0, 0)],
        terms: vec![
            TermAct::UserDisconnect,
            TermAct::ServerDisconnect { reason: 0, form: 0, props: false },
            TermAct::ServerDisconnect { reason: 0x8b, form: 2, props: true },
            TermAct::Eof,
            TermAct::ReadErr,
            TermAct::WriteErr,
            TermAct::Garbage,
        ],
        after_term: true,
        race: true,
        drops: true,
        ..Default::default()
    };
    // handle clones coming and going are no cause as long as one clone is left; the last one going is
    let mut ah = a.clone();
    ah.kinds = vec![Kind::Pub1, Kind::Ping];
    ah.terms = vec![TermAct::DropHandles, TermAct::UserDisconnect, TermAct::Eof];
    ah.handle_churn = true;
    ah.race = false;
    ah.drops = false;
    ah.after_term = false;
    {
        let seed = rep.seed;
        let dh = if rep.quick() { 5 } else { 7 };
        rep.note("handle clones: exhaustive paths over {clone a handle, drop any clone but the last, start pub1 / ping, acknowledge, drop all handles, user DISCONNECT, EOF}: run() returns HandleClosed exactly when the last clone (and every pending operation holding one) is gone");
        explore_world(rep, "exhh", dh, &move || World::boot(WorldCfg { seed, ..Default::default() }), &ah);
    }
    let depth = if rep.quick() { 5 } else { 8 };
    rep.note(&format!("connect/authorize: all 22 CONNACK reasons x property sets, AUTH challenge, EOF / read error after every prefix of the response, write error; run(): all 28 server DISCONNECT reasons x 3 forms x properties x 5 session states; causes {{user DISCONNECT, EOF, read error, write error, undecodable input, all handles dropped}} x 5 states x with/without requests queued behind the cause; exhaustive paths of <= {depth} actions with the cause injected at every point and the context optionally held so that requests queue behind it"));
    let seed = rep.seed;
    explore_world(rep, "exh", depth, &move || World::boot(WorldCfg { seed, ..Default::default() }), &a);
    // (c2) a request refused locally is not a terminating cause: with a Maximum Packet Size announced, an oversized
    //      DISCONNECT (reason string / user properties) or publish is refused and run() keeps serving
    rep.note("refused requests: CONNACK with Maximum Packet Size 3 / 8 / 16 / 40, the user's DISCONNECT with a reason string or user properties (or a publish / subscribe) exceeding it is refused with MaximumPacketSizeExceeded: run() stays pending, a ping completes, and a fitting DISCONNECT then ends run() with Ok(())");
    let mut ridx = 55_000_000u64;
    for m in [3u32, 8, 16, 40] {
        for what in 0..4u8 {
            let id = format!("refused:{m}:{what}");
            ridx += 1;
            if !rep.take(ridx, &id) {
                continue;
            }
            let mut sim = crate::sim::Sim::new(rep.seed);
            sim.cmd(crate::sim::Cmd::Connect(crate::spec::ConnSpec::default()));
            sim.settle();
            sim.feed_packet(&crate::refcodec::SPacket::Connack { session_present: false, reason: 0, props: vec![crate::refcodec::Prop::u32(39, m)] });
            sim.settle();
            sim.cmd(crate::sim::Cmd::Run);
            sim.settle();
            let spec = match what {
                0 => crate::spec::OpSpec::Disconnect(crate::spec::DiscSpec { reason: Some(0x04), sei: None, reason_string: Some("going down for maintenance, back soon".into()), user_props: vec![] }),
                1 => crate::spec::OpSpec::Disconnect(crate::spec::DiscSpec { reason: None, sei: Some(7), reason_string: None, user_props: vec![("key".into(), "v".repeat(40))] }),
                2 => crate::spec::OpSpec::Publish(crate::spec::PubSpec::simple(0, "topic/long/enough", &[7u8; 60])),
                _ => crate::spec::OpSpec::Subscribe(crate::spec::SubSpec::simple("a/rather/long/topic/filter/exceeding/the/limit")),
            };
            let w0 = sim.written_len();
            let op = sim.start_op(0, spec);
            sim.settle();
            rep.add("evaluations", 1);
            rep.add("refused_request_cases", 1);
            rep.distinct(&("refused", m, what));
            let refused = matches!(sim.ops[op].out.as_ref().and_then(|o| o.err()), Some(crate::spec::ErrSum::MaximumPacketSizeExceeded));
            let mut bad = false;
            for p in sim.panics.clone() {
                rep.violation(&format!("C13/panic/{p}"), &id, &format!("{p}\n{}", sim.tail_log(20)));
                bad = true;
            }
            if refused && sim.written_len() == w0 {
                if let Some(r) = sim.run_result() {
                    rep.violation(&format!("C13/run-returned-without-cause/refused-request/{}", match &r { Ok(()) => "Ok".to_string(), Err(e) => e.kind().to_string() }), &id, &format!("a request refused with MaximumPacketSizeExceeded (nothing written) made run() return {:?}\n{}", r, sim.tail_log(20)));
                    bad = true;
                } else {
                    // still serving: a ping round trip (if a PINGREQ fits), then the real DISCONNECT (if it fits)
                    if m >= 2 {
                        let p = sim.start_op(0, crate::spec::OpSpec::Ping);
                        sim.settle();
                        sim.feed_packet(&crate::refcodec::SPacket::Pingresp);
                        sim.settle();
                        if !sim.ops[p].out.as_ref().map(|o| o.is_ok()).unwrap_or(false) || sim.run_result().is_some() {
                            rep.violation("C13/not-serving-after-refused-request", &id, &format!("ping after the refused request: {:?}, run() = {:?}\n{}", sim.ops[p].out.as_ref().map(|o| o.brief()), sim.run_result(), sim.tail_log(20)));
                            bad = true;
                        }
                    }
                    if m >= 4 && !bad {
                        let d = sim.start_op(0, crate::spec::OpSpec::Disconnect(crate::spec::DiscSpec::default()));
                        sim.settle();
                        if sim.run_result() != Some(Ok(())) || !sim.ops[d].out.as_ref().map(|o| o.is_ok()).unwrap_or(false) {
                            rep.violation("C13/run-wrong-result/cause=user_disconnect/after-refused-request", &id, &format!("fitting DISCONNECT after a refused one: disconnect() = {:?}, run() = {:?}\n{}", sim.ops[d].out.as_ref().map(|o| o.brief()), sim.run_result(), sim.tail_log(20)));
                            bad = true;
                        }
                    }
                }
                rep.add("terminations_checked", 1);
            }
            if !bad {
                rep.sample(|| format!("{id}: refused = {refused}, run() kept serving"));
            }
        }
    }
    // (c3) conformant inbound traffic is no cause either: every sequence of up to 2 (thorough: 3) packets over the
    //      38-symbol alphabet of C08 (PUBLISH of every QoS / DUP / subscription-identifier situation for two packet
    //      identifiers, PUBREL) - re-deliveries, repeated releases, releases of unknown identifiers included
    {
        let alpha = super::c08::alphabet(&[1, 2]);
        let len = if rep.quick() { 2 } else { 3 };
        let n = alpha.len() as u64;
        let total = n.pow(len);
        rep.note(&format!("inbound traffic: all {total} sequences of {len} inbound packets over {n} symbols (PUBLISH QoS 0/1/2 x id 1/2 x DUP x subscription identifier registered / stream dropped / unknown / absent; PUBREL): run() stays pending and a ping completes afterwards"));
        let mut iidx = 58_000_000u64;
        for k in 0..total {
            let id = format!("inbound:{len}:{k}");
            iidx += 1;
            if !rep.take(iidx, &id) {
                continue;
            }
            let mut st = super::c08::setup(rep.seed);
            let mut kk = k;
            for _ in 0..len {
                super::c08::apply(&mut st, alpha[(kk % n) as usize]);
                kk /= n;
                st.w.settle_check();
            }
            let p = st.w.start(0, Kind::Ping);
            st.w.settle_check();
            st.w.pingresp();
            st.w.settle_check();
            if st.w.sim.ops[p].out.is_none() && st.w.viols.is_empty() {
                let r = st.w.sim.run_result();
                st.w.viol(&["C13"], "C13/not-serving-after-inbound-traffic".into(), format!("a ping after conformant inbound traffic does not complete; run() = {:?}", r));
            }
            finish(&mut st.w);
            rep.add("evaluations", 1);
            rep.add("inbound_traffic_sequences", 1);
            rep.distinct(&("inbound", len, k));
            harvest(rep, &mut st.w, &id);
            add_counters(rep, &st.w);
        }
    }
    // (d) the same Context on a second (and third) connection: every way the first one ended x every way of connecting
    // again: run() must keep serving until a cause occurs on *that* connection, and then report that cause
    let causes = [
        TermAct::UserDisconnect,
        TermAct::ServerDisconnect { reason: 0, form: 0, props: false },
        TermAct::ServerDisconnect { reason: 0x8b, form: 2, props: true },
        TermAct::Eof,
        TermAct::ReadErr,
        TermAct::WriteErr,
        TermAct::Garbage,
    ];
    rep.note(&format!("second connection: {} causes ending the first connection x 5 ways of connecting the same Context again (session resumed / resumed with Receive Maximum 2 / expired / no disconnection recorded / resumed under a Maximum Packet Size smaller than what is re-sent) x {} causes on the second connection (and 'none': run() pending at quiescence, a ping and a QoS 1 publish complete) - also with a QoS 1 publish left unfinished by the first connection; then a third connection", causes.len(), causes.len()));
    let mut didx = 60_000_000u64;
    for (c1, cause1) in causes.iter().enumerate() {
        for mode in 0..5u8 {
            for c2 in 0..=causes.len() {
                for unfinished in [false, true] {
                    if mode == 3 && unfinished {
                        continue;
                    }
                    if mode == 4 && c2 < causes.len() && matches!(causes[c2], TermAct::WriteErr) {
                        // (the write error is provoked by a QoS 0 publish, which the 8-byte limit of mode 4 refuses)
                        continue;
                    }
                    let id = format!("second:{c1}:{mode}:{c2}:{}", unfinished as u8);
                    didx += 1;
                    if !rep.take(didx, &id) {
                        continue;
                    }
                    let mut w = World::boot(WorldCfg { seed: rep.seed, sei: if mode == 2 { None } else { Some(3600) }, ..Default::default() });
                    if unfinished {
                        w.start(0, Kind::Pub1);
                        w.settle_check();
                    }
                    // in every second case the first connection ends with the head of a packet (1-3 bytes) received but not
                    // complete: nothing of it may survive into the next connection
                    let partial = (c1 + mode as usize + c2) % 2 == 1 && matches!(cause1, TermAct::UserDisconnect | TermAct::Eof | TermAct::ReadErr | TermAct::WriteErr);
                    if partial {
                        let head = [0x30u8, 0x8a, 0x01];
                        let n = 1 + (c1 + c2) % 3;
                        w.sim.note(|| format!("deliver the first {n} bytes of a PUBLISH"));
                        w.sim.feed(&head[..n]);
                        w.sim.settle();
                        rep.add("first_connection_ended_inside_a_packet", 1);
                    }
                    apply(&mut w, Act::Term(*cause1));
                    w.settle_check();
                    w.settle_check();
                    if !can_reconnect(&w) {
                        // (e.g. the write error's own probe is still pending) - nothing to continue with
                        finish(&mut w);
                        harvest(rep, &mut w, &id);
                        continue;
                    }
                    apply(&mut w, Act::Reconnect(mode));
                    w.settle_check();
                    if !w.blind {
                        // no cause on this connection: run() is serving
                        let p = w.start(0, Kind::Ping);
                        w.settle_check();
                        w.pingresp();
                        w.settle_check();
                        if mode != 4 {
                            // (under the 8-byte Maximum Packet Size of mode 4 a new publish would rightly be refused)
                            let q = w.start(1, Kind::Pub1);
                            w.settle_check();
                            if w.m[q].req_wire.is_some() {
                                w.deliver_ack(q, 1, 0, 0);
                                w.settle_check();
                            }
                        }
                        let _ = p;
                        if w.sim.run_result().is_some() && w.term.is_none() {
                            let r = w.sim.run_result();
                            w.viol(&["C13"], "C13/run-returned-without-cause/second-connection".into(), format!("run() on the second connection returned {:?} although nothing terminating happened on it", r));
                        }
                        if c2 < causes.len() {
                            apply(&mut w, Act::Term(causes[c2]));
                            w.settle_check();
                            w.settle_check();
                            if can_reconnect(&w) {
                                apply(&mut w, Act::Reconnect((mode + 1) % 3));
                                // (from the third connection on there is no Maximum Packet Size any more)
                                w.settle_check();
                                if !w.blind {
                                    let p3 = w.start(0, Kind::Ping);
                                    w.settle_check();
                                    w.pingresp();
                                    w.settle_check();
                                    let _ = p3;
                                }
                            }
                        }
                    }
                    finish(&mut w);
                    rep.add("evaluations", 1);
                    rep.add("second_connection_cases", 1);
                    rep.add("reconnections", w.reconnects as i64);
                    rep.distinct(&("second", c1, mode, c2, unfinished));
                    // on later connections everything observed about run()'s outcome is C13's business
                    for v in w.viols.iter_mut() {
                        if v.sig.starts_with("run-returned-without-cause") && !v.props.contains(&"C13") {
                            v.props = &["C13"];
                        }
                        if v.sig.starts_with("C17/reconnect-failed") {
                            v.sig = "C13/connect-wrong-result/second-connection".into();
                            v.props = &["C13"];
                        }
                    }
                    if harvest(rep, &mut w, &id) == 0 {
                        rep.sample(|| format!("{id}: first connection ended by {:?}, reconnect mode {mode}, second by {:?}: outcomes as documented", cause1, causes.get(c2)));
                    }
                    add_counters(rep, &w);
                }
            }
        }
    }
}
