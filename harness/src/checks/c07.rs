//! C07 — inbound messages reach exactly their subscription's stream(s), in order, intact.

use super::script::*;
use super::{explore_world, walk_world};
use crate::report::Rep;
use crate::world::*;

pub fn run(rep: &mut Rep) {
    super::c09::shared_identifiers(rep, 8_800_000, "C07");
    super::c09::repeated_identifiers(rep, 8_900_000, "C07");
    let mut inbound = Vec::new();
    for sub in [SubSel::Op(0), SubSel::Op(1), SubSel::Never, SubSel::Absent, SubSel::Both, SubSel::Repeat] {
        inbound.push((0u8, 0u16, false, sub));
        inbound.push((1, 1, false, sub));
        inbound.push((2, 2, false, sub));
    }
    let a = Alpha {
        kinds: vec![Kind::Sub, Kind::Unsub],
        max_ops: 3,
        max_conc: 3,
        sub_ack_variants: vec![(0, 0)],
        inbound,
        pubrels: vec![2],
        max_inbound: if rep.quick() { 2 } else { 3 },
        streams: true,
        stream_holds: true,
        drops: true,
        ..Default::default()
    };
    let depth = if rep.quick() { 6 } else { 7 };
    rep.note(&format!(
        "exhaustive: every path of <= {depth} actions over {{subscribe (<=2) / unsubscribe, SUBACK/UNSUBACK, inbound PUBLISH QoS 0/1/2 carrying the subscription identifier of stream A, of stream B, of both, of A-B-A (one identifier carried twice), a never-registered one or none (<= {} per path, including before SUBACK and before stream() is called), PUBREL, take stream, hold (lagging) / release stream, drop stream or response, cancel the subscribe future}}; every stream's item sequence compared with the model at every quiescent point",
        a.max_inbound
    ));
    for (k, ids) in [(0u64, None), (1, Some((300u16, 127u32))), (2, Some((65535u16, 16383u32))), (3, Some((1u16, 2097151u32)))] {
        let seed = rep.seed;
        let d = if k == 0 { depth } else { depth - 1 };
        explore_world(rep, &format!("exh{k}"), d, &move || World::boot(WorldCfg { seed, seed_ids: ids, ..Default::default() }), &a);
    }
    // a lagging stream with a large backlog (before SUBACK / before stream() / taken but not polled)
    let backlogs: Vec<usize> = if rep.quick() { vec![1026, 3000] } else { vec![1023, 1024, 1025, 1026, 1027, 2048, 4097, 10000, 70000] };
    rep.note(&format!("backlog: {:?} messages routed to one stream while it is not polled (x 3 moments: before SUBACK, before stream(), stream taken but idle), a second stream keeps being read", backlogs));
    let mut bidx = 50_000_000u64;
    for &n in &backlogs {
        for when in 0..3u8 {
            let id = format!("backlog:{n}:{when}");
            bidx += 1;
            if !rep.take(bidx, &id) {
                continue;
            }
            let mut w = World::boot(WorldCfg { seed: rep.seed, ..Default::default() });
            w.sim.log_enabled = false;
            let a_op = w.start(0, Kind::Sub);
            let b_op = w.start(1, Kind::Sub);
            w.settle_check();
            w.deliver_ack(b_op, 1, 0, 0);
            w.settle_check();
            w.take_stream(b_op);
            if when >= 1 {
                w.deliver_ack(a_op, 1, 0, 0);
                w.settle_check();
            }
            if when == 2 {
                w.take_stream(a_op);
                let s = w.m[a_op].stream.unwrap();
                w.sim.streams[s].held = true;
            }
            let (sa, sb) = (w.sub_id_of(a_op).unwrap_or(1), w.sub_id_of(b_op).unwrap_or(2));
            w.light = true;
            for k in 0..n {
                let q = (k % 3) as u8;
                let both = [sa, sb];
                let one = [sa];
                w.in_publish(q, 1 + (k % 60000) as u16, false, if k % 5 == 0 { &both[..] } else { &one[..] }, false);
                if q == 2 {
                    w.in_pubrel(1 + (k % 60000) as u16);
                }
                if k % 64 == 0 {
                    w.settle();
                }
            }
            w.light = false;
            w.settle_check();
            if when == 0 {
                w.deliver_ack(a_op, 1, 0, 0);
                w.settle_check();
            }
            if when <= 1 {
                w.take_stream(a_op);
            } else {
                let s = w.m[a_op].stream.unwrap();
                w.sim.streams[s].held = false;
                std::task::Wake::wake_by_ref(&w.sim.streams[s].w);
            }
            w.settle_check();
            // the stream is still attached: one more message must arrive
            w.in_publish(0, 0, false, &[sa], false);
            w.settle_check();
            finish(&mut w);
            rep.add("evaluations", 1);
            rep.add("backlog_cases", 1);
            rep.add("backlog_messages", n as i64);
            rep.distinct(&("backlog", n, when));
            if super::harvest(rep, &mut w, &id) == 0 {
                rep.sample(|| format!("{id}: {n} messages buffered for an idle stream, all yielded in order afterwards"));
            }
            super::add_counters(rep, &w);
        }
    }
    // the acknowledgement of an inbound PUBLISH cannot be written (transport write error): the message was received and
    // belongs to its stream all the same; after the session is resumed the broker re-delivers it (DUP=1) - a QoS 2
    // message must have been yielded exactly once in total
    rep.note("acknowledgement write failure: inbound QoS 1/2 PUBLISH (alone, or behind 1-2 earlier messages) whose PUBACK/PUBREC write fails, run() ends, the session is resumed, the broker re-delivers with DUP=1 (and releases): stream contents compared with the model across both connections");
    for qos in [1u8, 2] {
        for before in 0..3usize {
            for sel in 0..3u8 {
                let id = format!("ackfail:{qos}:{before}:{sel}");
                bidx += 1;
                if !rep.take(bidx, &id) {
                    continue;
                }
                let mut w = World::boot(WorldCfg { seed: rep.seed, sei: Some(3600), ..Default::default() });
                let s0 = w.start(0, Kind::Sub);
                let s1 = w.start(1, Kind::Sub);
                w.settle_check();
                w.deliver_ack(s0, 1, 0, 0);
                w.deliver_ack(s1, 1, 0, 0);
                w.settle_check();
                w.take_stream(s0);
                w.take_stream(s1);
                let sid0 = w.sub_id_of(s0).unwrap_or(1);
                let sid1 = w.sub_id_of(s1).unwrap_or(2);
                for j in 0..before {
                    w.in_publish((j % 2) as u8, 20 + j as u16, false, &[sid0], false);
                    w.settle_check();
                }
                let at = w.sim.written_len();
                w.sim.writer.0.borrow_mut().err_at = Some(at);
                w.sim.note(|| format!("transport: writes fail from offset {at}"));
                w.term = Some(Term::WriteErr);
                let ids: Vec<u32> = if sel != 1 { vec![sid0] } else { vec![sid0, sid1] };
                w.in_publish(qos, 5, false, &ids, false);
                w.settle_check();
                let resumed = w.resume(1, Some(3600), false);
                w.settle_check();
                if resumed && !w.blind {
                    w.expected_acks.clear();
                    if sel == 2 {
                        // the first message on the new connection is for the other subscription only
                        w.in_publish(0, 0, false, &[sid1], false);
                        w.settle_check();
                        w.in_publish(1, 30, false, &[sid1], false);
                        w.settle_check();
                    }
                    w.in_publish(qos, 5, true, &ids, false);
                    w.settle_check();
                    if qos == 2 {
                        w.in_pubrel(5);
                        w.settle_check();
                    }
                    w.in_publish(0, 0, false, &[sid0], false);
                    w.settle_check();
                }
                finish(&mut w);
                rep.add("evaluations", 1);
                rep.add("ack_write_failure_cases", 1);
                rep.distinct(&("ackfail", qos, before, sel));
                if super::harvest(rep, &mut w, &id) == 0 {
                    rep.sample(|| format!("{id}: message kept for its stream although its acknowledgement could not be written; {} items compared", w.counters.stream_items_checked));
                }
                super::add_counters(rep, &w);
            }
        }
    }
    // a new session after the old one expired: identifiers of the old session's unfinished inbound QoS 2 exchanges mean
    // nothing any more - a message of the new session that happens to reuse one is a new message for its (new) stream
    rep.note("expired session: 1-3 inbound QoS 2 messages left unreleased, connection lost, the session has expired when the Context is connected again (interval 0, or elapsed), the application subscribes again and the broker's new session reuses the same packet identifiers (DUP=0): each message reaches the new stream exactly once; the old streams get nothing further");
    for unreleased in 1..=3u16 {
        for (vi, (sei, ago)) in [(None, 1u64), (Some(0u32), 1), (Some(100), 1000), (Some(5), 60)].iter().enumerate() {
            for released_first in [false, true] {
                let id = format!("expired:{unreleased}:{vi}:{}", released_first as u8);
                bidx += 1;
                if !rep.take(bidx, &id) {
                    continue;
                }
                let mut w = World::boot(WorldCfg { seed: rep.seed, sei: *sei, ..Default::default() });
                let s0 = w.start(0, Kind::Sub);
                w.settle_check();
                w.deliver_ack(s0, 1, 0, 0);
                w.settle_check();
                w.take_stream(s0);
                let sid0 = w.sub_id_of(s0).unwrap_or(1);
                if released_first {
                    w.in_publish(2, 1, false, &[sid0], false);
                    w.settle_check();
                    w.in_pubrel(1);
                    w.settle_check();
                }
                for p in 1..=unreleased {
                    w.in_publish(2, p, false, &[sid0], false);
                    w.settle_check();
                }
                w.eof();
                w.settle_check();
                w.resume_full(ResumeOpts { secs_ago: *ago, sei: *sei, expect_expired: true, ..Default::default() });
                w.settle_check();
                if !w.blind {
                    let s1 = w.start(0, Kind::Sub);
                    w.settle_check();
                    if w.m[s1].pkt_id.is_some() {
                        w.deliver_ack(s1, 1, 0, 0);
                        w.settle_check();
                        w.take_stream(s1);
                        let sid1 = w.sub_id_of(s1).unwrap_or(2);
                        for p in 1..=unreleased + 1 {
                            w.in_publish(2, p, false, &[sid1], false);
                            w.settle_check();
                        }
                        for p in 1..=unreleased + 1 {
                            w.in_pubrel(p);
                            w.settle_check();
                        }
                        // the old stream's identifier is unknown to the new session
                        w.in_publish(1, 9, false, &[sid0], false);
                        w.settle_check();
                    }
                }
                finish(&mut w);
                rep.add("evaluations", 1);
                rep.add("expired_session_cases", 1);
                rep.distinct(&("expired", unreleased, vi, released_first));
                if super::harvest(rep, &mut w, &id) == 0 {
                    rep.sample(|| format!("{id}: {} items compared across the two sessions", w.counters.stream_items_checked));
                }
                super::add_counters(rep, &w);
            }
        }
    }
    // one subscribe() with several topic filters, some granted and some refused by the broker: the stream lives on and
    // receives everything carrying its identifier
    rep.note("partially refused subscription: subscribe() with three topic filters, SUBACK reason codes rotating through granted QoS 0/1/2 and every refusal code in every position; messages before the SUBACK, before stream() and after it: all reach the stream, which does not end");
    for ridx in 0..12usize {
        for when in 0..2u8 {
            let id = format!("partial:{ridx}:{when}");
            bidx += 1;
            if !rep.take(bidx, &id) {
                continue;
            }
            let mut w = World::boot(WorldCfg { seed: rep.seed, ..Default::default() });
            w.multi_filter = true;
            let s0 = w.start(0, Kind::Ping);
            w.settle_check();
            w.pingresp();
            w.settle_check();
            let _ = s0;
            // operation number 1: three filters
            let s = w.start(1, Kind::Sub);
            w.settle_check();
            let sid = w.sub_id_of(s).unwrap_or(1);
            w.in_publish(0, 0, false, &[sid], false);
            w.settle_check();
            w.deliver_ack(s, 1, ridx, (ridx % 2) as u8);
            w.settle_check();
            if when == 0 {
                w.in_publish(1, 3, false, &[sid], false);
                w.settle_check();
            }
            w.take_stream(s);
            w.settle_check();
            for q in 0..3u8 {
                w.in_publish(q, 10 + q as u16, false, &[sid], false);
                w.settle_check();
            }
            finish(&mut w);
            rep.add("evaluations", 1);
            rep.add("partially_refused_subscription_cases", 1);
            rep.distinct(&("partial", ridx, when));
            if super::harvest(rep, &mut w, &id) == 0 {
                rep.sample(|| format!("{id}: SUBACK {:?}: {} items reached the stream", w.sim.ops[s].out.as_ref().map(|o| o.brief()), w.counters.stream_items_checked));
            }
            super::add_counters(rep, &w);
        }
    }
    // several inbound QoS 2 exchanges open at once whose identifiers arrive in no particular numeric order, released in
    // another order, identifiers reused at once
    rep.note("QoS 2 identifiers in arbitrary order: 2-4 exchanges open at once with identifiers such as (7,2), (65535,1), (300,44,1000), (9,8,7,6); each re-delivered (DUP=1) before its release, released in every rotation, identifiers reused for new messages: every message on its stream exactly once");
    let idsets: [&[u16]; 6] = [&[7, 2], &[65535, 1], &[300, 44, 1000], &[9, 8, 7, 6], &[2, 7], &[0x0105, 0x0005, 0x0205]];
    for (si, ids) in idsets.iter().enumerate() {
        for rot in 0..ids.len() {
            let id = format!("q2order:{si}:{rot}");
            bidx += 1;
            if !rep.take(bidx, &id) {
                continue;
            }
            let mut w = World::boot(WorldCfg { seed: rep.seed, ..Default::default() });
            let a = w.start(0, Kind::Sub);
            w.settle_check();
            w.deliver_ack(a, 1, 0, 0);
            w.settle_check();
            w.take_stream(a);
            let sid = w.sub_id_of(a).unwrap_or(1);
            for round in 0..2 {
                for &p in ids.iter() {
                    w.in_publish(2, p, false, &[sid], false);
                    w.settle_check();
                }
                for &p in ids.iter() {
                    w.in_publish(2, p, true, &[sid], false);
                    w.settle_check();
                }
                for k in 0..ids.len() {
                    let p = ids[(k + rot + round) % ids.len()];
                    w.in_pubrel(p);
                    w.settle_check();
                    // the identifier is free again: the broker may use it for a new message at once
                    w.in_publish(2, p, false, &[sid], false);
                    w.settle_check();
                    w.in_pubrel(p);
                    w.settle_check();
                }
            }
            finish(&mut w);
            rep.add("evaluations", 1);
            rep.add("qos2_identifier_order_cases", 1);
            rep.distinct(&("q2order", si, rot));
            if super::harvest(rep, &mut w, &id) == 0 {
                rep.sample(|| format!("{id}: {} items compared", w.counters.stream_items_checked));
            }
            super::add_counters(rep, &w);
        }
    }
    // rolling subscriptions: streams come and go for a long time (the client's table of registrations is appended to at
    // the back and pruned at the front and in the middle)
    rep.note("rolling subscriptions: K in {1,2,3,4,5,8} live streams for 40 rounds; each round the oldest (or a PRNG-chosen) stream is dropped, the broker sends a late PUBLISH for it, the application subscribes again, and one message per live stream (plus one carrying two identifiers) must reach exactly its stream");
    for (ki, k) in [1usize, 2, 3, 4, 5, 8].iter().enumerate() {
        for variant in 0..2u64 {
            let id = format!("rolling:{k}:{variant}");
            bidx += 1;
            if !rep.take(bidx, &id) {
                continue;
            }
            let mut rng = crate::sim::Rng::new(rep.seed.wrapping_mul(577).wrapping_add(ki as u64 * 2 + variant));
            let mut w = World::boot(WorldCfg { seed: rep.seed.wrapping_add(ki as u64), ..Default::default() });
            w.sim.log_enabled = true;
            let mut live: Vec<usize> = Vec::new();
            let mut qid = 1u16;
            let subscribe = |w: &mut World, live: &mut Vec<usize>| {
                let i = w.start(live.len() % 2, Kind::Sub);
                w.settle_check();
                if w.m[i].pkt_id.is_some() {
                    w.deliver_ack(i, 1, 0, 0);
                    w.settle_check();
                    w.take_stream(i);
                    live.push(i);
                }
            };
            for _ in 0..*k {
                subscribe(&mut w, &mut live);
            }
            for round in 0..40usize {
                if w.blind || live.is_empty() {
                    break;
                }
                let victim = if variant == 0 { 0 } else { rng.below(live.len()) };
                let gone = live.remove(victim);
                let gone_sid = w.m[gone].sub_id.unwrap_or(1);
                w.drop_stream(gone);
                w.settle_check();
                // late message for the dropped stream: the client notices the stream is gone
                w.in_publish((round % 3) as u8, qid, false, &[gone_sid], false);
                if round % 3 == 2 {
                    w.in_pubrel(qid);
                }
                qid = qid % 60000 + 1;
                w.settle_check();
                subscribe(&mut w, &mut live);
                for (j, &i) in live.clone().iter().enumerate() {
                    let sid = w.m[i].sub_id.unwrap_or(1);
                    let q = ((round + j) % 3) as u8;
                    w.in_publish(q, qid, false, &[sid], false);
                    if q == 2 {
                        w.in_pubrel(qid);
                    }
                    qid = qid % 60000 + 1;
                    w.settle_check();
                }
                if live.len() >= 2 {
                    let (a, b) = (w.m[live[0]].sub_id.unwrap_or(1), w.m[live[live.len() - 1]].sub_id.unwrap_or(2));
                    w.in_publish(0, 0, false, &[a, b], false);
                    w.settle_check();
                }
            }
            finish(&mut w);
            rep.add("evaluations", 1);
            rep.add("rolling_subscription_cases", 1);
            rep.distinct(&("rolling", k, variant));
            if super::harvest(rep, &mut w, &id) == 0 {
                rep.sample(|| format!("{id}: 40 rounds, {} stream items compared", w.counters.stream_items_checked));
            }
            super::add_counters(rep, &w);
        }
    }
    // many subscriptions: N streams, messages for PRNG-chosen subsets (1-3 identifiers per PUBLISH), a third of the streams dropped midway
    let counts: Vec<usize> = if rep.quick() { vec![17, 40, 130] } else { vec![15, 16, 17, 31, 33, 64, 65, 127, 129, 257, 600] };
    rep.note(&format!("many subscriptions: {:?} subscribe() calls with live streams, 300 messages each carrying 1-3 of their identifiers, a third of the streams dropped midway", counts));
    for (ci, &n) in counts.iter().enumerate() {
        let id = format!("many:{n}");
        bidx += 1;
        if !rep.take(bidx, &id) {
            continue;
        }
        let mut rng = crate::sim::Rng::new(rep.seed.wrapping_mul(191).wrapping_add(ci as u64));
        let mut w = World::boot(WorldCfg { seed: rep.seed, seed_ids: Some((1, [1u32, 120, 16300][ci % 3])), ..Default::default() });
        w.sim.log_enabled = false;
        let mut subs = Vec::new();
        for _ in 0..n {
            let i = w.start(0, Kind::Sub);
            w.settle();
            subs.push(i);
        }
        w.settle_check();
        for &i in &subs {
            w.deliver_ack(i, 1, 0, 0);
            w.settle();
            w.take_stream(i);
        }
        w.settle_check();
        for k in 0..300usize {
            if k == 150 {
                for (j, &i) in subs.iter().enumerate() {
                    if j % 3 == 0 {
                        w.drop_stream(i);
                    }
                }
            }
            let cnt = 1 + rng.below(3);
            let ids: Vec<u32> = (0..cnt).map(|_| w.m[subs[rng.below(n)]].sub_id.unwrap_or(1)).collect();
            w.in_publish((k % 3) as u8, 1 + (k % 50) as u16, false, &ids, false);
            if k % 3 == 2 {
                w.in_pubrel(1 + (k % 50) as u16);
            }
            w.settle_check();
            if w.blind {
                break;
            }
        }
        finish(&mut w);
        rep.add("evaluations", 1);
        rep.add("many_subscription_cases", 1);
        rep.max("max_subscriptions", n as i64);
        rep.distinct(&("many", n));
        if super::harvest(rep, &mut w, &id) == 0 {
            rep.sample(|| format!("{id}: {n} streams, 300 messages routed, {} items compared", w.counters.stream_items_checked));
        }
        super::add_counters(rep, &w);
    }
    // messages of every size class up to the four-byte remaining length, for two subscriptions at once, under whole and small reads
    {
        let sizes: Vec<usize> = if rep.quick() { vec![0, 127, 128, 16_383, 16_384, 70_000, 2_097_100, 2_097_152, 2_100_000] } else { vec![0, 1, 126, 127, 128, 129, 16_380, 16_383, 16_384, 16_390, 70_000, 300_000, 2_097_100, 2_097_140, 2_097_152, 2_100_000, 9_000_000] };
        rep.note(&format!("messages of every size class: payloads of {:?} bytes (QoS 0/1/2) carrying the identifiers of two subscriptions, read whole / in 4096-byte / 700-byte reads: both streams yield the message intact, a small message behind it too", sizes));
        let mut sidx = 64_000_000u64;
        for (si, &sz) in sizes.iter().enumerate() {
            for (ci, cap) in [usize::MAX, 4096, 700].into_iter().enumerate() {
                let id = format!("size-class:{sz}:{ci}");
                sidx += 1;
                if !rep.take(sidx, &id) {
                    continue;
                }
                let mut w = World::boot(WorldCfg { seed: rep.seed, ..Default::default() });
                w.sim.log_enabled = sz < 10_000;
                let mut subs = Vec::new();
                for j in 0..2 {
                    let i = w.start(j, Kind::Sub);
                    w.settle_check();
                    w.deliver_ack(i, 1, 0, 0);
                    w.settle_check();
                    w.take_stream(i);
                    subs.push(w.sub_id_of(i).unwrap_or(1 + j as u32));
                }
                w.sim.reader.0.borrow_mut().default_cap = cap;
                let q = ((si + ci) % 3) as u8;
                w.in_publish_sized(q, 9, false, &subs, sz);
                w.in_publish(1, 10, false, &subs[..1], false);
                w.settle_check();
                if q == 2 {
                    w.in_pubrel(9);
                    w.settle_check();
                }
                finish(&mut w);
                rep.add("evaluations", 1);
                rep.add("size_class_cases", 1);
                if sz >= 2_097_152 {
                    rep.add("messages_with_a_four_byte_remaining_length", 1);
                }
                rep.distinct(&("size-class", sz, ci));
                if super::harvest(rep, &mut w, &id) == 0 {
                    rep.sample(|| format!("{id}: {} items compared", w.counters.stream_items_checked));
                }
                super::add_counters(rep, &w);
            }
        }
    }
    let mut wa = a.clone();
    wa.max_ops = 12;
    // in the walks a stream may also change hands: it is polled under a new waker from then on
    wa.stream_handover = true;
    wa.max_conc = 4;
    wa.max_inbound = 400;
    wa.inbound.push((2, 3, true, SubSel::Op(2)));
    wa.inbound.push((1, 5, true, SubSel::Op(3)));
    wa.pubrels = vec![2, 3];
    let walks = if rep.quick() { 200 } else { 4000 };
    walk_world(rep, "walk", walks, if rep.quick() { 250 } else { 600 }, &|s| World::boot(WorldCfg { seed: s, order: (s % 4) as u8, seed_ids: Some((1, [1u32, 120, 16380, 2097148, 268435400][(s % 5) as usize])), ..Default::default() }), &wa);
    // streams across connections of the same Context: registrations are session state
    let mut wr = wa.clone();
    wr.terms = vec![TermAct::Eof, TermAct::ReadErr, TermAct::ServerDisconnect { reason: 0x8b, form: 2, props: false }];
    wr.reconnect = true;
    wr.max_ops = 20;
    rep.note("walks across connections: after EOF / read error / server DISCONNECT the same Context is connected again and traffic continues; with the session kept the streams keep receiving what carries their identifier, with the session expired they receive nothing further");
    walk_world(rep, "walkrc", walks, if rep.quick() { 250 } else { 600 }, &|s| World::boot(WorldCfg { seed: s, sei: if s % 4 == 0 { None } else { Some(3600) }, order: (s % 4) as u8, ..Default::default() }), &wr);
}
