//! C07 — inbound messages reach exactly their subscription's stream(s), in order, intact.

use super::script::*;
use super::{explore_world, walk_world};
use crate::report::Rep;
use crate::world::*;

pub fn run(rep: &mut Rep) {
    let mut inbound = Vec::new();
    for sub in [SubSel::Op(0), SubSel::Op(1), SubSel::Never, SubSel::Absent, SubSel::Both, SubSel::Repeat] {
        inbound.push((0u8, 0u16, false, sub));
        inbound.push((1, 1, false, sub));
        inbound.push((2, 2, false, sub));
    }
    let a = Alpha {
        kinds: vec![Kind::Sub, Kind::Unsub],
        max_ops: 3,
        max_conc: 3,
        sub_ack_variants: vec![(0, 0)],
        inbound,
        pubrels: vec![2],
        max_inbound: if rep.quick() { 2 } else { 3 },
        streams: true,
        stream_holds: true,
        drops: true,
        ..Default::default()
    };
    let depth = if rep.quick() { 6 } else { 7 };
    rep.note(&format!(
        "exhaustive: every path of <= {depth} actions over {{subscribe (<=2) / unsubscribe, SUBACK/UNSUBACK, inbound PUBLISH QoS 0/1/2 carrying the subscription identifier of stream A, of stream B, of both, of A-B-A (one identifier carried twice), a never-registered one or none (<= {} per path, including before SUBACK and before stream() is called), PUBREL, take stream, hold (lagging) / release stream, drop stream or response, cancel the subscribe future}}; every stream's item sequence compared with the model at every quiescent point",
        a.max_inbound
    ));
    for (k, ids) in [(0u64, None), (1, Some((300u16, 127u32))), (2, Some((65535u16, 16383u32))), (3, Some((1u16, 2097151u32)))] {
        let seed = rep.seed;
        let d = if k == 0 { depth } else { depth - 1 };
        explore_world(rep, &format!("exh{k}"), d, &move || World::boot(WorldCfg { seed, seed_ids: ids, ..Default::default() }), &a);
    }
    let mut wa = a.clone();
    wa.max_ops = 12;
    wa.max_conc = 4;
    wa.max_inbound = 400;
    wa.inbound.push((2, 3, true, SubSel::Op(2)));
    wa.inbound.push((1, 5, true, SubSel::Op(3)));
    wa.pubrels = vec![2, 3];
    let walks = if rep.quick() { 200 } else { 4000 };
    walk_world(rep, "walk", walks, if rep.quick() { 250 } else { 600 }, &|s| World::boot(WorldCfg { seed: s, order: (s % 4) as u8, seed_ids: Some((1, [1u32, 120, 16380, 2097148, 268435400][(s % 5) as usize])), ..Default::default() }), &wa);
}
