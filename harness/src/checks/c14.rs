//! C14 — no operation or stream hangs once the context is gone.

use super::script::*;
use super::{explore_world, walk_world};
use crate::report::Rep;
use crate::world::*;

pub fn alpha() -> Alpha {
    Alpha {
        kinds: vec![Kind::Pub0, Kind::Pub1, Kind::Pub2, Kind::Sub, Kind::Unsub, Kind::Ping, Kind::Disc],
        max_ops: 3,
        max_conc: 3,
        pub_ack_variants: vec![(0, 0), (2, 1)],
        sub_ack_variants: vec![(0, 0)],
        holds: true,
        create_unpolled: true,
        inbound: vec![(0, 0, false, SubSel::Op(0)), (1, 1, false, SubSel::Op(0))],
        max_inbound: 2,
        streams: true,
        stream_holds: true,
        drop_ctx: true,
        after_drop_kinds: vec![Kind::Pub0, Kind::Pub1, Kind::Pub2, Kind::Sub, Kind::Unsub, Kind::Ping, Kind::Disc],
        writer_stall: true,
        ..Default::default()
    }
}

pub fn run(rep: &mut Rep) {
    let a = alpha();
    if rep.profile == "miri" {
        // Miri tier: a small sample of the same walks (teardown of channels holding queued messages, cancelled
        // receivers, dropped context) under the undefined-behaviour / data-race interpreter
        let mut wa = a.clone();
        wa.max_ops = 8;
        wa.max_conc = 4;
        wa.max_inbound = 6;
        rep.note("miri: 3 PRNG walks of 25 actions per shard, including drop(context) at random points");
        let base = rep.shard * 1000;
        walk_world_shardless(rep, "miri-walk", base, 3, 25, &wa);
        return;
    }
    let depth = if rep.quick() { 5 } else { 7 };
    rep.note(&format!("crash points: drop(context) offered at every step of every path of <= {depth} actions over {{create (unpolled) / start pub1/pub2/sub/ping, first poll, acks, hold/release the QoS 2 future, stall/release the writer (queued-but-unsent), inbound PUBLISH to a stream, take / hold / release stream}}; after the drop: every pending future and stream, and operations started afterwards, are checked under the wake-only executor"));
    let seed = rep.seed;
    explore_world(rep, "exh", depth, &move || World::boot(WorldCfg { seed, ..Default::default() }), &a);
    // with limits announced by the broker (Receive Maximum 1, Maximum Packet Size 64): requests that would have been
    // refused locally while the context lived must fail with ContextExited like all others once it is gone
    let mut al = a.clone();
    al.kinds = vec![Kind::Pub1, Kind::PubBig, Kind::Sub, Kind::Ping];
    al.after_drop_kinds = vec![Kind::Pub0, Kind::Pub1, Kind::Pub2, Kind::PubBig, Kind::Sub, Kind::Ping];
    al.inbound = vec![];
    al.max_inbound = 0;
    al.writer_stall = false;
    rep.note("the same with Receive Maximum 1 and Maximum Packet Size 64 announced in CONNACK and 300-byte publishes in the alphabet (before and after the drop)");
    explore_world(rep, "exhlim", depth, &move || World::boot(WorldCfg { seed, receive_max: Some(1), max_packet: Some(64), ..Default::default() }), &al);
    // requests caught in the middle of being written (writer not accepting bytes) whose futures are not polled until
    // after the drop: whatever the context had told them before must not read as success for an unwritten packet
    let mut ah = a.clone();
    ah.kinds = vec![Kind::Pub0, Kind::Pub1, Kind::Ping, Kind::Disc];
    ah.after_drop_kinds = vec![Kind::Pub0];
    ah.holds_any = true;
    ah.inbound = vec![];
    ah.max_inbound = 0;
    ah.streams = false;
    ah.stream_holds = false;
    ah.create_unpolled = false;
    rep.note("futures held back: the same crash-point enumeration over {pub0, pub1, ping, disconnect} with any submitted future held unpolled (Hold / Release) while the writer is stalled or not: a future first polled after the drop reports ContextExited unless its packet had been written (and acknowledged where an acknowledgement is due)");
    explore_world(rep, "exhhold", depth, &move || World::boot(WorldCfg { seed, ..Default::default() }), &ah);
    // the context is dropped while it is in the middle of writing a request (back-pressure after 0-5 bytes), and the
    // request's future is polled only afterwards
    rep.note("dropped in mid-write: every operation kind picked up by run() while the transport accepts only the first 0-5 bytes of its packet, the operation's future held unpolled, drop(context), then the future is polled: ContextExited (its packet never made it onto the connection)");
    let mut midx = 45_000_000u64;
    for kind in [Kind::Pub0, Kind::Pub1, Kind::Pub2, Kind::Sub, Kind::Unsub, Kind::Ping, Kind::Disc] {
        for accept in 0..6usize {
            for held in [true, false] {
                let id = format!("midwrite:{}:{accept}:{}", kind.name(), held as u8);
                midx += 1;
                if !rep.take(midx, &id) {
                    continue;
                }
                let mut w = World::boot(WorldCfg { seed: rep.seed, ..Default::default() });
                let at = w.sim.written_len() + accept.min(match kind {
                    Kind::Ping => 1,
                    Kind::Disc => 3,
                    _ => 5,
                });
                w.sim.writer.0.borrow_mut().stall_at = Some(at);
                w.sim.note(|| format!("transport: writer accepts bytes up to offset {at}, then exerts back-pressure"));
                w.sim.hold_ctx = true;
                let op = w.start(0, kind);
                w.sim.ops[op].held = held;
                w.sim.hold_ctx = false;
                w.sim.settle();
                w.drop_ctx();
                w.sim.settle();
                w.sim.ops[op].held = false;
                std::task::Wake::wake_by_ref(&w.sim.ops[op].task.w);
                w.settle_check();
                // nobody may report success for a packet that is not on the connection
                if let Some(o) = &w.sim.ops[op].out {
                    if o.is_ok() {
                        let k = kind.name();
                        let o = o.brief();
                        w.viol(&["C14"], format!("C14/success-for-unwritten-request-after-context-drop/{k}"), format!("op{op} ({k}): the context was dropped while only {accept} bytes of its packet had been accepted by the transport, yet the operation reports {o}"));
                    }
                }
                finish(&mut w);
                rep.add("evaluations", 1);
                rep.add("dropped_in_mid_write_cases", 1);
                rep.distinct(&("midwrite", kind, accept, held));
                if super::harvest(rep, &mut w, &id) == 0 {
                    rep.sample(|| format!("{id}: -> {:?}", w.sim.ops[op].out.as_ref().map(|o| o.brief())));
                }
                super::add_counters(rep, &w);
            }
        }
    }
    // operations waiting for their acknowledgement when the connection ends - by every reason code a server may put into a
    // DISCONNECT, end-of-stream, a read error, a write error -; run() returns, then the context is dropped: ContextExited
    rep.note("waiting when the connection ends: QoS 1 / QoS 2 (before PUBREC, before PUBCOMP) publishes, a subscribe, an unsubscribe and a ping written and unanswered; the connection ends by a server DISCONNECT with each of the 28 reason codes (short and full form), end-of-stream, a read error or a write error; run() has returned, the context is dropped, every future reports ContextExited, operations started afterwards too");
    let mut widx = 46_000_000u64;
    let nreasons = crate::refcodec::DISCONNECT_REASONS_SERVER.len();
    for cause in 0..nreasons + 3 {
        for form in [1u8, 2] {
            let id = format!("waiting-at-end:{cause}:{form}");
            widx += 1;
            if !rep.take(widx, &id) {
                continue;
            }
            let mut w = World::boot(WorldCfg { seed: rep.seed, order: (cause % 4) as u8, ..Default::default() });
            let mut ops = Vec::new();
            for (j, kind) in [Kind::Pub1, Kind::Pub2, Kind::Pub2, Kind::Sub, Kind::Unsub, Kind::Ping].into_iter().enumerate() {
                let i = w.start(j % 2, kind);
                w.settle_check();
                if j == 2 {
                    w.deliver_ack(i, 1, 0, 0);
                    w.settle_check();
                }
                ops.push(i);
            }
            if cause < nreasons {
                let reason = crate::refcodec::DISCONNECT_REASONS_SERVER[cause];
                w.server_disconnect(reason, if reason == 0 && form == 1 { 0 } else { form }, form == 2);
            } else if cause == nreasons {
                w.eof();
            } else if cause == nreasons + 1 {
                w.read_err();
            } else {
                w.write_err();
            }
            w.settle_check();
            let ended = w.sim.run_result().is_some();
            w.drop_ctx();
            w.settle_check();
            for kind in [Kind::Pub1, Kind::Ping, Kind::Sub] {
                let i = w.start(0, kind);
                w.settle_check();
            }
            finish(&mut w);
            rep.add("evaluations", 1);
            if ended {
                rep.add("waiting_when_the_connection_ended_cases", 1);
            }
            rep.distinct(&("waiting-at-end", cause, form));
            if super::harvest(rep, &mut w, &id) == 0 {
                rep.sample(|| format!("{id}: run() = {:?}; results after the drop {:?}", w.sim.run_result(), ops.iter().map(|&i| w.sim.ops[i].out.as_ref().map(|o| o.brief())).collect::<Vec<_>>()));
            }
            super::add_counters(rep, &w);
        }
    }
    // very many requests handed over and not yet looked at when the context goes away (it was busy, or run() was not being
    // polled): all of them, and whatever is started afterwards, fail with ContextExited
    {
        use crate::sim::{Cmd, Sim};
        use crate::spec::{ConnSpec, ErrSum, OpSpec, PubSpec, SubSpec, UnsubSpec};
        let counts: &[usize] = if rep.quick() { &[3, 1023, 1024, 1025, 1500, 5000] } else { &[3, 255, 256, 1023, 1024, 1025, 1500, 4096, 5000, 70_000] };
        rep.note(&format!("many requests queued at the drop: {:?} operations of all kinds from three handle clones first polled while the context is not being polled, then drop(context): each reports ContextExited, and so do operations started afterwards (first poll)", counts));
        for (ci, &n) in counts.iter().enumerate() {
            let id = format!("queued-at-drop:{n}");
            if !rep.take(48_500_000 + ci as u64, &id) {
                continue;
            }
            let mut sim = Sim::new(rep.seed);
            sim.log_enabled = false;
            sim.cmd(Cmd::Connect(ConnSpec::default()));
            sim.settle();
            sim.feed_packet(&crate::refcodec::SPacket::Connack { session_present: false, reason: 0, props: vec![] });
            sim.settle();
            sim.cmd(Cmd::Run);
            sim.settle();
            sim.clone_handle(0);
            sim.clone_handle(0);
            sim.hold_ctx = true;
            let mk = |j: usize| match j % 6 {
                0 => OpSpec::Publish(PubSpec::simple(1, "t", b"a")),
                1 => OpSpec::Ping,
                2 => OpSpec::Publish(PubSpec::simple(2, "t", b"b")),
                3 => OpSpec::Subscribe(SubSpec::simple("f")),
                4 => OpSpec::Publish(PubSpec::simple(0, "t", b"c")),
                _ => OpSpec::Unsubscribe(UnsubSpec::simple("f")),
            };
            for j in 0..n {
                sim.start_op(j % 3, mk(j));
            }
            sim.settle();
            sim.drop_ctx();
            sim.settle();
            let mut bad = Vec::new();
            for j in 0..n {
                let ok = matches!(sim.ops[j].out.as_ref().and_then(|o| o.err()), Some(ErrSum::ContextExited));
                if !ok && bad.len() < 3 {
                    bad.push(format!("op{j} ({:?}): {:?}", mk(j).kind(), sim.ops[j].out.as_ref().map(|o| o.brief())));
                }
            }
            for j in 0..6 {
                let op = sim.start_op(j % 3, mk(j));
                sim.settle();
                let ok = matches!(sim.ops[op].out.as_ref().and_then(|o| o.err()), Some(ErrSum::ContextExited));
                if !ok && bad.len() < 6 {
                    bad.push(format!("started after the drop ({:?}): {:?}", mk(j).kind(), sim.ops[op].out.as_ref().map(|o| o.brief())));
                }
            }
            rep.add("evaluations", 1);
            rep.add("requests_queued_when_the_context_was_dropped", n as i64);
            rep.add("context_exited_results_seen", n as i64);
            rep.distinct(&("queued-at-drop", n));
            for p in sim.panics.clone() {
                rep.violation(&format!("C14/panic/{p}"), &id, &format!("panic: {p}"));
            }
            if bad.is_empty() {
                rep.sample(|| format!("{id}: all {n} queued requests and 6 later ones report ContextExited"));
            } else if sim.panics.is_empty() {
                rep.violation("C14/op-hangs-after-context-drop/many-queued", &id, &format!("{n} requests queued when the context was dropped: {}", bad.join("; ")));
            }
        }
    }
    // "immediately" has no exceptions in the long run either: more operations started after the drop than there are packet
    // identifiers, from two clones, every one polled once
    {
        use crate::sim::{Cmd, Sim};
        use crate::spec::{ConnSpec, ErrSum, OpSpec, PubSpec, SubSpec, UnsubSpec};
        let n = if rep.quick() { 90_000usize } else { 300_000 };
        rep.note(&format!("long run after the drop: {n} operations (QoS 1 / QoS 2 publish, subscribe, unsubscribe and alternately ping / QoS 0 publish in rotation - more identifier-carrying ones than there are identifiers -, two handle clones) each started after drop(context) and polled once: every one reports ContextExited on that poll"));
        for variant in 0..2u64 {
            let id = format!("long-after-drop:{variant}");
            if !rep.take(48_000_000 + variant, &id) {
                continue;
            }
            let mut sim = Sim::new(rep.seed);
            sim.log_enabled = false;
            sim.cmd(Cmd::Connect(ConnSpec::default()));
            sim.settle();
            sim.feed_packet(&crate::refcodec::SPacket::Connack { session_present: false, reason: 0, props: vec![] });
            sim.settle();
            sim.cmd(Cmd::Run);
            sim.settle();
            sim.clone_handle(0);
            if variant == 1 {
                // the counter starts near its wrap
                sim.handles[0].as_ref().unwrap().verif_seed_ids(65_500, 1);
            }
            sim.start_op(0, OpSpec::Publish(PubSpec::simple(1, "before", b"x")));
            sim.settle();
            sim.drop_ctx();
            sim.settle();
            sim.ops.clear();
            let mut bad: Option<String> = None;
            let mut done = 0usize;
            for j in 0..n {
                // (four in five carry a packet identifier: more than 65 535 of those in every run)
                let spec = match j % 5 {
                    0 => OpSpec::Publish(PubSpec::simple(1, "t", b"a")),
                    1 => OpSpec::Subscribe(SubSpec::simple("f")),
                    2 => OpSpec::Publish(PubSpec::simple(2, "t", b"b")),
                    3 => OpSpec::Unsubscribe(UnsubSpec::simple("f")),
                    _ if j % 10 == 4 => OpSpec::Ping,
                    _ => OpSpec::Publish(PubSpec::simple(0, "t", b"c")),
                };
                let op = sim.start_op(j % 2, spec);
                let ok = matches!(sim.ops[op].out.as_ref().and_then(|o| o.err()), Some(ErrSum::ContextExited));
                if !ok {
                    bad = Some(format!("operation {} started after drop(context): first poll gave {:?}", j + 1, sim.ops[op].out.as_ref().map(|o| o.brief())));
                    break;
                }
                done += 1;
                if j % 1024 == 1023 {
                    sim.ops.clear();
                }
            }
            rep.add("evaluations", 1);
            rep.add("operations_started_after_the_drop_in_long_runs", done as i64);
            rep.add("context_exited_results_seen", done as i64);
            rep.distinct(&("long-after-drop", variant));
            for p in sim.panics.clone() {
                rep.violation(&format!("C14/panic/{p}"), &id, &format!("panic: {p}"));
            }
            match bad {
                Some(b) => rep.violation("C14/op-after-drop-not-context-exited/long-run", &id, &b),
                None => rep.sample(|| format!("{id}: {done} operations after the drop, each ContextExited on its first poll")),
            }
        }
    }
    // requests queued behind whatever ended run() (the user's DISCONNECT from another clone, a server DISCONNECT, EOF):
    // they were never looked at; when the context is dropped they fail with ContextExited like everything else
    rep.note("queued behind the end of run(): with the context held, a terminating cause (user DISCONNECT / server DISCONNECT reason 0 / reason 0x8b / EOF) is followed by one operation of every kind from two clones; run() ends, the context is dropped: every one of them reports ContextExited, none hangs");
    let mut qidx = 47_000_000u64;
    for cause in 0..4u8 {
        for order in 0..2u8 {
            let id = format!("queued-behind:{cause}:{order}");
            qidx += 1;
            if !rep.take(qidx, &id) {
                continue;
            }
            let mut w = World::boot(WorldCfg { seed: rep.seed, order, ..Default::default() });
            w.sim.hold_ctx = true;
            match cause {
                0 => apply(&mut w, Act::Term(TermAct::UserDisconnect)),
                1 => w.server_disconnect(0, 0, false),
                2 => w.server_disconnect(0x8b, 1, false),
                _ => w.eof(),
            }
            let kinds = [Kind::Pub1, Kind::Sub, Kind::Pub0, Kind::Unsub, Kind::Pub2, Kind::Ping, Kind::Sub];
            let mut ops = Vec::new();
            for (j, k) in kinds.iter().enumerate() {
                let i = w.start(j % 2, *k);
                w.m[i].after_term = true;
                ops.push(i);
            }
            w.sim.hold_ctx = false;
            w.settle_check();
            w.drop_ctx();
            w.settle_check();
            for &i in &ops {
                let k = w.m[i].kind.name();
                match &w.sim.ops[i].out {
                    None => w.viol(&["C14"], format!("C14/op-hangs-after-context-drop/{k}"), format!("op{i} ({k}), queued behind the end of run(), is still pending after drop(context)")),
                    Some(o) if !matches!(o.err(), Some(crate::spec::ErrSum::ContextExited)) && !o.is_ok() => {
                        let o = o.brief();
                        w.viol(&["C14"], format!("C14/wrong-result-after-context-drop/{k}"), format!("op{i} ({k}), queued behind the end of run(): expected ContextExited, got {o}"));
                    }
                    _ => {}
                }
            }
            finish(&mut w);
            rep.add("evaluations", 1);
            rep.add("queued_behind_the_end_cases", 1);
            rep.distinct(&("queued-behind", cause, order));
            if super::harvest(rep, &mut w, &id) == 0 {
                rep.sample(|| format!("{id}: {:?}", ops.iter().map(|&i| w.sim.ops[i].out.as_ref().map(|o| o.brief())).collect::<Vec<_>>()));
            }
            super::add_counters(rep, &w);
        }
    }
    // many operations and streams pending at the drop
    let ns: Vec<usize> = if rep.quick() { vec![9, 17, 33, 65, 129, 300] } else { vec![7, 8, 9, 15, 16, 17, 31, 32, 33, 63, 64, 65, 127, 128, 129, 255, 256, 257, 1000] };
    rep.note(&format!("wide: {:?} operations of every kind pending in every phase (unpolled, queued behind a stalled writer, awaiting their acknowledgement, between the QoS 2 phases, acknowledged but unpolled) and a sixth as many streams with 0 / 3 / 40 / 63 / 64 / 65 / 130 / 300 buffered messages when the context is dropped", ns));
    let mut widx = 40_000_000u64;
    for (ni, &n) in ns.iter().enumerate() {
        for variant in 0..2u8 {
            let id = format!("wide:{n}:{variant}");
            widx += 1;
            if !rep.take(widx, &id) {
                continue;
            }
            let mut w = World::boot(WorldCfg { seed: rep.seed.wrapping_add(ni as u64), ..Default::default() });
            w.sim.log_enabled = n <= 40;
            let kinds = [Kind::Pub1, Kind::Pub2, Kind::Sub, Kind::Ping, Kind::Unsub, Kind::Pub0, Kind::Pub2];
            let mut subs = Vec::new();
            for j in 0..n {
                let k = kinds[j % kinds.len()];
                if j % 11 == 10 {
                    w.create(j % 2, k);
                    continue;
                }
                let i = w.start(j % 2, k);
                if k == Kind::Sub || k == Kind::Pub2 {
                    w.settle_check();
                } else {
                    w.settle();
                }
                if k == Kind::Sub && w.m[i].req_wire.is_some() && subs.len() <= n / 6 {
                    w.deliver_ack(i, 1, 0, 0);
                    w.settle();
                    w.take_stream(i);
                    subs.push(i);
                } else if k == Kind::Pub2 && j % 2 == 0 && w.m[i].req_wire.is_some() {
                    w.deliver_ack(i, 1, 0, 0);
                    w.settle();
                }
            }
            w.settle_check();
            // messages for the streams, left unread by half of them
            for (j, &sidx) in subs.iter().enumerate() {
                if let Some(s) = w.m[sidx].stream {
                    w.sim.streams[s].held = j % 2 == 0;
                }
                let sid = w.m[sidx].sub_id.unwrap_or(1);
                let backlog = [0usize, 3, 40, 63, 64, 65, 130, 300][(j + ni) % 8];
                for q in 0..backlog {
                    w.in_publish((q % 2) as u8, 1 + q as u16, false, &[sid], false);
                    if q % 16 == 15 {
                        w.settle();
                    }
                }
            }
            w.settle_check();
            if variant == 1 {
                // the last requests stay queued: the writer accepts nothing
                w.sim.stall_writer();
                for j in 0..(n / 4).max(2) {
                    w.start(j % 2, kinds[j % kinds.len()]);
                }
                w.settle_check();
            }
            w.drop_ctx();
            w.settle_check();
            for j in 0..4 {
                w.start(j % 2, kinds[j]);
            }
            w.settle_check();
            finish(&mut w);
            rep.add("evaluations", 1);
            rep.add("wide_cases", 1);
            rep.max("max_operations_pending_at_drop", n as i64);
            rep.distinct(&("wide", n, variant));
            if super::harvest(rep, &mut w, &id) == 0 {
                rep.sample(|| format!("{id}: {} ContextExited results, {} stream items compared", w.counters.ctx_exited_seen, w.counters.stream_items_checked));
            }
            super::add_counters(rep, &w);
        }
    }
    let mut wa = a.clone();
    wa.max_ops = 30;
    wa.max_conc = 6;
    wa.max_inbound = 30;
    wa.kinds.push(Kind::PubBig);
    wa.after_drop_kinds.push(Kind::PubBig);
    wa.handle_churn = true;
    let walks = if rep.quick() { 400 } else { 40000 };
    walk_world(rep, "walk", walks, 60, &|s| World::boot(WorldCfg { seed: s, order: (s % 4) as u8, receive_max: if s % 3 == 1 { Some(1 + (s % 2) as u16) } else { None }, max_packet: if s % 3 == 2 { Some(64) } else { None }, ..Default::default() }), &wa);
}

fn walk_world_shardless(rep: &mut Rep, name: &str, base: u64, walks: u64, steps: usize, a: &Alpha) {
    for k in 0..walks {
        let id = format!("{name}:{}", base + k);
        let seed = rep.seed.wrapping_mul(1_000_003).wrapping_add(base + k);
        let mut rng = crate::sim::Rng::new(seed);
        let mut w = World::boot(WorldCfg { seed, order: (k % 4) as u8, ..Default::default() });
        let acts = run_walk(&mut w, a, &mut rng, steps);
        rep.add("evaluations", 1);
        rep.add("random_walks", 1);
        rep.add("random_walk_actions", acts.len() as i64);
        rep.distinct(&w.shape());
        super::harvest(rep, &mut w, &id);
        super::add_counters(rep, &w);
    }
}
