//! C14 — no operation or stream hangs once the context is gone.

use super::script::*;
use super::{explore_world, walk_world};
use crate::report::Rep;
use crate::world::*;

pub fn alpha() -> Alpha {
    Alpha {
        kinds: vec![Kind::Pub0, Kind::Pub1, Kind::Pub2, Kind::Sub, Kind::Unsub, Kind::Ping, Kind::Disc],
        max_ops: 3,
        max_conc: 3,
        pub_ack_variants: vec![(0, 0), (2, 1)],
        sub_ack_variants: vec![(0, 0)],
        holds: true,
        create_unpolled: true,
        inbound: vec![(0, 0, false, SubSel::Op(0)), (1, 1, false, SubSel::Op(0))],
        max_inbound: 2,
        streams: true,
        stream_holds: true,
        drop_ctx: true,
        after_drop_kinds: vec![Kind::Pub0, Kind::Pub1, Kind::Pub2, Kind::Sub, Kind::Unsub, Kind::Ping, Kind::Disc],
        writer_stall: true,
        ..Default::default()
    }
}

pub fn run(rep: &mut Rep) {
    let a = alpha();
    if rep.profile == "miri" {
        // Miri tier: a small sample of the same walks (teardown of channels holding queued messages, cancelled
        // receivers, dropped context) under the undefined-behaviour / data-race interpreter
        let mut wa = a.clone();
        wa.max_ops = 8;
        wa.max_conc = 4;
        wa.max_inbound = 6;
        rep.note("miri: 3 PRNG walks of 25 actions per shard, including drop(context) at random points");
        let base = rep.shard * 1000;
        walk_world_shardless(rep, "miri-walk", base, 3, 25, &wa);
        return;
    }
    let depth = if rep.quick() { 5 } else { 7 };
    rep.note(&format!("crash points: drop(context) offered at every step of every path of <= {depth} actions over {{create (unpolled) / start pub1/pub2/sub/ping, first poll, acks, hold/release the QoS 2 future, stall/release the writer (queued-but-unsent), inbound PUBLISH to a stream, take / hold / release stream}}; after the drop: every pending future and stream, and operations started afterwards, are checked under the wake-only executor"));
    let seed = rep.seed;
    explore_world(rep, "exh", depth, &move || World::boot(WorldCfg { seed, ..Default::default() }), &a);
    // with limits announced by the broker (Receive Maximum 1, Maximum Packet Size 64): requests that would have been
    // refused locally while the context lived must fail with ContextExited like all others once it is gone
    let mut al = a.clone();
    al.kinds = vec![Kind::Pub1, Kind::PubBig, Kind::Sub, Kind::Ping];
    al.after_drop_kinds = vec![Kind::Pub0, Kind::Pub1, Kind::Pub2, Kind::PubBig, Kind::Sub, Kind::Ping];
    al.inbound = vec![];
    al.max_inbound = 0;
    al.writer_stall = false;
    rep.note("the same with Receive Maximum 1 and Maximum Packet Size 64 announced in CONNACK and 300-byte publishes in the alphabet (before and after the drop)");
    explore_world(rep, "exhlim", depth, &move || World::boot(WorldCfg { seed, receive_max: Some(1), max_packet: Some(64), ..Default::default() }), &al);
    let mut wa = a.clone();
    wa.max_ops = 30;
    wa.max_conc = 6;
    wa.max_inbound = 30;
    wa.kinds.push(Kind::PubBig);
    wa.after_drop_kinds.push(Kind::PubBig);
    let walks = if rep.quick() { 400 } else { 40000 };
    walk_world(rep, "walk", walks, 60, &|s| World::boot(WorldCfg { seed: s, order: (s % 4) as u8, receive_max: if s % 3 == 1 { Some(1 + (s % 2) as u16) } else { None }, max_packet: if s % 3 == 2 { Some(64) } else { None }, ..Default::default() }), &wa);
}

fn walk_world_shardless(rep: &mut Rep, name: &str, base: u64, walks: u64, steps: usize, a: &Alpha) {
    for k in 0..walks {
        let id = format!("{name}:{}", base + k);
        let seed = rep.seed.wrapping_mul(1_000_003).wrapping_add(base + k);
        let mut rng = crate::sim::Rng::new(seed);
        let mut w = World::boot(WorldCfg { seed, order: (k % 4) as u8, ..Default::default() });
        let acts = run_walk(&mut w, a, &mut rng, steps);
        rep.add("evaluations", 1);
        rep.add("random_walks", 1);
        rep.add("random_walk_actions", acts.len() as i64);
        rep.distinct(&w.shape());
        super::harvest(rep, &mut w, &id);
        super::add_counters(rep, &w);
    }
}
