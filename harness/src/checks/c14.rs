//! C14 — no operation or stream hangs once the context is gone.

use super::script::*;
use super::{explore_world, walk_world};
use crate::report::Rep;
use crate::world::*;

pub fn alpha() -> Alpha {
    Alpha {
        kinds: vec![Kind::Pub0, Kind::Pub1, Kind::Pub2, Kind::Sub, Kind::Unsub, Kind::Ping, Kind::Disc],
        max_ops: 3,
        max_conc: 3,
        pub_ack_variants: vec![(0, 0), (2, 1)],
        sub_ack_variants: vec![(0, 0)],
        holds: true,
        create_unpolled: true,
        inbound: vec![(0, 0, false, SubSel::Op(0)), (1, 1, false, SubSel::Op(0))],
        max_inbound: 2,
        streams: true,
        stream_holds: true,
        drop_ctx: true,
        after_drop_kinds: vec![Kind::Pub0, Kind::Pub1, Kind::Pub2, Kind::Sub, Kind::Unsub, Kind::Ping, Kind::Disc],
        writer_stall: true,
        ..Default::default()
    }
}

pub fn run(rep: &mut Rep) {
    let a = alpha();
    let depth = if rep.quick() { 5 } else { 6 };
    rep.note(&format!("crash points: drop(context) offered at every step of every path of <= {depth} actions over {{create (unpolled) / start pub1/pub2/sub/ping, first poll, acks, hold/release the QoS 2 future, stall/release the writer (queued-but-unsent), inbound PUBLISH to a stream, take / hold / release stream}}; after the drop: every pending future and stream, and operations started afterwards, are checked under the wake-only executor"));
    let seed = rep.seed;
    explore_world(rep, "exh", depth, &move || World::boot(WorldCfg { seed, ..Default::default() }), &a);
    let mut wa = a.clone();
    wa.max_ops = 30;
    wa.max_conc = 6;
    wa.max_inbound = 30;
    let walks = if rep.quick() { 400 } else { 6000 };
    walk_world(rep, "walk", walks, 60, &|s| World::boot(WorldCfg { seed: s, order: (s % 4) as u8, ..Default::default() }), &wa);
}
