//! C02 — well-formed inbound packets decode to exactly the values the server sent.

use crate::refcodec::{self as rc, AckForm, AckKind, CPacket, PVal, Prop, SPacket};
use crate::report::Rep;
use crate::sim::*;
use crate::spec::*;

fn s_of(len: usize, flavour: u8) -> String {
    let unit: &str = match flavour {
        1 => "é",
        2 => "€",
        3 => "😀",
        _ => "b",
    };
    let mut s = String::with_capacity(len);
    while s.len() + unit.len() <= len {
        s.push_str(unit);
    }
    while s.len() < len {
        s.push('y');
    }
    s
}

fn strs(big: bool) -> Vec<String> {
    let mut v = Vec::new();
    for &l in &[0usize, 1, 127, 128] {
        for f in 0..4 {
            v.push(s_of(l, f));
        }
    }
    if big {
        for &l in &[16383usize, 16384, 65535] {
            v.push(s_of(l, 0));
            v.push(s_of(l, 2));
        }
    }
    // characters a decoder might be tempted to treat specially: a leading / lone / trailing U+FEFF (MQTT-1.5.4-3: never
    // skipped or stripped), leading and trailing spaces, the largest code points of 1, 2 and 3 bytes, a private-use and a
    // supplementary-plane character at the very start and end
    for t in ["\u{feff}", "\u{feff}welcome", "in\u{feff}side", "trailing\u{feff}", " lead", "trail ", "\u{7f}x", "\u{7ff}\u{800}", "\u{e000}mid\u{10ffff}", "\u{10000}"] {
        v.push(t.to_string());
    }
    v.dedup();
    v
}

fn bins(big: bool) -> Vec<Vec<u8>> {
    let mut v: Vec<Vec<u8>> = vec![vec![], vec![0], vec![0xff; 127], (0..128u32).map(|x| x as u8).collect()];
    if big {
        v.push(vec![7; 16383]);
        v.push(vec![8; 16384]);
        v.push(vec![9; 65535]);
    }
    v
}

fn get_str(props: &[Prop], id: u8) -> Option<String> {
    match rc::find(props, id) {
        Some(PVal::Str(s)) => Some(s.clone()),
        _ => None,
    }
}
fn get_bin(props: &[Prop], id: u8) -> Option<Vec<u8>> {
    match rc::find(props, id) {
        Some(PVal::Bin(s)) => Some(s.clone()),
        _ => None,
    }
}
fn get_u32(props: &[Prop], id: u8) -> Option<u32> {
    match rc::find(props, id) {
        Some(PVal::U32(v)) => Some(*v),
        _ => None,
    }
}
fn get_u16(props: &[Prop], id: u8) -> Option<u16> {
    match rc::find(props, id) {
        Some(PVal::U16(v)) => Some(*v),
        _ => None,
    }
}
fn get_byte(props: &[Prop], id: u8) -> Option<u8> {
    match rc::find(props, id) {
        Some(PVal::Byte(v)) => Some(*v),
        _ => None,
    }
}

/// Values a correct client must expose for a CONNACK, with the defaults of the standard for absent properties.
fn connack_expected(sp: bool, reason: u8, props: &[Prop]) -> ConnackSum {
    ConnackSum {
        session_present: sp,
        reason,
        wildcard: get_byte(props, 40).map(|b| b == 1).unwrap_or(true),
        subid_available: get_byte(props, 41).map(|b| b == 1).unwrap_or(true),
        shared: get_byte(props, 42).map(|b| b == 1).unwrap_or(true),
        max_qos: get_byte(props, 36).unwrap_or(2),
        retain_available: get_byte(props, 37).map(|b| b == 1).unwrap_or(true),
        server_keep_alive: get_u16(props, 19).map(|v| v as u64),
        receive_maximum: get_u16(props, 33).unwrap_or(65535),
        topic_alias_maximum: get_u16(props, 34).unwrap_or(0),
        sei: get_u32(props, 17).map(|v| v as u64),
        max_packet_size: get_u32(props, 39),
        assigned_client_id: get_str(props, 18),
        reason_string: get_str(props, 31),
        response_information: get_str(props, 26),
        server_reference: get_str(props, 28),
        auth_method: get_str(props, 21),
        auth_data: get_bin(props, 22),
        user_props: rc::user_props(props),
    }
}

fn orders(props: &[Prop], rng: &mut Rng) -> Vec<Vec<Prop>> {
    let mut v = vec![props.to_vec()];
    if props.len() > 1 {
        let mut r = props.to_vec();
        r.reverse();
        v.push(r);
        let mut s = props.to_vec();
        for i in (1..s.len()).rev() {
            let j = rng.below(i + 1);
            s.swap(i, j);
        }
        v.push(s);
    }
    v
}

fn viol(rep: &mut Rep, sig: String, case: &str, detail: String, sim: &Sim) {
    rep.violation(&sig, case, &format!("{detail}\n--- trace ---\n{}", sim.tail_log(30)));
}

fn first_diff<T: std::fmt::Debug + PartialEq>(name: &str, e: &T, g: &T) -> Option<String> {
    if e != g {
        let es = format!("{e:?}");
        let gs = format!("{g:?}");
        Some(format!("{name}: expected {} got {}", rc::trunc(&es), rc::trunc(&gs)))
    } else {
        None
    }
}

fn connack_diff(e: &ConnackSum, g: &ConnackSum) -> Option<(String, String)> {
    macro_rules! f {
        ($n:ident) => {
            if let Some(d) = first_diff(stringify!($n), &e.$n, &g.$n) {
                return Some((stringify!($n).to_string(), d));
            }
        };
    }
    f!(session_present);
    f!(reason);
    f!(wildcard);
    f!(subid_available);
    f!(shared);
    f!(max_qos);
    f!(retain_available);
    f!(server_keep_alive);
    f!(receive_maximum);
    f!(topic_alias_maximum);
    f!(sei);
    f!(max_packet_size);
    f!(assigned_client_id);
    f!(reason_string);
    f!(response_information);
    f!(server_reference);
    f!(auth_method);
    f!(auth_data);
    f!(user_props);
    None
}

fn connack_cases(rep: &mut Rep, idx: &mut u64) {
    let big = strs(true);
    let small = strs(false);
    let mut rng = Rng::new(rep.seed ^ 0xC02);
    // pools of single properties with boundary values
    let mut singles: Vec<Prop> = Vec::new();
    for v in [0u32, 1, 65535, 65536, u32::MAX] {
        singles.push(Prop::u32(17, v));
        if v > 0 {
            singles.push(Prop::u32(39, v));
        }
    }
    for v in [1u16, 2, 255, 256, 65535] {
        singles.push(Prop::u16(33, v));
        singles.push(Prop::u16(19, v));
        singles.push(Prop::u16(34, v));
    }
    singles.push(Prop::u16(19, 0));
    singles.push(Prop::u16(34, 0));
    for b in [0u8, 1] {
        singles.push(Prop::byte(36, b));
        singles.push(Prop::byte(37, b));
        singles.push(Prop::byte(40, b));
        singles.push(Prop::byte(42, b));
    }
    singles.push(Prop::byte(41, 1));
    for s in &big {
        for id in [18u8, 31, 26, 28, 21] {
            singles.push(Prop::str(id, s));
        }
        singles.push(Prop::pair(s, "v"));
        singles.push(Prop::pair("k", s));
    }
    for b in bins(true) {
        singles.push(Prop::bin(22, &b));
    }
    let typical: Vec<Prop> = vec![
        Prop::u32(17, 3600),
        Prop::u16(33, 20),
        Prop::byte(36, 1),
        Prop::byte(37, 0),
        Prop::u32(39, 1 << 20),
        Prop::str(18, "assigned-id"),
        Prop::u16(34, 10),
        Prop::str(31, "reason text"),
        Prop::byte(40, 0),
        Prop::byte(41, 1),
        Prop::byte(42, 0),
        Prop::u16(19, 120),
        Prop::str(26, "resp/info"),
        Prop::str(28, "other.example:1883"),
        Prop::str(21, "SCRAM-SHA-1"),
        Prop::bin(22, b"\x00\x01server-first"),
        Prop::pair("region", "eu"),
    ];
    let mut sets: Vec<Vec<Prop>> = vec![vec![]];
    for p in &singles {
        sets.push(vec![p.clone()]);
    }
    for i in 0..typical.len() {
        for j in i + 1..typical.len() {
            sets.push(vec![typical[i].clone(), typical[j].clone()]);
        }
        let mut all_but: Vec<Prop> = typical.clone();
        all_but.remove(i);
        sets.push(all_but);
    }
    sets.push(typical.clone());
    // repeated user properties
    for n in 1..=4 {
        let mut v = typical.clone();
        for k in 0..n {
            v.insert(k * 3 % v.len(), Prop::pair(if k % 2 == 0 { "region" } else { "zone" }, &format!("v{k}")));
        }
        sets.push(v);
    }
    let nrand = if rep.quick() { 400 } else { 150000 };
    for _ in 0..nrand {
        let mut v = Vec::new();
        for t in &typical {
            if rng.chance(1, 3) {
                // same id, PRNG-picked boundary value
                let cands: Vec<&Prop> = singles.iter().filter(|s| s.id == t.id && s.id != 38).collect();
                if !cands.is_empty() && rng.chance(1, 2) {
                    let c = cands[rng.below(cands.len())].clone();
                    let too_big = matches!(&c.val, PVal::Str(s) if s.len() > 200) || matches!(&c.val, PVal::Bin(s) if s.len() > 200);
                    v.push(if too_big { t.clone() } else { c });
                } else {
                    v.push(t.clone());
                }
            }
        }
        for _ in 0..rng.below(4) {
            { let a = rng.pick(&small[..]).clone(); let b = rng.pick(&small[..]).clone(); v.push(Prop::pair(&a, &b)); }
        }
        sets.push(v);
    }
    rep.note(&format!("CONNACK: {} property sets (empty, every single property x boundary values, all pairs, all-but-one, all 17, repeated user properties, PRNG subsets) x orders {{as listed, reversed, shuffled}} x reasons (every one of the 22 for a rotating subset) x session present", sets.len()));
    for (k, set) in sets.iter().enumerate() {
        for (oi, props) in orders(set, &mut rng).into_iter().enumerate() {
            // every legal reason code over the course of the sweep
            let reasons: Vec<u8> = if k < rc::CONNACK_REASONS.len() * 2 { vec![0, rc::CONNACK_REASONS[k % rc::CONNACK_REASONS.len()]] } else { vec![0, rc::CONNACK_REASONS[(k + oi) % rc::CONNACK_REASONS.len()]] };
            for reason in reasons {
                let sp = reason == 0 && (k + oi) % 2 == 1;
                // a refusing CONNACK may announce anything, including "Subscription Identifiers not available" (the documented
                // assertion concerns successful connections only): every second refusal carries that property with value 0
                let mut props = props.clone();
                if reason >= 0x80 && (k + oi) % 2 == 0 {
                    props.retain(|p| p.id != 41);
                    let pos = (k + oi) % (props.len() + 1);
                    props.insert(pos, Prop::byte(41, 0));
                    rep.add("refusing_connacks_without_subscription_identifier_support", 1);
                }
                let id = format!("connack:{k}:{oi}:{reason:#x}");
                *idx += 1;
                if !rep.take(*idx, &id) {
                    continue;
                }
                let mut sim = Sim::new(rep.seed);
                sim.cmd(Cmd::Connect(ConnSpec::default()));
                sim.settle();
                match *idx % 7 {
                    1..=4 => sim.cut_after = Some((*idx % 7) as usize),
                    5 => sim.trickle = Some(1),
                    _ => {}
                }
                if sim.cut_after.is_some() || sim.trickle.is_some() {
                    rep.add("packets_delivered_in_pieces", 1);
                }
                sim.feed_packet(&SPacket::Connack { session_present: sp, reason, props: props.clone() });
                sim.cut_after = None;
                sim.trickle = None;
                sim.settle();
                let got = sim.last_ctx_result("connect");
                let e = connack_expected(sp, reason, &props);
                rep.add("evaluations", 1);
                rep.add("connack_decoded", 1);
                rep.distinct(&("connack", k, oi, reason));
                for p in sim.panics.clone() {
                    viol(rep, format!("C02/panic/{p}"), &id, format!("panic decoding CONNACK: {p}"), &sim);
                }
                match got {
                    Some(CtxOut::Conn(ConnOut::Connack(g))) if reason < 0x80 => {
                        if let Some((field, d)) = connack_diff(&e, &g) {
                            let absent = !props.iter().any(|p| rc::prop_name(p.id) == field || (field == "user_props" && p.id == 38));
                            viol(rep, format!("C02/value-mismatch/pkt=CONNACK/field={field}{}", if absent { "/default" } else { "" }), &id, d, &sim);
                        } else {
                            rep.add("values_matched", 1);
                            rep.sample(|| format!("{id}: CONNACK props {:?} -> all 19 accessors match", props.iter().map(|p| rc::prop_name(p.id)).collect::<Vec<_>>()));
                        }
                    }
                    Some(CtxOut::Conn(ConnOut::Err(ErrSum::ConnectError { reason: r, reason_string, server_reference, user_props }))) if reason >= 0x80 => {
                        if r != reason || reason_string != e.reason_string || server_reference != e.server_reference || user_props != e.user_props {
                            viol(rep, "C02/value-mismatch/pkt=CONNACK/ConnectError".into(), &id, format!("ConnectError accessors differ: reason {r:#x} vs {reason:#x}"), &sim);
                        } else {
                            rep.add("values_matched", 1);
                        }
                    }
                    other => viol(rep, format!("C02/rejected/pkt=CONNACK/reason={}", if reason < 0x80 { "success" } else { "failure" }), &id, format!("well-formed CONNACK (reason {reason:#x}, props {:?}) -> {:?}", props.iter().map(|p| rc::prop_name(p.id)).collect::<Vec<_>>(), other.map(|o| brief_ctx(&o))), &sim),
                }
            }
        }
    }
}

fn auth_cases(rep: &mut Rep, idx: &mut u64) {
    let mut rng = Rng::new(rep.seed ^ 0xC02A);
    let mut sets: Vec<(Option<u8>, Vec<Prop>)> = vec![(None, vec![])];
    for reason in [0x18u8, 0x00] {
        for s in strs(true) {
            sets.push((Some(reason), vec![Prop::str(21, &s)]));
            sets.push((Some(reason), vec![Prop::str(21, "m"), Prop::bin(22, b"d"), Prop::str(31, &s)]));
            sets.push((Some(reason), vec![Prop::str(21, "m"), Prop::bin(22, b"d"), Prop::pair(&s, &s)]));
        }
        for b in bins(true) {
            sets.push((Some(reason), vec![Prop::str(21, "m"), Prop::bin(22, &b)]));
        }
        sets.push((Some(reason), vec![Prop::str(21, "m"), Prop::bin(22, b"d"), Prop::str(31, "r"), Prop::pair("a", "1"), Prop::pair("a", "2"), Prop::pair("b", "3")]));
        sets.push((Some(reason), vec![Prop::str(21, "m"), Prop::str(31, "only method and reason string")]));
    }
    rep.note(&format!("AUTH: {} packets (remaining length 0 form, reasons 0x18/0x00, method with/without data, reason string, repeated user properties, boundary lengths) x orders", sets.len()));
    for (k, (reason, set)) in sets.iter().enumerate() {
        for (oi, props) in orders(set, &mut rng).into_iter().enumerate() {
            let id = format!("auth:{k}:{oi}");
            *idx += 1;
            if !rep.take(*idx, &id) {
                continue;
            }
            let mut sim = Sim::new(rep.seed);
            sim.cmd(Cmd::Connect(ConnSpec { auth_method: Some("m".into()), auth_data: Some(vec![1]), ..Default::default() }));
            sim.settle();
            sim.feed_packet(&SPacket::Auth { reason: *reason, props: props.clone() });
            sim.settle();
            rep.add("evaluations", 1);
            rep.add("auth_decoded", 1);
            rep.distinct(&("auth", k, oi));
            for p in sim.panics.clone() {
                viol(rep, format!("C02/panic/{p}"), &id, format!("panic decoding AUTH: {p}"), &sim);
            }
            let e = AuthSum { reason: reason.unwrap_or(0), reason_string: get_str(&props, 31), method: get_str(&props, 21), data: get_bin(&props, 22), user_props: rc::user_props(&props) };
            match sim.last_ctx_result("connect") {
                Some(CtxOut::Conn(ConnOut::Auth(g))) => {
                    if g != e {
                        let field = if g.reason != e.reason {
                            "reason"
                        } else if g.method != e.method {
                            "authentication_method"
                        } else if g.data != e.data {
                            "authentication_data"
                        } else if g.reason_string != e.reason_string {
                            "reason_string"
                        } else {
                            "user_property"
                        };
                        viol(rep, format!("C02/value-mismatch/pkt=AUTH/field={field}"), &id, format!("AuthRsp accessors differ from what was encoded"), &sim);
                    } else {
                        rep.add("values_matched", 1);
                    }
                }
                other => {
                    let form = if reason.is_none() { "len0" } else if get_bin(&props, 22).is_none() { "method-without-data" } else { "full" };
                    viol(rep, format!("C02/rejected/pkt=AUTH/form={form}"), &id, format!("well-formed AUTH (reason {:?}, props {:?}) -> {:?}", reason, props.iter().map(|p| rc::prop_name(p.id)).collect::<Vec<_>>(), other.map(|o| brief_ctx(&o))), &sim);
                }
            }
        }
    }
}

struct Running {
    sim: Sim,
    used: usize,
}

fn running(seed: u64) -> Running {
    let mut sim = Sim::new(seed);
    sim.cmd(Cmd::Connect(ConnSpec::default()));
    sim.settle();
    sim.feed_packet(&SPacket::Connack { session_present: false, reason: 0, props: vec![] });
    sim.settle();
    sim.cmd(Cmd::Run);
    sim.settle();
    sim.parse_wire();
    Running { sim, used: 0 }
}

/// starts an operation and returns (op index, packet identifier read off the wire)
fn start(r: &mut Running, spec: OpSpec) -> (usize, u16) {
    let before = r.sim.wire.len();
    let op = r.sim.start_op(0, spec);
    r.sim.settle();
    r.sim.parse_wire();
    r.used += 1;
    let id = r.sim.wire[before..]
        .iter()
        .find_map(|w| match &w.pkt {
            Ok(CPacket::Publish(p)) => p.id,
            Ok(CPacket::Subscribe(s)) => Some(s.id),
            Ok(CPacket::Unsubscribe(s)) => Some(s.id),
            _ => None,
        })
        .unwrap_or(0);
    (op, id)
}

fn ack_cases(rep: &mut Rep, idx: &mut u64) {
    let mut rng = Rng::new(rep.seed ^ 0xC02B);
    let mut r = running(rep.seed);
    let ss = strs(true);
    let mut prop_sets: Vec<Vec<Prop>> = vec![vec![]];
    for s in &ss {
        prop_sets.push(vec![Prop::str(31, s)]);
        prop_sets.push(vec![Prop::pair(s, "v"), Prop::pair("k", s)]);
    }
    prop_sets.push(vec![Prop::str(31, "r"), Prop::pair("a", "1"), Prop::pair("a", "2"), Prop::pair("b", "")]);
    rep.note(&format!("PUBACK/PUBREC/PUBCOMP/PUBREL: every legal reason x forms {{remaining length 2, 3, full}} x {} property sets x orders x packet identifiers {{1,255,256,0x7fff,0x8000,65535}}", prop_sets.len()));
    let pkt_ids = [1u16, 255, 256, 0x7fff, 0x8000, 65535];
    let mut n = 0usize;
    for kind in [AckKind::Puback, AckKind::Pubrec, AckKind::Pubcomp, AckKind::Pubrel] {
        for &reason in kind.legal_reasons() {
            for (pi, set) in prop_sets.iter().enumerate() {
                let mut forms = vec![AckForm::Full];
                if set.is_empty() {
                    forms.push(AckForm::Short3);
                    if reason == 0 {
                        forms.push(AckForm::Short2);
                    }
                }
                for form in forms {
                    for (oi, props) in orders(set, &mut rng).into_iter().enumerate() {
                        let id = format!("ack:{kind:?}:{reason:#x}:{pi}:{form:?}:{oi}");
                        *idx += 1;
                        n += 1;
                        if !rep.take(*idx, &id) {
                            continue;
                        }
                        if r.used > 120 || r.sim.run_result().is_some() {
                            r = running(rep.seed);
                        }
                        let want_id = pkt_ids[n % pkt_ids.len()];
                        r.sim.handles[0].as_ref().unwrap().verif_seed_ids(want_id, 1);
                        rep.add("evaluations", 1);
                        rep.add("acks_decoded", 1);
                        rep.distinct(&("ack", format!("{kind:?}"), reason, pi, format!("{form:?}"), oi));
                        let e_err = AckErrSum { reason, reason_string: get_str(&props, 31), user_props: rc::user_props(&props) };
                        if kind == AckKind::Pubrel {
                            // observed through the PUBCOMP it causes
                            let before = r.sim.wire.len();
                            r.sim.feed_packet(&SPacket::Ack { kind, id: want_id, reason, props: props.clone(), form: form.clone() });
                            r.sim.settle();
                            r.sim.parse_wire();
                            r.used += 1;
                            let ok = r.sim.wire[before..].iter().any(|w| matches!(&w.pkt, Ok(CPacket::Ack(a)) if a.kind == AckKind::Pubcomp && a.id == want_id));
                            if !ok || r.sim.run_result().is_some() {
                                let rr = r.sim.run_result();
                                viol(rep, format!("C02/rejected/pkt=PUBREL/form={form:?}"), &id, format!("well-formed PUBREL id {want_id} reason {reason:#x} did not produce PUBCOMP id {want_id}; run() = {:?}", rr), &r.sim);
                            } else {
                                rep.add("values_matched", 1);
                            }
                            continue;
                        }
                        let q = if kind == AckKind::Puback { 1 } else { 2 };
                        let (op, pid) = start(&mut r, OpSpec::Publish(PubSpec::simple(q, "t", b"x")));
                        if pid != want_id {
                            viol(rep, "C02/harness/packet-id".into(), &id, format!("seeded packet id {want_id} but wire shows {pid}"), &r.sim);
                            continue;
                        }
                        if kind == AckKind::Pubcomp {
                            r.sim.feed_packet(&SPacket::Ack { kind: AckKind::Pubrec, id: pid, reason: 0, props: vec![], form: AckForm::Short2 });
                            r.sim.settle();
                        }
                        r.sim.feed_packet(&SPacket::Ack { kind, id: pid, reason, props: props.clone(), form: form.clone() });
                        r.sim.settle();
                        for p in r.sim.panics.clone() {
                            viol(rep, format!("C02/panic/{p}"), &id, format!("panic decoding {kind:?}: {p}"), &r.sim);
                        }
                        let out = r.sim.ops[op].out.clone();
                        let expected: Option<OpOut> = if reason >= 0x80 {
                            Some(OpOut::Unit(Err(match kind {
                                AckKind::Puback => ErrSum::PubackError(e_err.clone()),
                                AckKind::Pubrec => ErrSum::PubrecError(e_err.clone()),
                                _ => ErrSum::PubcompError(e_err.clone()),
                            })))
                        } else if kind == AckKind::Pubrec {
                            None // success PUBREC: the publish continues; checked below by completing it
                        } else {
                            Some(OpOut::Unit(Ok(())))
                        };
                        match (&expected, &out) {
                            (Some(e), Some(g)) if e == g => rep.add("values_matched", 1),
                            (None, None) => {
                                // complete the exchange so that the session stays clean
                                r.sim.feed_packet(&SPacket::Ack { kind: AckKind::Pubcomp, id: pid, reason: 0, props: vec![], form: AckForm::Short2 });
                                r.sim.settle();
                                if matches!(r.sim.ops[op].out, Some(OpOut::Unit(Ok(())))) {
                                    rep.add("values_matched", 1);
                                } else {
                                    let o = r.sim.ops[op].out.clone();
                                    viol(rep, format!("C02/rejected/pkt=PUBREC/form={form:?}"), &id, format!("successful PUBREC (reason {reason:#x}) then PUBCOMP: publish() -> {:?}", o.map(|x| x.brief())), &r.sim);
                                }
                            }
                            (e, g) => {
                                let rejected = r.sim.run_result().is_some();
                                viol(
                                    rep,
                                    format!("C02/{}/pkt={kind:?}/form={form:?}", if rejected { "rejected" } else { "value-mismatch" }),
                                    &id,
                                    format!("{kind:?} id {pid} reason {reason:#x} props {:?}: publish() -> {:?}, expected {:?}; run() = {:?}", props.iter().map(|p| rc::prop_name(p.id)).collect::<Vec<_>>(), g.as_ref().map(|x| x.brief()), e.as_ref().map(|x| x.brief()), r.sim.run_result()),
                                    &r.sim,
                                );
                            }
                        }
                    }
                }
            }
        }
    }
    // thorough: all 65535 packet identifiers through PUBACK
    if !rep.quick() {
        let mut r = running(rep.seed);
        for pid in 1..=65535u16 {
            let id = format!("ackid:{pid}");
            *idx += 1;
            if !rep.take(*idx, &id) {
                continue;
            }
            if r.used > 2000 {
                r = running(rep.seed);
            }
            r.sim.log_enabled = false;
            r.sim.handles[0].as_ref().unwrap().verif_seed_ids(pid, 1);
            let (op, got) = start(&mut r, OpSpec::Publish(PubSpec::simple(1, "t", b"")));
            r.sim.feed_packet(&SPacket::Ack { kind: AckKind::Puback, id: pid, reason: 0x80, props: vec![], form: AckForm::Short3 });
            r.sim.settle();
            rep.add("evaluations", 1);
            rep.add("acks_decoded", 1);
            rep.distinct(&("ackid", pid));
            let ok = got == pid && matches!(&r.sim.ops[op].out, Some(OpOut::Unit(Err(ErrSum::PubackError(e)))) if e.reason == 0x80);
            if !ok {
                viol(rep, "C02/value-mismatch/pkt=Puback/packet-identifier".into(), &id, format!("packet identifier {pid}: wire id {got}, result {:?}", r.sim.ops[op].out.as_ref().map(|x| x.brief())), &r.sim);
            } else {
                rep.add("values_matched", 1);
            }
        }
    }
}

fn suback_cases(rep: &mut Rep, idx: &mut u64) {
    let mut rng = Rng::new(rep.seed ^ 0xC02C);
    let mut r = running(rep.seed);
    let ss = strs(true);
    let mut prop_sets: Vec<Vec<Prop>> = vec![vec![]];
    for s in &ss {
        prop_sets.push(vec![Prop::str(31, s)]);
        prop_sets.push(vec![Prop::pair(s, s)]);
    }
    prop_sets.push(vec![Prop::pair("a", "1"), Prop::str(31, "r"), Prop::pair("a", "2")]);
    rep.note("SUBACK/UNSUBACK: every legal reason code, 1..5 reason codes per packet, property sets x orders; PINGRESP");
    for is_sub in [true, false] {
        let legal = if is_sub { rc::SUBACK_REASONS } else { rc::UNSUBACK_REASONS };
        for nf in 1..=5usize {
            for (ri, _) in legal.iter().enumerate() {
                for (pi, set) in prop_sets.iter().enumerate() {
                    if nf > 1 && pi > 3 && (pi + ri) % 5 != 0 {
                        continue;
                    }
                    for (oi, props) in orders(set, &mut rng).into_iter().enumerate() {
                        let id = format!("suback:{}:{nf}:{ri}:{pi}:{oi}", is_sub as u8);
                        *idx += 1;
                        if !rep.take(*idx, &id) {
                            continue;
                        }
                        if r.used > 120 || r.sim.run_result().is_some() {
                            r = running(rep.seed);
                        }
                        let reasons: Vec<u8> = (0..nf).map(|k| legal[(ri + k * 3) % legal.len()]).collect();
                        let filters: Vec<String> = (0..nf).map(|k| format!("f/{k}")).collect();
                        let (op, pid) = if is_sub {
                            start(&mut r, OpSpec::Subscribe(SubSpec { filters: filters.iter().map(|f| (f.clone(), SubOptSpec::default())).collect(), user_props: vec![] }))
                        } else {
                            start(&mut r, OpSpec::Unsubscribe(UnsubSpec { filters, user_props: vec![] }))
                        };
                        let pkt = if is_sub { SPacket::Suback { id: pid, props: props.clone(), reasons: reasons.clone() } } else { SPacket::Unsuback { id: pid, props: props.clone(), reasons: reasons.clone() } };
                        r.sim.feed_packet(&pkt);
                        r.sim.settle();
                        rep.add("evaluations", 1);
                        rep.add("subacks_decoded", 1);
                        rep.distinct(&("suback", is_sub, nf, ri, pi, oi));
                        for p in r.sim.panics.clone() {
                            viol(rep, format!("C02/panic/{p}"), &id, format!("panic: {p}"), &r.sim);
                        }
                        let e = SubackSum { reasons, reason_string: get_str(&props, 31), user_props: rc::user_props(&props) };
                        let want = if is_sub { OpOut::Suback(Ok(e)) } else { OpOut::Unsuback(Ok(e)) };
                        let got = r.sim.ops[op].out.clone();
                        if got.as_ref() != Some(&want) {
                            let rejected = r.sim.run_result().is_some();
                            viol(rep, format!("C02/{}/pkt={}", if rejected { "rejected" } else { "value-mismatch" }, if is_sub { "SUBACK" } else { "UNSUBACK" }), &id, format!("got {:?}, expected {}; run() = {:?}", got.map(|g| g.brief()), want.brief(), r.sim.run_result()), &r.sim);
                        } else {
                            rep.add("values_matched", 1);
                        }
                    }
                }
            }
        }
    }
    // PINGRESP
    for k in 0..5 {
        let id = format!("pingresp:{k}");
        *idx += 1;
        if !rep.take(*idx, &id) {
            continue;
        }
        let mut r = running(rep.seed);
        let ops: Vec<usize> = (0..=k).map(|_| r.sim.start_op(0, OpSpec::Ping)).collect();
        r.sim.settle();
        for (j, &op) in ops.iter().enumerate() {
            r.sim.feed_packet(&SPacket::Pingresp);
            r.sim.settle();
            let done: Vec<bool> = ops.iter().map(|&o| r.sim.ops[o].out.is_some()).collect();
            let ok = done.iter().enumerate().all(|(x, d)| *d == (x <= j)) && matches!(r.sim.ops[op].out, Some(OpOut::Unit(Ok(()))));
            if !ok {
                viol(rep, "C02/rejected/pkt=PINGRESP".into(), &id, format!("after {} PINGRESP: completion vector {:?}", j + 1, done), &r.sim);
            } else {
                rep.add("values_matched", 1);
            }
        }
        rep.add("evaluations", 1);
        rep.distinct(&("pingresp", k));
    }
}

fn publish_cases(rep: &mut Rep, idx: &mut u64) {
    let mut rng = Rng::new(rep.seed ^ 0xC02D);
    let ss = strs(true);
    let small = strs(false);
    let typical: Vec<Prop> = vec![
        Prop::byte(1, 1),
        Prop::u32(2, 3600),
        Prop::u16(35, 7),
        Prop::str(8, "resp/topic"),
        Prop::bin(9, b"\x00corr\xff"),
        Prop::str(3, "application/json"),
        Prop::pair("k", "v"),
    ];
    let mut sets: Vec<Vec<Prop>> = vec![vec![]];
    for b in [0u8, 1] {
        sets.push(vec![Prop::byte(1, b)]);
    }
    for v in [0u32, 1, 65536, u32::MAX] {
        sets.push(vec![Prop::u32(2, v)]);
    }
    for v in [1u16, 255, 256, 65535] {
        sets.push(vec![Prop::u16(35, v)]);
    }
    for s in &ss {
        sets.push(vec![Prop::str(8, s)]);
        sets.push(vec![Prop::str(3, s)]);
        sets.push(vec![Prop::pair(s, "x"), Prop::pair("y", s)]);
    }
    for b in bins(true) {
        sets.push(vec![Prop::bin(9, &b)]);
    }
    for i in 0..typical.len() {
        for j in i + 1..typical.len() {
            sets.push(vec![typical[i].clone(), typical[j].clone()]);
        }
    }
    sets.push(typical.clone());
    for n in 2..=4 {
        let mut v = typical.clone();
        for k in 0..n {
            v.push(Prop::pair(if k % 2 == 0 { "k" } else { "k2" }, &format!("{k}")));
        }
        sets.push(v);
    }
    let nrand = if rep.quick() { 300 } else { 150000 };
    for _ in 0..nrand {
        let mut v = Vec::new();
        for t in &typical {
            if rng.chance(1, 2) {
                v.push(t.clone());
            }
        }
        for _ in 0..rng.below(3) {
            { let a = rng.pick(&small[..]).clone(); let b = rng.pick(&small[..]).clone(); v.push(Prop::pair(&a, &b)); }
        }
        sets.push(v);
    }
    // Payload Format Indicator 0 ("unspecified bytes") as well as 1: every second set that carries the indicator gets value 0
    for (k, set) in sets.iter_mut().enumerate() {
        if k % 2 == 1 {
            for p in set.iter_mut() {
                if p.id == 1 {
                    *p = Prop::byte(1, 0);
                }
            }
        }
    }
    let sub_ids = [1u32, 127, 128, 16383, 16384, 2_097_151, 2_097_152, 268_435_455];
    let pkt_ids = [1u16, 255, 256, 65535];
    rep.note(&format!("PUBLISH: {} property sets x orders x QoS/DUP/retain flags x packet identifiers {{1,255,256,65535}} x subscription identifiers at every variable-byte-integer step, topics of boundary lengths, payload sizes 0..2100 (every size) and around 16 KiB / 2 MiB", sets.len()));
    let mut n = 0usize;
    let mut one_case = |rep: &mut Rep, id: &str, n: usize, props_nosub: Vec<Prop>, topic: String, payload: Vec<u8>, flags: (bool, u8, bool)| {
        let mut sim = Sim::new(rep.seed);
        sim.log_enabled = payload.len() < 5000;
        sim.cmd(Cmd::Connect(ConnSpec::default()));
        sim.settle();
        sim.feed_packet(&SPacket::Connack { session_present: false, reason: 0, props: vec![] });
        sim.settle();
        sim.cmd(Cmd::Run);
        sim.settle();
        let sid = sub_ids[n % sub_ids.len()];
        sim.handles[0].as_ref().unwrap().verif_seed_ids(9, sid);
        let op = sim.start_op(0, OpSpec::Subscribe(SubSpec::simple("x/#")));
        sim.settle();
        sim.feed_packet(&SPacket::Suback { id: 9, props: vec![], reasons: vec![0] });
        sim.settle();
        let Some(st) = sim.take_stream(op) else {
            viol(rep, "C02/harness/no-stream".into(), id, "subscribe did not complete".into(), &sim);
            return;
        };
        let (dup, qos, retain) = flags;
        let mut props = props_nosub.clone();
        // the subscription identifier goes to a PRNG-chosen position among the properties
        let pos = if props.is_empty() { 0 } else { n % (props.len() + 1) };
        props.insert(pos, Prop::var(11, sid));
        let pid = pkt_ids[n % pkt_ids.len()];
        let p = rc::Publish { dup, qos, retain, topic: topic.clone(), id: if qos > 0 { Some(pid) } else { None }, props: props.clone(), payload: payload.clone() };
        // the packet arrives whole, or with one read boundary 1-5 bytes in (inside / right behind its fixed header), or byte by byte
        match n % 8 {
            1..=5 => sim.cut_after = Some(n % 8),
            6 if payload.len() < 3000 => sim.trickle = Some(1),
            _ => {}
        }
        if sim.cut_after.is_some() || sim.trickle.is_some() {
            rep.add("packets_delivered_in_pieces", 1);
        }
        sim.feed_packet(&SPacket::Publish(p));
        sim.settle();
        sim.cut_after = None;
        sim.trickle = None;
        sim.drain_stream(st);
        rep.add("evaluations", 1);
        rep.add("publishes_decoded", 1);
        for p in sim.panics.clone() {
            viol(rep, format!("C02/panic/{p}"), id, format!("panic decoding PUBLISH: {p}"), &sim);
        }
        let e = MsgSum {
            dup,
            retain,
            qos,
            topic,
            pfi: get_byte(&props, 1).map(|b| b == 1),
            topic_alias: get_u16(&props, 35),
            mei: get_u32(&props, 2).map(|v| v as u64),
            correlation: get_bin(&props, 9),
            response_topic: get_str(&props, 8),
            content_type: get_str(&props, 3),
            payload,
            user_props: rc::user_props(&props),
        };
        let items = sim.streams[st].items.clone();
        if items.len() != 1 {
            viol(rep, format!("C02/rejected/pkt=PUBLISH/items={}", items.len()), id, format!("well-formed PUBLISH (q{qos}, sub id {sid}, {} props, payload {} bytes) produced {} stream items; run() = {:?}", props.len(), e.payload.len(), items.len(), sim.run_result()), &sim);
        } else if items[0] != e {
            let g = &items[0];
            let field = if g.dup != e.dup || g.qos != e.qos || g.retain != e.retain {
                "flags"
            } else if g.topic != e.topic {
                "topic"
            } else if g.payload != e.payload {
                "payload"
            } else if g.user_props != e.user_props {
                "user_property"
            } else if g.pfi != e.pfi {
                "payload_format_indicator"
            } else if g.topic_alias != e.topic_alias {
                "topic_alias"
            } else if g.mei != e.mei {
                "message_expiry_interval"
            } else if g.correlation != e.correlation {
                "correlation_data"
            } else if g.response_topic != e.response_topic {
                "response_topic"
            } else {
                "content_type"
            };
            viol(rep, format!("C02/value-mismatch/pkt=PUBLISH/field={field}"), id, format!("stream item differs from the encoded PUBLISH in {field}"), &sim);
        } else {
            // the packets behind it are accepted as well: a short PUBLISH and a PINGRESP-sized packet follow on the same connection
            let sentinel = rc::Publish { dup: false, qos: 0, retain: false, topic: "x/sentinel".into(), id: None, props: vec![Prop::var(11, sid)], payload: vec![0xAB; 1 + n % 200] };
            sim.feed_packet(&SPacket::Publish(sentinel.clone()));
            sim.settle();
            sim.drain_stream(st);
            rep.add("follow_up_packets", 1);
            let got = sim.streams[st].items.clone();
            if got.len() != 2 || got[1].payload != sentinel.payload || got[1].topic != sentinel.topic || sim.run_result().is_some() {
                viol(rep, "C02/rejected/pkt=PUBLISH/following-packet".into(), id, format!("the well-formed PUBLISH whose last byte is byte {} of the connection's inbound stream was not accepted: {} stream items, run() = {:?}", sim.reader.0.borrow().total_read, got.len(), sim.run_result()), &sim);
            }
            rep.add("values_matched", 1);
            rep.sample(|| format!("{id}: PUBLISH q{qos} dup={dup} retain={retain} sub id {sid} props {:?} payload {} bytes -> item matches", props.iter().map(|p| rc::prop_name(p.id)).collect::<Vec<_>>(), e.payload.len()));
        }
    };
    for (k, set) in sets.iter().enumerate() {
        for (oi, props) in orders(set, &mut rng).into_iter().enumerate() {
            let id = format!("publish:{k}:{oi}");
            *idx += 1;
            n += 1;
            if !rep.take(*idx, &id) {
                continue;
            }
            let flags = [(false, 0u8, false), (false, 1, true), (true, 1, false), (false, 2, false), (true, 2, true), (false, 0, true)][n % 6];
            let topic = if k % 5 == 0 { ss[(k / 5) % ss.len()].clone() } else { "x/y".to_string() };
            let topic = if topic.is_empty() && rc::find(&props, 35).is_none() { "x".to_string() } else { topic };
            rep.distinct(&("publish", k, oi));
            // the payload is text (with multi-byte characters) only where the packet says so (Payload Format Indicator 1);
            // otherwise - indicator absent or 0 - it is arbitrary bytes that are not valid UTF-8
            let mut payload = format!("payload-{k}-\u{e9}\u{4e16}").into_bytes();
            if get_byte(&props, 1) != Some(1) {
                payload.extend_from_slice(&[0xff, 0xfe, 0x00, 0x80, 0xc3]);
                rep.add("publishes_with_non_utf8_payload", 1);
            }
            one_case(rep, &id, n, props, topic, payload, flags);
        }
    }
    // payload sizes across the receive buffer steps and the remaining-length widths
    let mut sizes: Vec<usize> = (0..=2100).step_by(if rep.quick() { 3 } else { 1 }).collect();
    // every size around the receive buffer steps also in the quick tier
    for c in [512usize, 1024, 2048] {
        sizes.extend(c - 50..=c + 10);
    }
    sizes.extend(4040..=4100);
    sizes.sort();
    sizes.dedup();
    sizes.extend([16_370, 16_380, 16_383, 16_384, 16_390, 65_535, 65_536]);
    if !rep.quick() {
        sizes.extend([2_097_140, 2_097_151, 2_097_152, 2_097_160]);
    } else {
        sizes.push(2_097_150);
    }
    for sz in sizes {
        let id = format!("publish-size:{sz}");
        *idx += 1;
        n += 1;
        if !rep.take(*idx, &id) {
            continue;
        }
        let payload: Vec<u8> = (0..sz).map(|i| (i % 251) as u8).collect();
        rep.distinct(&("publish-size", sz));
        rep.add("payload_sizes", 1);
        one_case(rep, &id, n, vec![Prop::pair("s", "z")], "x/size".into(), payload, (false, (n % 3) as u8, false));
    }
}

fn disconnect_cases(rep: &mut Rep, idx: &mut u64) {
    let mut rng = Rng::new(rep.seed ^ 0xC02E);
    let ss = strs(true);
    let mut prop_sets: Vec<Vec<Prop>> = vec![vec![]];
    for s in &ss {
        prop_sets.push(vec![Prop::str(31, s)]);
        prop_sets.push(vec![Prop::str(28, s)]);
        prop_sets.push(vec![Prop::pair(s, s)]);
    }
    prop_sets.push(vec![Prop::str(31, "r"), Prop::str(28, "srv"), Prop::pair("a", "1"), Prop::pair("a", "2")]);
    rep.note(&format!("DISCONNECT: all 28 server reason codes x forms {{remaining length 0, 1, full}} x {} property sets x orders", prop_sets.len()));
    for &reason in rc::DISCONNECT_REASONS_SERVER {
        for (pi, set) in prop_sets.iter().enumerate() {
            let mut forms = vec![2u8];
            if set.is_empty() {
                forms.push(1);
                if reason == 0 {
                    forms.push(0);
                }
            }
            for form in forms {
                for (oi, props) in orders(set, &mut rng).into_iter().enumerate() {
                    let id = format!("disconnect:{reason:#x}:{pi}:{form}:{oi}");
                    *idx += 1;
                    if !rep.take(*idx, &id) {
                        continue;
                    }
                    let mut r = running(rep.seed);
                    r.sim.feed_packet(&SPacket::Disconnect { reason, props: props.clone(), form });
                    r.sim.settle();
                    rep.add("evaluations", 1);
                    rep.add("disconnects_decoded", 1);
                    rep.distinct(&("disconnect", reason, pi, form, oi));
                    for p in r.sim.panics.clone() {
                        viol(rep, format!("C02/panic/{p}"), &id, format!("panic: {p}"), &r.sim);
                    }
                    let want: Result<(), ErrSum> = if reason == 0 {
                        Ok(())
                    } else {
                        Err(ErrSum::Disconnected { reason, sei: 0, reason_string: get_str(&props, 31), server_reference: get_str(&props, 28), user_props: rc::user_props(&props) })
                    };
                    match r.sim.run_result() {
                        Some(g) if g == want => rep.add("values_matched", 1),
                        other => {
                            let rejected = matches!(other, Some(Err(ErrSum::Codec(_))) | None);
                            viol(rep, format!("C02/{}/pkt=DISCONNECT/form={form}", if rejected { "rejected" } else { "value-mismatch" }), &id, format!("DISCONNECT reason {reason:#x} props {:?}: run() -> {:?}, expected {:?}", props.iter().map(|p| rc::prop_name(p.id)).collect::<Vec<_>>(), other, want), &r.sim);
                        }
                    }
                }
            }
        }
    }
}

/// Two operations of one kind outstanding whose packet identifiers agree in one of their bytes: each acknowledgement is a
/// well-formed packet of its own, and the values decoded from it must be exposed to the request whose identifier it bears -
/// not to the other one.
fn neighbouring_identifiers(rep: &mut Rep, idx: &mut u64) {
    let pairs: [(u16, u16); 8] = [(1, 257), (5, 0x0305), (0x00ff, 0xffff), (256, 512), (0x0100, 0x0101), (0x1234, 0x1334), (0x1234, 0x5634), (2, 65282)];
    rep.note(&format!("neighbouring identifiers: two subscribes / unsubscribes / QoS 1 publishes / QoS 2 publishes (PUBREC, and PUBCOMP) outstanding under identifier pairs {:x?} (equal low byte, equal high byte), acknowledged in reverse order with distinct reason codes, reason strings and user properties: each request sees the content of the packet bearing its own identifier", pairs));
    for kind in 0..5u8 {
        for &(ia, ib) in &pairs {
            let id = format!("neighbours:{kind}:{ia:#x}:{ib:#x}");
            *idx += 1;
            if !rep.take(*idx, &id) {
                continue;
            }
            let mut r = running(rep.seed);
            let spec = |tag: &str| -> OpSpec {
                match kind {
                    0 => OpSpec::Subscribe(SubSpec::simple(&format!("f/{tag}"))),
                    1 => OpSpec::Unsubscribe(UnsubSpec::simple(&format!("f/{tag}"))),
                    2 => OpSpec::Publish(PubSpec::simple(1, &format!("t/{tag}"), b"x")),
                    _ => OpSpec::Publish(PubSpec::simple(2, &format!("t/{tag}"), b"y")),
                }
            };
            r.sim.handles[0].as_ref().unwrap().verif_seed_ids(ia, 10);
            let (oa, ga) = start(&mut r, spec("a"));
            r.sim.handles[0].as_ref().unwrap().verif_seed_ids(ib, 20);
            let (ob, gb) = start(&mut r, spec("b"));
            if (ga, gb) != (ia, ib) {
                // the hook positions the counter one before the wanted value; if the allocator works differently the pair is
                // simply another one
                rep.add("neighbour_pairs_with_other_identifiers", 1);
            }
            if kind == 4 {
                // QoS 2 in its second phase: PUBREC for both first
                for pid in [ga, gb] {
                    r.sim.feed_packet(&SPacket::Ack { kind: AckKind::Pubrec, id: pid, reason: 0, props: vec![], form: AckForm::Short2 });
                    r.sim.settle();
                }
            }
            let mk = |pid: u16, tag: &str, reason_idx: usize| -> SPacket {
                let props = vec![Prop::str(31, &format!("for-{tag}")), Prop::pair("who", tag)];
                match kind {
                    0 => SPacket::Suback { id: pid, props, reasons: vec![[0x00u8, 0x01, 0x02, 0x80][reason_idx]] },
                    1 => SPacket::Unsuback { id: pid, props, reasons: vec![[0x00u8, 0x11, 0x80, 0x87][reason_idx]] },
                    2 => SPacket::Ack { kind: AckKind::Puback, id: pid, reason: [0x80u8, 0x87, 0x90, 0x97][reason_idx], props, form: AckForm::Full },
                    3 => SPacket::Ack { kind: AckKind::Pubrec, id: pid, reason: [0x80u8, 0x87, 0x90, 0x97][reason_idx], props, form: AckForm::Full },
                    _ => SPacket::Ack { kind: AckKind::Pubcomp, id: pid, reason: 0x92, props, form: AckForm::Full },
                }
            };
            // the later request is answered first
            r.sim.feed_packet(&mk(gb, "b", 1));
            r.sim.settle();
            r.sim.feed_packet(&mk(ga, "a", 2));
            r.sim.settle();
            rep.add("evaluations", 1);
            rep.add("neighbouring_identifier_cases", 1);
            rep.distinct(&("neighbours", kind, ia, ib));
            for p in r.sim.panics.clone() {
                viol(rep, format!("C02/panic/{p}"), &id, format!("panic: {p}"), &r.sim);
            }
            for (op, tag, pid) in [(oa, "a", ga), (ob, "b", gb)] {
                let want = Some(format!("for-{tag}"));
                let got: Option<Option<String>> = match &r.sim.ops[op].out {
                    Some(OpOut::Suback(Ok(s))) | Some(OpOut::Unsuback(Ok(s))) => Some(s.reason_string.clone()),
                    Some(OpOut::Unit(Err(ErrSum::PubackError(e)))) | Some(OpOut::Unit(Err(ErrSum::PubrecError(e)))) | Some(OpOut::Unit(Err(ErrSum::PubcompError(e)))) => Some(e.reason_string.clone()),
                    _ => None,
                };
                if got != Some(want.clone()) {
                    viol(rep, format!("C02/value-mismatch/pkt={}/exposed-to-another-request", ["SUBACK", "UNSUBACK", "PUBACK", "PUBREC", "PUBCOMP"][kind as usize]), &id, format!("request {tag} (identifier {pid:#06x}): its acknowledgement carries reason string {:?}; the request sees {:?} (result {:?})", want, got, r.sim.ops[op].out.as_ref().map(|o| o.brief())), &r.sim);
                } else {
                    rep.add("values_compared", 1);
                }
            }
        }
    }
}

/// The Maximum Packet Size in the server's CONNACK binds the client's packets, not the server's: well-formed packets from the
/// server that are larger than it decode like any others.
fn larger_than_the_servers_own_limit(rep: &mut Rep, idx: &mut u64) {
    rep.note("inbound packets larger than the Maximum Packet Size the server announced for itself (20 / 64 / 1000): PUBLISH of 100 / 209 / 20 000 bytes, SUBACK and PUBACK with long reason strings: decoded and exposed as sent, run() goes on");
    for m in [20u32, 64, 1000] {
        for size in [100usize, 209, 2000, 20_000] {
            let id = format!("beyond-own-limit:{m}:{size}");
            *idx += 1;
            if !rep.take(*idx, &id) {
                continue;
            }
            let mut sim = Sim::new(rep.seed);
            sim.cmd(Cmd::Connect(ConnSpec::default()));
            sim.settle();
            sim.feed_packet(&SPacket::Connack { session_present: false, reason: 0, props: vec![Prop::u32(39, m), Prop::u16(33, 10)] });
            sim.settle();
            sim.cmd(Cmd::Run);
            sim.settle();
            sim.parse_wire();
            let mut r = Running { sim, used: 0 };
            // "s" keeps the SUBSCRIBE under 20 bytes
            let (sop, sid_pkt) = start(&mut r, OpSpec::Subscribe(SubSpec::simple("s")));
            let long = "r".repeat(size);
            r.sim.feed_packet(&SPacket::Suback { id: sid_pkt, props: vec![Prop::str(31, &long)], reasons: vec![0] });
            r.sim.settle();
            let sub_ok = matches!(&r.sim.ops[sop].out, Some(OpOut::Suback(Ok(s))) if s.reason_string.as_deref() == Some(long.as_str()));
            let st = r.sim.take_stream(sop);
            let payload: Vec<u8> = (0..size).map(|j| (j % 251) as u8).collect();
            r.sim.feed_packet(&SPacket::Publish(rc::Publish { dup: false, qos: 0, retain: false, topic: "s".into(), id: None, props: vec![Prop::var(11, 1)], payload: payload.clone() }));
            r.sim.settle();
            let got = st.map(|st| {
                r.sim.drain_stream(st);
                r.sim.streams[st].items.iter().map(|m| m.payload.clone()).collect::<Vec<_>>()
            });
            rep.add("evaluations", 1);
            rep.add("inbound_packets_beyond_the_servers_own_limit", 2);
            rep.distinct(&("beyond-own-limit", m, size));
            for p in r.sim.panics.clone() {
                viol(rep, format!("C02/panic/{p}"), &id, format!("panic: {p}"), &r.sim);
            }
            if !sub_ok {
                viol(rep, "C02/rejected/pkt=SUBACK/larger-than-the-servers-own-limit".into(), &id, format!("CONNACK announced Maximum Packet Size {m} (a limit for the client); a SUBACK of {} bytes was not exposed as sent: {:?}; run() = {:?}", size + 10, r.sim.ops[sop].out.as_ref().map(|o| o.brief()), r.sim.run_result()), &r.sim);
            } else if got != Some(vec![payload]) || r.sim.run_result().is_some() {
                viol(rep, "C02/rejected/pkt=PUBLISH/larger-than-the-servers-own-limit".into(), &id, format!("CONNACK announced Maximum Packet Size {m} (a limit for the client); an inbound PUBLISH with {size} bytes of payload was not yielded as sent; run() = {:?}", r.sim.run_result()), &r.sim);
            } else {
                rep.add("values_compared", 2);
            }
        }
    }
}

pub fn run(rep: &mut Rep) {
    let mut idx = 70_000_000u64;
    neighbouring_identifiers(rep, &mut idx);
    larger_than_the_servers_own_limit(rep, &mut idx);
    let mut idx = 0u64;
    connack_cases(rep, &mut idx);
    auth_cases(rep, &mut idx);
    ack_cases(rep, &mut idx);
    suback_cases(rep, &mut idx);
    publish_cases(rep, &mut idx);
    disconnect_cases(rep, &mut idx);
}
