//! C08 — every inbound QoS>0 PUBLISH / PUBREL acknowledged exactly once, with its id, in order.

use super::{add_counters, harvest};
use crate::report::Rep;
use crate::sim::Rng;
use crate::world::*;

#[derive(Clone, Copy, Debug, PartialEq, Eq, Hash)]
pub enum SubSel {
    Registered,
    Dropped,
    Never,
    Absent,
}

#[derive(Clone, Copy, Debug, PartialEq, Eq, Hash)]
pub enum In {
    Pub { qos: u8, id: u16, dup: bool, sub: SubSel },
    Rel { id: u16 },
}

pub fn alphabet(ids: &[u16]) -> Vec<In> {
    let mut v = Vec::new();
    let subs = [SubSel::Registered, SubSel::Dropped, SubSel::Never, SubSel::Absent];
    for sub in subs {
        v.push(In::Pub { qos: 0, id: 0, dup: false, sub });
    }
    for qos in [1u8, 2] {
        for &id in ids {
            for dup in [false, true] {
                for sub in subs {
                    v.push(In::Pub { qos, id, dup, sub });
                }
            }
        }
    }
    for &id in ids {
        v.push(In::Rel { id });
    }
    v
}

pub struct Setup {
    pub w: World,
    pub reg_sub: u32,
    pub dropped_sub: u32,
}

/// two subscriptions: one with a live stream, one whose stream was dropped
pub fn setup(seed: u64) -> Setup {
    let mut w = World::boot(WorldCfg { seed, ..Default::default() });
    let a = w.start(0, Kind::Sub);
    w.settle_check();
    w.deliver_ack(a, 1, 0, 0);
    w.settle_check();
    w.take_stream(a);
    let b = w.start(0, Kind::Sub);
    w.settle_check();
    w.deliver_ack(b, 1, 0, 0);
    w.settle_check();
    let reg_sub = w.sub_id_of(a).unwrap_or(1);
    let dropped_sub = w.sub_id_of(b).unwrap_or(2);
    w.drop_stream(b);
    Setup { w, reg_sub, dropped_sub }
}

pub fn apply(s: &mut Setup, a: In) {
    match a {
        In::Pub { qos, id, dup, sub } => {
            let subids: Vec<u32> = match sub {
                SubSel::Registered => vec![s.reg_sub],
                SubSel::Dropped => vec![s.dropped_sub],
                SubSel::Never => vec![7777],
                SubSel::Absent => vec![],
            };
            s.w.in_publish(qos, id, dup, &subids, false);
        }
        In::Rel { id } => s.w.in_pubrel(id),
    }
}

pub fn run(rep: &mut Rep) {
    let alpha = alphabet(&[1, 2]);
    let len = if rep.quick() { 3 } else { 5 };
    let n = alpha.len();
    let total = (n as u64).pow(len as u32);
    rep.note(&format!("exhaustive: all {total} sequences of length {len} over an alphabet of {n} inbound packets (PUBLISH qos 0/1/2 x id 1/2 x DUP x subscription identifier registered/stream-dropped/never-registered/absent; PUBREL id 1/2), check after every packet"));
    for idx in 0..total {
        let mut seq = Vec::with_capacity(len);
        let mut k = idx;
        for _ in 0..len {
            seq.push(alpha[(k % n as u64) as usize]);
            k /= n as u64;
        }
        let id = format!("exh:{len}:{idx}");
        if !rep.take(idx, &id) {
            continue;
        }
        let mut s = setup(rep.seed);
        for a in &seq {
            apply(&mut s, *a);
            s.w.settle_check();
        }
        rep.add("evaluations", 1);
        rep.distinct(&(&seq, s.w.shape()));
        if harvest(rep, &mut s.w, &id) == 0 {
            rep.sample(|| format!("{:?} -> wire acks matched {}", seq, s.w.counters.inbound_acks_matched));
        }
        add_counters(rep, &s.w);
    }
    // messages addressed to dropped and live streams at once (every subset, both identifier orders): acknowledged all the same
    super::c15::dropped_streams_next_to_live_ones(rep, false);
    // large packets in front of small ones, everything available at once, reads limited to a cap: acknowledgements of
    // what follows a large packet (whole or partly in the same read) must come out one-to-one, in order
    let sizes: Vec<usize> = if rep.quick() { vec![0, 1, 2, 100, 600, 1500, 4000, 4097, 5000, 9000, 20_000, 70_000, 2_097_100, 2_097_140, 2_097_152, 2_100_000] } else { (0..130).chain((3900..4300).step_by(7)).chain([600, 1500, 8191, 8192, 8193, 9000, 16_384, 20_000, 65_536, 70_000, 300_000, 2_097_100, 2_097_130, 2_097_140, 2_097_152, 2_100_000, 5_000_000]).collect() };
    let caps: [usize; 7] = [usize::MAX, 1000, 700, 512, 333, 100, 7];
    rep.note(&format!("backlog behind a packet of every size class: inbound PUBLISH with a payload of {:?} bytes (QoS 0/1/2; 0 = the property block ends the packet) directly followed by QoS 1 PUBLISH, QoS 2 PUBLISH, PUBREL, QoS 1 PUBLISH - all bytes available at once, every read capped at {:?} bytes: acknowledgements matched one-to-one in order", sizes, caps));
    let mut bidx = total + 50_000_000;
    for (si, &sz) in sizes.iter().enumerate() {
        for (ci, &cap) in caps.iter().enumerate() {
            let id = format!("big:{sz}:{ci}");
            bidx += 1;
            if !rep.take(bidx, &id) {
                continue;
            }
            let mut s = setup(rep.seed);
            s.w.sim.log_enabled = sz < 10_000;
            s.w.sim.capture = Some(Vec::new());
            let q = ((si + ci) % 3) as u8;
            let reg = s.reg_sub;
            s.w.in_publish_sized(q, 100, false, &[reg], sz);
            if q == 2 {
                s.w.in_pubrel(100);
            }
            s.w.in_publish(1, 1, false, &[reg], false);
            s.w.in_publish(2, 2, false, &[], false);
            s.w.in_pubrel(2);
            s.w.in_publish(1, 3, true, &[7777], false);
            let bytes = s.w.sim.capture.take().unwrap();
            s.w.sim.reader.0.borrow_mut().default_cap = cap;
            s.w.sim.feed(&bytes);
            s.w.settle_check();
            s.w.sim.reader.0.borrow_mut().default_cap = usize::MAX;
            // one more round trip shows the connection is still in step
            s.w.in_publish(1, 4, false, &[reg], false);
            s.w.settle_check();
            super::script::finish(&mut s.w);
            rep.add("evaluations", 1);
            rep.add("large_packet_backlog_cases", 1);
            if sz >= 2_097_152 {
                rep.add("backlog_cases_behind_a_four_byte_remaining_length", 1);
            }
            rep.distinct(&("big", sz, ci));
            if harvest(rep, &mut s.w, &id) == 0 {
                rep.sample(|| format!("{id}: {} bytes in reads of <= {cap}: {} acknowledgements matched in order", bytes.len(), s.w.counters.inbound_acks_matched));
            }
            add_counters(rep, &s.w);
        }
    }
    // acknowledgements across connections of the same Context: whatever was left of an acknowledgement whose write failed
    // belongs to the dead connection; the new connection carries exactly one acknowledgement per packet it delivers
    rep.note("acknowledgement write failure, then a new connection: the write of a PUBACK / PUBREC / PUBCOMP fails after 0-3 bytes, run() ends, the same Context is connected again (no disconnection recorded / session resumed / session expired), the broker delivers QoS 0/1/2 PUBLISH and PUBREL packets: the new wire carries exactly their acknowledgements, in order");
    let mut fidx = total + 60_000_000;
    for which in 0..3u8 {
        for fail_at in 0..4usize {
            for mode in 0..3u8 {
                let id = format!("ackfail:{which}:{fail_at}:{mode}");
                fidx += 1;
                if !rep.take(fidx, &id) {
                    continue;
                }
                let mut w = World::boot(WorldCfg { seed: rep.seed, sei: if mode == 2 { None } else { Some(3600) }, ..Default::default() });
                let a = w.start(0, Kind::Sub);
                w.settle_check();
                w.deliver_ack(a, 1, 0, 0);
                w.settle_check();
                w.take_stream(a);
                let sid = w.sub_id_of(a).unwrap_or(1);
                if which == 2 {
                    w.in_publish(2, 7, false, &[sid], false);
                    w.settle_check();
                }
                let at = w.sim.written_len() + fail_at;
                w.sim.writer.0.borrow_mut().err_at = Some(at);
                w.sim.note(|| format!("transport: writes fail from offset {at}"));
                w.term = Some(Term::WriteErr);
                match which {
                    0 => w.in_publish(1, 5, false, &[sid], false),
                    1 => w.in_publish(2, 5, false, &[sid], false),
                    _ => w.in_pubrel(7),
                }
                w.settle_check();
                let opts = match mode {
                    0 => ResumeOpts { plain: true, ..Default::default() },
                    1 => ResumeOpts { secs_ago: 1, sei: Some(3600), ..Default::default() },
                    _ => ResumeOpts { secs_ago: 1, sei: None, expect_expired: true, ..Default::default() },
                };
                w.resume_full(opts);
                w.settle_check();
                if !w.blind {
                    w.in_publish(0, 0, false, &[], false);
                    w.settle_check();
                    w.in_pubrel(9);
                    w.settle_check();
                    w.in_publish(1, 11, false, &[], false);
                    w.settle_check();
                    w.in_publish(2, 12, true, &[7777], false);
                    w.settle_check();
                    w.in_pubrel(12);
                    w.settle_check();
                }
                super::script::finish(&mut w);
                rep.add("evaluations", 1);
                rep.add("ack_write_failure_cases", 1);
                rep.distinct(&("ackfail", which, fail_at, mode));
                if harvest(rep, &mut w, &id) == 0 {
                    rep.sample(|| format!("{id}: {} acknowledgements matched on the new connection", w.counters.inbound_acks_matched));
                }
                add_counters(rep, &w);
            }
        }
    }
    super::c09::wide(rep, 800_000_000);
    // random longer sequences with ids across the 16-bit range, interleaved with client operations
    let walks = if rep.quick() { 300 } else { 20000 };
    for widx in 0..walks {
        let id = format!("rand:{widx}");
        if !rep.take(total + widx, &id) {
            continue;
        }
        let mut rng = Rng::new(rep.seed.wrapping_mul(7919).wrapping_add(widx));
        let mut s = setup(rep.seed.wrapping_add(widx));
        // the order of acknowledgements must also survive partial / pending writes and a stalled writer
        s.w.sim.writer.0.borrow_mut().plan = match widx % 4 {
            1 => crate::sim::WritePlan::Max(1),
            2 => crate::sim::WritePlan::MaxPendingAlt(2),
            3 => crate::sim::WritePlan::Max(3),
            _ => crate::sim::WritePlan::All,
        };
        let ids: Vec<u16> = vec![1, 2, 255, 256, 257, 0x7fff, 0x8000, 65535, (rng.next() % 65535 + 1) as u16];
        let alpha2 = alphabet(&ids);
        let steps = 40;
        let mut seq = Vec::new();
        for _ in 0..steps {
            if rng.chance(1, 5) {
                // client traffic in between
                let kind = *rng.pick(&[Kind::Pub0, Kind::Pub1, Kind::Ping, Kind::Unsub]);
                s.w.start(0, kind);
                s.w.settle_check();
                if rng.chance(1, 2) {
                    if let Some(&(i, st)) = s.w.ackable().first() {
                        s.w.deliver_ack(i, st, 0, 0);
                        s.w.settle_check();
                    }
                }
                continue;
            }
            if rng.chance(1, 10) {
                if s.w.sim.writer.0.borrow().stalled {
                    s.w.sim.release_writer();
                } else {
                    s.w.sim.stall_writer();
                }
            }
            let a = *rng.pick(&alpha2);
            seq.push(a);
            apply(&mut s, a);
            if rng.chance(3, 4) {
                s.w.settle_check();
            }
        }
        if s.w.sim.writer.0.borrow().stalled {
            s.w.sim.release_writer();
        }
        s.w.settle_check();
        rep.add("evaluations", 1);
        rep.add("random_walks", 1);
        rep.distinct(&(&seq, s.w.shape()));
        harvest(rep, &mut s.w, &id);
        add_counters(rep, &s.w);
    }
}
