//! C10 — Receive Maximum is never exceeded; the send quota neither leaks nor overflows.

use super::script::*;
use super::{add_counters, harvest};
use crate::enumerate::{self, Chooser};
use crate::report::Rep;
use crate::sim::Rng;
use crate::world::*;

fn probe_and_report(rep: &mut Rep, w: &mut World, id: &str) {
    if w.blind || w.term.is_some() {
        return;
    }
    // quiesce, then: exactly R - outstanding further publishes must be accepted
    let free = w.r - w.inflight;
    if free <= 4096 {
        let got = w.probe_quota(free);
        rep.add("quota_probes", 1);
        if got != free {
            let (r, inflight) = (w.r, w.inflight);
            w.viol(
                &["C10"],
                format!("C10/probe-mismatch/{}", if got < free { "slot-leaked" } else { "over-admission" }),
                format!("end-of-script probe: Receive Maximum {r}, {} outstanding per model before the probe, so {free} further QoS 1 publishes must be accepted before the first QuotaExceeded; the client accepted {got} (outstanding now {inflight})", r - free),
            );
        }
    }
    let _ = id;
}

pub fn run(rep: &mut Rep) {
    let depth = if rep.quick() { 6 } else { 8 };
    let a = Alpha {
        kinds: vec![Kind::Pub0, Kind::Pub1, Kind::Pub2],
        max_ops: 8,
        max_conc: 8,
        pub_ack_variants: vec![(0, 0), (3, 1)],
        ..Default::default()
    };
    rep.note(&format!("exhaustive: Receive Maximum R in {{1,2,3}}: every history of <= {depth} actions over {{publish QoS 0/1/2, deliver PUBACK/PUBREC/PUBCOMP of any outstanding publish with success or failure reason}}, also with Maximum Packet Size 64 and 300-byte publishes that must be refused without touching the quota; model compared at every step, hook H3 conservation invariant (internal quota + outstanding = R) at every step, end-of-script probe (exactly R - outstanding further publishes accepted)"));
    // with a Maximum Packet Size announced as well: publishes refused for their size must not touch the quota
    let mut am = a.clone();
    am.kinds = vec![Kind::Pub1, Kind::Pub2, Kind::PubBig];
    for (r, m) in [(1u16, None), (2, None), (3, None), (1, Some(64u32)), (2, Some(64))] {
        let name = format!("exh-r{r}-m{}", m.unwrap_or(0));
        let seed = rep.seed;
        let a = if m.is_some() { &am } else { &a };
        let depth = if m.is_some() { depth - 1 } else { depth };
        let body = |rep: &mut Rep, ch: &mut Chooser| {
            let mut w = World::boot(WorldCfg { seed, receive_max: Some(r), max_packet: m, h3: true, ..Default::default() });
            let acts = run_path(&mut w, a, ch);
            if m.is_some() {
                rep.add("oversize_publishes_in_quota_histories", acts.iter().filter(|x| matches!(x, Act::Start(Kind::PubBig))).count() as i64);
            }
            if ch.probe {
                return;
            }
            let id = format!("{name}:{}", ch.id());
            probe_and_report(rep, &mut w, &id);
            rep.add("evaluations", 1);
            rep.add("paths_enumerated", 1);
            rep.distinct(&(r, m, w.shape()));
            if harvest(rep, &mut w, &id) == 0 && acts.len() == depth {
                rep.sample(|| format!("{id} R={r} {:?}", acts));
            }
            add_counters(rep, &w);
        };
        if let Some(only) = rep.only.clone() {
            if let Some(path) = only.strip_prefix(&format!("{name}:")) {
                let mut ch = Chooser::fixed(enumerate::parse_id(path));
                body(rep, &mut ch);
            }
            continue;
        }
        let (shard, nshards) = (rep.shard, rep.nshards);
        let cell = std::cell::RefCell::new(&mut *rep);
        enumerate::explore(depth, 2, shard, nshards, |ch| body(&mut cell.borrow_mut(), ch));
    }
    // fill-to-the-limit and long random histories for larger R
    let rs: Vec<Option<u16>> = vec![Some(5), Some(255), Some(256), Some(1000), Some(65535), None];
    let reps = if rep.quick() { 2 } else { 12 };
    let mut idx = 0;
    for r in rs {
        for k in 0..reps {
            let id = format!("fill:{:?}:{k}", r);
            idx += 1;
            if !rep.take(idx, &id) {
                continue;
            }
            let big = r.map(|x| x as u32).unwrap_or(65535) > 2000;
            if big && rep.quick() && k > 0 {
                continue;
            }
            let mut rng = Rng::new(rep.seed.wrapping_mul(31).wrapping_add(idx));
            let mut w = World::boot(WorldCfg { seed: rep.seed + k, receive_max: r, h3: !big, ..Default::default() });
            w.sim.log_enabled = !big;
            w.light = big;
            let rr = w.r;
            // fill
            let mut outstanding: Vec<(usize, u8)> = Vec::new();
            for j in 0..rr {
                let kind = if j % 3 == 2 { Kind::Pub2 } else { Kind::Pub1 };
                let i = w.start(0, kind);
                outstanding.push((i, 1));
                if !big || j % 4096 == 0 {
                    w.settle_check();
                } else {
                    w.settle();
                }
            }
            w.settle_check();
            // at the limit: QoS>0 refused, others not limited
            w.start(0, Kind::Pub1);
            w.settle_check();
            w.start(0, Kind::Pub0);
            w.start(0, Kind::Ping);
            w.settle_check();
            // random history: acks in any order with every reason, refills
            let steps = if big { 6000 } else { 600 };
            for _ in 0..steps {
                if !outstanding.is_empty() && rng.chance(1, 2) {
                    let k2 = rng.below(outstanding.len());
                    let (i, st) = outstanding.swap_remove(k2);
                    w.deliver_ack(i, st, rng.below(9), (rng.next() % 2) as u8);
                    w.settle_check();
                    if st == 1 && w.m[i].kind == Kind::Pub2 && w.m[i].ack1_ok && w.m[i].rel_wire.is_some() {
                        outstanding.push((i, 2));
                    }
                } else {
                    let kind = *rng.pick(&[Kind::Pub1, Kind::Pub2, Kind::Pub0]);
                    let i = w.start(0, kind);
                    w.settle_check();
                    if kind != Kind::Pub0 && w.m[i].req_wire.is_some() {
                        outstanding.push((i, 1));
                    }
                }
                if w.blind {
                    break;
                }
            }
            if big {
                // drain everything, then the full quota must be available again: sample it with 300 publishes
                while let Some((i, st)) = outstanding.pop() {
                    w.deliver_ack(i, st, 0, 0);
                    w.settle();
                    if st == 1 && w.m[i].kind == Kind::Pub2 && w.m[i].rel_wire.is_none() {
                        w.check();
                    }
                    if st == 1 && w.m[i].kind == Kind::Pub2 && w.m[i].ack1_ok && w.m[i].rel_wire.is_some() {
                        outstanding.push((i, 2));
                    }
                }
                w.settle_check();
                let got = w.probe_quota(300);
                rep.add("quota_probes", 1);
                if got != 301.min(w.r) {
                    w.viol(&["C10"], "C10/probe-mismatch/slot-leaked".into(), format!("after every outstanding publish was acknowledged only {got} of 301 further publishes were accepted (Receive Maximum {})", w.r));
                }
            } else {
                probe_and_report(rep, &mut w, &id);
            }
            finish(&mut w);
            rep.add("evaluations", 1);
            rep.add("fill_runs", 1);
            rep.distinct(&(r, k, w.counters.quota_refusals, w.counters.slot_releases));
            if harvest(rep, &mut w, &id) == 0 {
                rep.sample(|| format!("{id}: filled {} slots, {} refusals at the limit, {} slot releases, max outstanding {}", rr, w.counters.quota_refusals, w.counters.slot_releases, w.max_inflight_seen));
            }
            add_counters(rep, &w);
        }
    }
}
