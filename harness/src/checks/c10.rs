//! C10 — Receive Maximum is never exceeded; the send quota neither leaks nor overflows.

use super::script::*;
use super::{add_counters, harvest};
use crate::enumerate::{self, Chooser};
use crate::report::Rep;
use crate::sim::Rng;
use crate::world::*;

fn probe_and_report(rep: &mut Rep, w: &mut World, id: &str) {
    if w.blind || w.term.is_some() {
        return;
    }
    // quiesce, then: exactly R - outstanding further publishes must be accepted
    let free = w.r - w.inflight;
    if free <= 4096 {
        let got = w.probe_quota(free);
        rep.add("quota_probes", 1);
        if got != free {
            let (r, inflight) = (w.r, w.inflight);
            w.viol(
                &["C10"],
                format!("C10/probe-mismatch/{}", if got < free { "slot-leaked" } else { "over-admission" }),
                format!("end-of-script probe: Receive Maximum {r}, {} outstanding per model before the probe, so {free} further QoS 1 publishes must be accepted before the first QuotaExceeded; the client accepted {got} (outstanding now {inflight})", r - free),
            );
        }
    }
    let _ = id;
}

pub fn run(rep: &mut Rep) {
    let depth = if rep.quick() { 6 } else { 8 };
    let a = Alpha {
        kinds: vec![Kind::Pub0, Kind::Pub1, Kind::Pub2],
        max_ops: 8,
        max_conc: 8,
        pub_ack_variants: vec![(0, 0), (3, 1)],
        ..Default::default()
    };
    rep.note(&format!("exhaustive: Receive Maximum R in {{1,2,3}} (announced in a CONNACK received by connect() or, for R = 2 and R = 1 + Maximum Packet Size, by authorize() at the end of an AUTH exchange): every history of <= {depth} actions over {{publish QoS 0/1/2, deliver PUBACK/PUBREC/PUBCOMP of any outstanding publish with success or failure reason}}, also with Maximum Packet Size 64 and 300-byte publishes that must be refused without touching the quota; model compared at every step, hook H3 conservation invariant (internal quota + outstanding = R) at every step, end-of-script probe (exactly R - outstanding further publishes accepted)"));
    // with a Maximum Packet Size announced as well: publishes refused for their size must not touch the quota
    let mut am = a.clone();
    am.kinds = vec![Kind::Pub1, Kind::Pub2, Kind::PubBig];
    for (r, m, via_auth) in [(1u16, None, false), (2, None, false), (3, None, false), (1, Some(64u32), false), (2, Some(64), false), (2, None, true), (1, Some(64), true)] {
        let name = format!("exh-r{r}-m{}{}", m.unwrap_or(0), if via_auth { "-auth" } else { "" });
        let seed = rep.seed;
        let a = if m.is_some() { &am } else { &a };
        let depth = if m.is_some() || via_auth { depth - 1 } else { depth };
        let body = |rep: &mut Rep, ch: &mut Chooser| {
            // (Receive Maximum 3: identifiers from 254 on, so that histories straddle 255 / 256)
            let mut w = World::boot(WorldCfg { seed, receive_max: Some(r), max_packet: m, h3: true, via_auth: Some(via_auth), seed_ids: if r == 3 { Some((254, 1)) } else { None }, ..Default::default() });
            // with Receive Maximum 2 every third publish carries RETAIN, a content type and a user property: options do not
            // change what counts against the window
            w.rich_pubs = r == 2 && m.is_none();
            let acts = run_path(&mut w, a, ch);
            if m.is_some() {
                rep.add("oversize_publishes_in_quota_histories", acts.iter().filter(|x| matches!(x, Act::Start(Kind::PubBig))).count() as i64);
            }
            if ch.probe {
                return;
            }
            let id = format!("{name}:{}", ch.id());
            probe_and_report(rep, &mut w, &id);
            rep.add("evaluations", 1);
            rep.add("paths_enumerated", 1);
            rep.distinct(&(r, m, via_auth, w.shape()));
            if harvest(rep, &mut w, &id) == 0 && acts.len() == depth {
                rep.sample(|| format!("{id} R={r} {:?}", acts));
            }
            add_counters(rep, &w);
        };
        if let Some(only) = rep.only.clone() {
            if let Some(path) = only.strip_prefix(&format!("{name}:")) {
                let mut ch = Chooser::fixed(enumerate::parse_id(path));
                body(rep, &mut ch);
            }
            continue;
        }
        let (shard, nshards) = (rep.shard, rep.nshards);
        let cell = std::cell::RefCell::new(&mut *rep);
        enumerate::explore(depth, 2, shard, nshards, |ch| body(&mut cell.borrow_mut(), ch));
    }
    // resumed connections: the re-sent handshakes occupy slots of the new connection's Receive Maximum
    rep.note("resumption: {1,2,3} unfinished handshakes (QoS 1 unacknowledged, QoS 2 before PUBREC, QoS 2 before PUBCOMP) carried into a resumed connection whose CONNACK announces Receive Maximum in {absent, 65535, k, k+1, k+3} (k = handshakes re-sent; also k-1, where only absence of panics/stalls is asserted): further publishes accepted exactly while outstanding < R, every acknowledgement of a re-sent handshake frees one slot, probe at the end");
    #[derive(Clone, Copy, Debug, Hash, PartialEq, Eq)]
    enum U {
        P1,
        P2a,
        P2b,
    }
    let setups: Vec<Vec<U>> = vec![vec![U::P1], vec![U::P2a], vec![U::P2b], vec![U::P1, U::P2b], vec![U::P2a, U::P1], vec![U::P1, U::P1, U::P2b], vec![U::P2b, U::P2a, U::P1]];
    let mut ridx = 5_000_000u64;
    for (si, setup) in setups.iter().enumerate() {
        let k = setup.len() as u16;
        let mut r2s: Vec<Option<u16>> = vec![None, Some(65535), Some(k), Some(k + 1), Some(k + 3)];
        if k >= 2 {
            r2s.push(Some(k - 1));
        }
        for r1 in [None, Some(4u16)] {
            for &r2 in &r2s {
                for finished_before in [0usize, 2] {
                    let id = format!("resume:{si}:{:?}:{:?}:{finished_before}", r1, r2);
                    ridx += 1;
                    if !rep.take(ridx, &id) {
                        continue;
                    }
                    let mut rng = Rng::new(rep.seed.wrapping_mul(131).wrapping_add(ridx));
                    let mut w = World::boot(WorldCfg { seed: rep.seed, receive_max: r1, sei: Some(3600), h3: true, ..Default::default() });
                    // some completed exchanges first (their slots are free again)
                    for j in 0..finished_before {
                        let i = w.start(0, if j == 0 { Kind::Pub1 } else { Kind::Pub2 });
                        w.settle_check();
                        w.deliver_ack(i, 1, 0, 0);
                        w.settle_check();
                        if w.m[i].kind == Kind::Pub2 {
                            w.deliver_ack(i, 2, 0, 0);
                            w.settle_check();
                        }
                    }
                    for u in setup {
                        let i = w.start(0, if *u == U::P1 { Kind::Pub1 } else { Kind::Pub2 });
                        w.settle_check();
                        if *u == U::P2b {
                            w.deliver_ack(i, 1, 0, 0);
                            w.settle_check();
                        }
                    }
                    // in half of the cases a ping, a subscribe or an unsubscribe is unanswered when the connection is lost: no
                    // exchange that counts against the window
                    if finished_before == 2 {
                        w.start(1, [Kind::Ping, Kind::Sub, Kind::Unsub][(si + r2.unwrap_or(0) as usize) % 3]);
                        w.settle_check();
                        if si % 2 == 1 {
                            w.start(0, Kind::Ping);
                            w.settle_check();
                        }
                        rep.add("resumption_cases_with_unanswered_non_publish_requests", 1);
                    }
                    w.eof();
                    w.settle_check();
                    let resumed = w.resume_full(ResumeOpts { secs_ago: 1, sei: Some(3600), receive_max: r2, ..Default::default() });
                    w.settle_check();
                    if resumed && !w.blind {
                        // up to 4 further publishes: accepted exactly while outstanding < R
                        for j in 0..4 {
                            w.start(0, if j % 2 == 0 { Kind::Pub1 } else { Kind::Pub2 });
                            w.settle_check();
                        }
                        // acknowledge everything in PRNG order (re-sent handshakes included), one more publish after each
                        let mut guard = 0;
                        loop {
                            let mut ackable = w.ackable();
                            if ackable.is_empty() || w.blind || guard > 60 {
                                break;
                            }
                            let (i, st) = ackable.swap_remove(rng.below(ackable.len()));
                            w.deliver_ack(i, st, [0usize, 0, 3][rng.below(3)], (rng.next() % 2) as u8);
                            w.settle_check();
                            if guard < 3 {
                                w.start(0, Kind::Pub1);
                                w.settle_check();
                            }
                            guard += 1;
                        }
                        probe_and_report(rep, &mut w, &id);
                    }
                    finish(&mut w);
                    rep.add("evaluations", 1);
                    rep.add("resumption_quota_cases", 1);
                    if w.quota_fuzzy {
                        rep.add("resumption_cases_with_receive_maximum_below_resent_handshakes", 1);
                    }
                    rep.distinct(&("resume", si, r1, r2, finished_before));
                    if harvest(rep, &mut w, &id) == 0 {
                        rep.sample(|| format!("{id}: {:?} re-sent under Receive Maximum {:?}; {} accepts, {} refusals, {} slot releases", setup, r2, w.counters.quota_accepts, w.counters.quota_refusals, w.counters.slot_releases));
                    }
                    add_counters(rep, &w);
                }
            }
        }
    }
    // publishes issued before run() is first polled: the window applies to them in the order they were issued
    rep.note("early publishes: 2-6 QoS 0/1/2 publishes queued before run() is first polled under Receive Maximum 1 / 2 / 3: accepted and refused exactly as if issued one by one while running, probe at the end");
    for r in [1u16, 2, 3] {
        for n in 2..=6usize {
            for variant in 0..2usize {
                let id = format!("early:{r}:{n}:{variant}");
                ridx += 1;
                if !rep.take(ridx, &id) {
                    continue;
                }
                let kinds = [Kind::Pub1, Kind::Pub2, Kind::Pub0, Kind::Pub1, Kind::Pub2, Kind::Pub1];
                let early: Vec<Kind> = (0..n).map(|j| kinds[(j + variant) % kinds.len()]).collect();
                let mut w = World::boot_early(WorldCfg { seed: rep.seed, receive_max: Some(r), h3: true, via_auth: Some(variant == 1), ..Default::default() }, &early);
                w.settle_check();
                for _ in 0..3 {
                    for (i, st) in w.ackable() {
                        w.deliver_ack(i, st, 0, 0);
                        w.settle_check();
                    }
                }
                probe_and_report(rep, &mut w, &id);
                finish(&mut w);
                rep.add("evaluations", 1);
                rep.add("early_publish_cases", 1);
                rep.distinct(&("early", r, n, variant));
                harvest(rep, &mut w, &id);
                add_counters(rep, &w);
            }
        }
    }
    // auxiliary (outside the stated domain of conformant acknowledgements, sound on any tree that bounds the quota by R):
    // an acknowledgement for an unknown identifier arriving while nothing is outstanding must not take slots away
    rep.note("auxiliary: with nothing outstanding, a stray PUBACK / PUBCOMP / refusing PUBREC for an unknown identifier leaves all R slots available (R in {1,3,65535,absent}), before and after completed exchanges");
    for (ri, r) in [Some(1u16), Some(3), Some(65535), None].iter().enumerate() {
        for (ki, kind) in [crate::refcodec::AckKind::Puback, crate::refcodec::AckKind::Pubcomp, crate::refcodec::AckKind::Pubrec].iter().enumerate() {
            for warm in [false, true] {
                let id = format!("stray:{:?}:{ki}:{}", r, warm as u8);
                ridx += 1;
                if !rep.take(ridx, &id) {
                    continue;
                }
                let mut w = World::boot(WorldCfg { seed: rep.seed, receive_max: *r, h3: true, ..Default::default() });
                if warm {
                    let i = w.start(0, Kind::Pub1);
                    w.settle_check();
                    w.deliver_ack(i, 1, 0, 0);
                    w.settle_check();
                }
                w.stray_ack(*kind, 700 + ri as u16, if *kind == crate::refcodec::AckKind::Pubrec { 0x97 } else { 0 });
                w.settle_check();
                for j in 0..3 {
                    let i = w.start(0, if j == 1 { Kind::Pub2 } else { Kind::Pub1 });
                    w.settle_check();
                    if w.m[i].req_wire.is_some() {
                        w.deliver_ack(i, 1, 0, 0);
                        w.settle_check();
                        if w.m[i].kind == Kind::Pub2 {
                            w.deliver_ack(i, 2, 0, 0);
                            w.settle_check();
                        }
                    }
                }
                probe_and_report(rep, &mut w, &id);
                finish(&mut w);
                rep.add("evaluations", 1);
                rep.add("stray_ack_quota_cases", 1);
                rep.distinct(&("stray", ri, ki, warm));
                harvest(rep, &mut w, &id);
                add_counters(rep, &w);
            }
        }
    }
    // fill-to-the-limit and long random histories for larger R
    let rs: Vec<Option<u16>> = vec![Some(5), Some(255), Some(256), Some(1000), Some(65535), None];
    let reps = if rep.quick() { 2 } else { 12 };
    let mut idx = 0;
    for r in rs {
        for k in 0..reps {
            let id = format!("fill:{:?}:{k}", r);
            idx += 1;
            if !rep.take(idx, &id) {
                continue;
            }
            let big = r.map(|x| x as u32).unwrap_or(65535) > 2000;
            if big && rep.quick() && k > 0 {
                continue;
            }
            let mut rng = Rng::new(rep.seed.wrapping_mul(31).wrapping_add(idx));
            let mut w = World::boot(WorldCfg { seed: rep.seed + k, receive_max: r, h3: !big, via_auth: Some(k % 2 == 1), ..Default::default() });
            w.sim.log_enabled = !big;
            w.light = big;
            let rr = w.r;
            // fill
            let mut outstanding: Vec<(usize, u8)> = Vec::new();
            for j in 0..rr {
                let kind = if j % 3 == 2 { Kind::Pub2 } else { Kind::Pub1 };
                let i = w.start(0, kind);
                outstanding.push((i, 1));
                if !big || j % 4096 == 0 {
                    w.settle_check();
                } else {
                    w.settle();
                }
            }
            w.settle_check();
            // at the limit: QoS>0 refused, others not limited
            w.start(0, Kind::Pub1);
            w.settle_check();
            w.start(0, Kind::Pub0);
            w.start(0, Kind::Ping);
            w.settle_check();
            // random history: acks in any order with every reason, refills
            let steps = if big { 6000 } else { 600 };
            for _ in 0..steps {
                if !outstanding.is_empty() && rng.chance(1, 2) {
                    let k2 = rng.below(outstanding.len());
                    let (i, st) = outstanding.swap_remove(k2);
                    w.deliver_ack(i, st, rng.below(9), (rng.next() % 2) as u8);
                    w.settle_check();
                    if st == 1 && w.m[i].kind == Kind::Pub2 && w.m[i].ack1_ok && w.m[i].rel_wire.is_some() {
                        outstanding.push((i, 2));
                    }
                } else {
                    let kind = *rng.pick(&[Kind::Pub1, Kind::Pub2, Kind::Pub0]);
                    let i = w.start(0, kind);
                    w.settle_check();
                    if kind != Kind::Pub0 && w.m[i].req_wire.is_some() {
                        outstanding.push((i, 1));
                    }
                }
                if w.blind {
                    break;
                }
            }
            if big {
                // drain everything, then the full quota must be available again: sample it with 300 publishes
                while let Some((i, st)) = outstanding.pop() {
                    w.deliver_ack(i, st, 0, 0);
                    w.settle();
                    if st == 1 && w.m[i].kind == Kind::Pub2 && w.m[i].rel_wire.is_none() {
                        w.check();
                    }
                    if st == 1 && w.m[i].kind == Kind::Pub2 && w.m[i].ack1_ok && w.m[i].rel_wire.is_some() {
                        outstanding.push((i, 2));
                    }
                }
                w.settle_check();
                let got = w.probe_quota(300);
                rep.add("quota_probes", 1);
                if got != 301.min(w.r) {
                    w.viol(&["C10"], "C10/probe-mismatch/slot-leaked".into(), format!("after every outstanding publish was acknowledged only {got} of 301 further publishes were accepted (Receive Maximum {})", w.r));
                }
            } else {
                probe_and_report(rep, &mut w, &id);
            }
            finish(&mut w);
            rep.add("evaluations", 1);
            rep.add("fill_runs", 1);
            rep.distinct(&(r, k, w.counters.quota_refusals, w.counters.slot_releases));
            if harvest(rep, &mut w, &id) == 0 {
                rep.sample(|| format!("{id}: filled {} slots, {} refusals at the limit, {} slot releases, max outstanding {}", rr, w.counters.quota_refusals, w.counters.slot_releases, w.max_inflight_seen));
            }
            add_counters(rep, &w);
        }
    }
    run_given_up_while_resending(rep);
    with_traffic_in_the_other_direction(rep);
}

/// The send window is about the client's own publishes only. Whatever the broker sends - QoS 0/1/2 messages (with and without
/// a subscription), re-deliveries, PUBREL (also for identifiers it never used), stray acknowledgements, PINGRESP - and
/// whatever else the client does in between (subscribes, unsubscribes, pings) leaves it alone.
fn with_traffic_in_the_other_direction(rep: &mut Rep) {
    let a = Alpha {
        kinds: vec![Kind::Pub1, Kind::Pub2, Kind::Pub1, Kind::Pub0, Kind::Sub, Kind::Unsub, Kind::Ping],
        max_ops: 40,
        max_conc: 8,
        pub_ack_variants: vec![(0, 0), (3, 1), (1, 0)],
        sub_ack_variants: vec![(0, 0)],
        inbound: vec![(2, 1, false, SubSel::Absent), (2, 2, false, SubSel::Op(0)), (2, 1, true, SubSel::Absent), (1, 1, false, SubSel::Absent), (1, 2, false, SubSel::Op(0)), (0, 0, false, SubSel::Op(0))],
        pubrels: vec![1, 2, 3],
        max_inbound: 60,
        // the application may also give up on a request - before the context has looked at it (the context is held while
        // requests queue), while it waits for its acknowledgement, between the phases of a QoS 2 exchange
        drops: true,
        race: true,
        ..Default::default()
    };
    let walks = if rep.quick() { 300 } else { 8000 };
    rep.note(&format!("traffic in the other direction: {walks} PRNG walks of 90 actions under Receive Maximum 1 / 2 / 3 mixing the client's own QoS 0/1/2 publishes, subscribes, unsubscribes and pings with inbound QoS 0/1/2 messages, re-deliveries and PUBREL packets whose identifiers overlap the client's own (1, 2, 3), and with requests given up while queued / waiting: accepted / refused exactly by the client's own outstanding publishes, H3 conservation at every step, probe at the end"));
    for k in 0..walks {
        let id = format!("inbound-walk:{k}");
        if !rep.take(8_500_000 + k, &id) {
            continue;
        }
        let seed = rep.seed.wrapping_mul(1_000_003).wrapping_add(k);
        let mut rng = Rng::new(seed);
        // packet identifiers start at 1, just below / at 256, at 0x7fff, near the wrap
        let ids = [1u16, 250, 255, 256, 300, 0x7ffe, 65530][(k % 7) as usize];
        let mut w = World::boot(WorldCfg { seed, receive_max: Some(1 + (k % 3) as u16), h3: true, order: (k % 4) as u8, seed_ids: Some((ids, 1)), ..Default::default() });
        let acts = run_walk(&mut w, &a, &mut rng, 90);
        let pubrels = acts.iter().filter(|x| matches!(x, Act::InRel(_))).count();
        probe_and_report(rep, &mut w, &id);
        rep.add("evaluations", 1);
        rep.add("walks_with_inbound_traffic", 1);
        rep.add("inbound_pubrels_in_quota_histories", pubrels as i64);
        rep.distinct(&("inbound-walk", w.shape()));
        harvest(rep, &mut w, &id);
        add_counters(rep, &w);
    }
}

/// The application gives up on run() (drops its future, as a timeout around it does) while the resumed connection does not
/// accept bytes and the unfinished exchanges are waiting to be sent again, then calls run() again on the same connection.
/// The exchanges carried over are counted against the new Receive Maximum once: at least R - k and at most R further QoS>0
/// publishes are accepted, and once everything has been acknowledged exactly R are.
/// (run() is only ever dropped between two packets: dropping it inside one leaves half a packet on the wire, which no
/// property promises to survive.)
fn run_given_up_while_resending(rep: &mut Rep) {
    use crate::refcodec::{self as rc, AckForm, AckKind, CPacket, Prop, SPacket};
    use crate::sim::{Cmd, Sim};
    use crate::spec::{ConnSpec, ErrSum, OpSpec, PubSpec};
    rep.note("run() given up while re-sending: 1-3 unfinished exchanges (QoS 1, QoS 2 before and after PUBREC) carried into a resumed connection with Receive Maximum k+1 .. k+3 whose transport stops accepting bytes before the first or between two re-sent packets; the run() future is dropped there, the transport recovers and run() is called again: the window left is probed, every exchange acknowledged, and the window probed again");
    let mut idx = 7_000_000u64;
    for k in 1..=3usize {
        for extra in 1..=3u16 {
            for cut in 0..k {
                for variant in 0..3usize {
                    let id = format!("rerun:{k}:{extra}:{cut}:{variant}");
                    idx += 1;
                    if !rep.take(idx, &id) {
                        continue;
                    }
                    let r2 = k as u16 + extra;
                    let mut sim = Sim::new(rep.seed);
                    sim.log_enabled = true;
                    sim.cmd(Cmd::Connect(ConnSpec { sei: Some(3600), ..Default::default() }));
                    sim.settle();
                    sim.feed_packet(&SPacket::Connack { session_present: false, reason: 0, props: vec![] });
                    sim.settle();
                    sim.cmd(Cmd::Run);
                    sim.settle();
                    sim.parse_wire();
                    let base = sim.wire.len();
                    // k exchanges: kinds rotate with the variant (0 = QoS 1, 1 = QoS 2 before PUBREC, 2 = QoS 2 after PUBREC)
                    let mut kinds = Vec::new();
                    for j in 0..k {
                        let kind = (j + variant) % 3;
                        kinds.push(kind);
                        sim.start_op(0, OpSpec::Publish(PubSpec::simple(if kind == 0 { 1 } else { 2 }, &format!("o/{j}"), format!("payload {j} {}", "x".repeat(j * 40)).as_bytes())));
                        sim.settle();
                    }
                    sim.parse_wire();
                    let firsts: Vec<(u16, usize)> = sim.wire[base..].iter().filter_map(|w| match &w.pkt { Ok(CPacket::Publish(p)) => Some((p.id.unwrap_or(0), w.bytes.len())), _ => None }).collect();
                    if firsts.len() != k {
                        rep.violation("C10/connection-given-up/publishes-not-written", &id, &format!("{k} publishes within the default window, {} written\n{}", firsts.len(), sim.tail_log(20)));
                        continue;
                    }
                    for j in 0..k {
                        if kinds[j] == 2 {
                            sim.feed_packet(&SPacket::Ack { kind: AckKind::Pubrec, id: firsts[j].0, reason: 0, props: vec![], form: AckForm::Short2 });
                            sim.settle();
                        }
                    }
                    sim.set_eof();
                    sim.settle();
                    sim.cmd(Cmd::MarkDisconnected(1));
                    sim.new_transport();
                    sim.cmd(Cmd::Connect(ConnSpec { sei: Some(3600), ..Default::default() }));
                    sim.settle();
                    sim.feed_packet(&SPacket::Connack { session_present: true, reason: 0, props: vec![Prop::u16(33, r2)] });
                    sim.settle();
                    // re-sent in queue order: PUBLISH entries keep their place, a PUBREL is queued when its PUBREC arrives
                    let mut order: Vec<usize> = (0..k).filter(|&j| kinds[j] != 2).map(|j| firsts[j].1).collect();
                    order.extend((0..k).filter(|&j| kinds[j] == 2).map(|_| 4usize));
                    let stall = sim.written_len() + order[..cut].iter().sum::<usize>();
                    sim.writer.0.borrow_mut().stall_at = Some(stall);
                    sim.cmd(Cmd::Run);
                    sim.settle();
                    let stuck = sim.ctx_sh.borrow().in_call == Some("run") && sim.written_len() == stall;
                    sim.cancel_run();
                    sim.settle();
                    let cancelled = sim.ctx_sh.borrow().runs_cancelled;
                    sim.writer.0.borrow_mut().stall_at = None;
                    sim.cmd(Cmd::Run);
                    sim.settle();
                    rep.add("evaluations", 1);
                    if !(stuck && cancelled == 1) {
                        rep.add("rerun_cases_not_reaching_the_stall", 1);
                        continue;
                    }
                    rep.add("run_given_up_while_resending_cases", 1);
                    rep.distinct(&("rerun", k, extra, cut, variant));
                    let mut bad = false;
                    for p in sim.panics.clone() {
                        rep.violation(&format!("C10/panic/{p}"), &id, &format!("panic: {p}\n{}", sim.tail_log(30)));
                        bad = true;
                    }
                    if let Some(r) = sim.run_result() {
                        rep.violation(&format!("C10/connection-given-up/run-returned-without-cause/{}", match &r { Ok(()) => "Ok".to_string(), Err(e) => e.kind().to_string() }), &id, &format!("second run() on the resumed connection returned {:?}\n{}", r, sim.tail_log(30)));
                        bad = true;
                    }
                    if bad {
                        continue;
                    }
                    // probe: QoS 1 publishes until the first refusal
                    let mut probe = |sim: &mut Sim, cap: usize, tag: &str| -> (usize, Vec<u16>) {
                        let mut ids = Vec::new();
                        let mut n = 0;
                        for j in 0..cap {
                            sim.parse_wire();
                            let before = sim.wire.len();
                            let op = sim.start_op(0, OpSpec::Publish(PubSpec::simple(1, &format!("probe/{tag}/{j}"), b"q")));
                            sim.settle();
                            sim.parse_wire();
                            if matches!(sim.ops[op].out.as_ref().and_then(|o| o.err()), Some(ErrSum::QuotaExceeded)) {
                                break;
                            }
                            match sim.wire.get(before).map(|w| w.pkt.clone()) {
                                Some(Ok(CPacket::Publish(p))) if p.qos == 1 => ids.push(p.id.unwrap_or(0)),
                                _ => break,
                            }
                            n += 1;
                        }
                        (n, ids)
                    };
                    let (n1, new_ids) = probe(&mut sim, r2 as usize + 2, "a");
                    rep.add("quota_probes", 1);
                    let lo = extra as usize;
                    if n1 < lo {
                        rep.violation("C10/probe-mismatch/slot-leaked/run-given-up-while-resending", &id, &format!("{k} exchanges carried into a connection with Receive Maximum {r2}; run() dropped after {cut} re-sent packets and called again: {lo} further QoS 1 publishes must be accepted, the client accepted {n1}\n{}", sim.tail_log(40)));
                        continue;
                    }
                    if n1 > r2 as usize {
                        rep.violation("C10/probe-mismatch/over-admission/run-given-up-while-resending", &id, &format!("Receive Maximum {r2}: {n1} publishes accepted without an acknowledgement\n{}", sim.tail_log(40)));
                        continue;
                    }
                    // acknowledge everything: the exchanges carried over and the probes
                    for j in 0..k {
                        let pid = firsts[j].0;
                        match kinds[j] {
                            0 => sim.feed_packet(&SPacket::Ack { kind: AckKind::Puback, id: pid, reason: 0, props: vec![], form: AckForm::Short2 }),
                            1 => {
                                sim.feed_packet(&SPacket::Ack { kind: AckKind::Pubrec, id: pid, reason: 0, props: vec![], form: AckForm::Short2 });
                                sim.settle();
                                sim.feed_packet(&SPacket::Ack { kind: AckKind::Pubcomp, id: pid, reason: 0, props: vec![], form: AckForm::Short2 });
                            }
                            _ => sim.feed_packet(&SPacket::Ack { kind: AckKind::Pubcomp, id: pid, reason: 0, props: vec![], form: AckForm::Short2 }),
                        }
                        sim.settle();
                    }
                    for pid in new_ids {
                        sim.feed_packet(&SPacket::Ack { kind: AckKind::Puback, id: pid, reason: 0, props: vec![], form: AckForm::Short2 });
                        sim.settle();
                    }
                    let (n2, _) = probe(&mut sim, r2 as usize + 2, "b");
                    rep.add("quota_probes", 1);
                    if n2 != r2 as usize {
                        rep.violation(&format!("C10/probe-mismatch/{}/run-given-up-while-resending", if n2 < r2 as usize { "slot-leaked" } else { "over-admission" }), &id, &format!("every exchange acknowledged, Receive Maximum {r2}: exactly {r2} further QoS 1 publishes must be accepted, the client accepted {n2}\n{}", sim.tail_log(40)));
                        continue;
                    }
                    let _ = rc::CONNACK_REASONS;
                    rep.sample(|| format!("{id}: {k} exchanges carried over, Receive Maximum {r2}, run() dropped after {cut} re-sent packets; {n1} publishes accepted before the first refusal, {n2} after everything was acknowledged"));
                }
            }
        }
    }
}
