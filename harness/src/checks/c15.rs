//! C15 — a cancelled operation never disturbs the connection or other callers.

use super::script::*;
use super::{add_counters, harvest};
use crate::enumerate::{self, Chooser};
use crate::report::Rep;
use crate::sim::Rng;
use crate::world::*;

fn end_probe(rep: &mut Rep, w: &mut World) {
    if w.blind || w.term.is_some() || w.ctx_dropped {
        return;
    }
    // complete every handshake the broker can still complete (late acknowledgements of cancelled operations included)
    for _ in 0..8 {
        let ackable = w.ackable();
        if ackable.is_empty() {
            break;
        }
        for (i, st) in ackable {
            w.deliver_ack(i, st, 0, 0);
            w.settle_check();
        }
    }
    if w.blind || w.sim.run_result().is_some() {
        return;
    }
    let free = w.r - w.inflight;
    if free <= 64 {
        let got = w.probe_quota(free);
        rep.add("quota_probes", 1);
        if got != free {
            let r = w.r;
            w.viol(
                &["C15", "C10"],
                "C15/slot-not-freed-after-late-ack".into(),
                format!("after every outstanding exchange was completed by the broker, {free} of {r} slots must be free; the client accepted only {got} further QoS 1 publishes"),
            );
        }
    }
}

/// Once something was cancelled, anything that goes wrong for the *other* operations, streams or run() is a C15 violation.
fn claim_after_cancel(w: &mut World, acts: &[Act]) {
    if !acts.iter().any(|x| matches!(x, Act::DropOp(_) | Act::DropStream(_))) {
        return;
    }
    for v in w.viols.iter_mut() {
        if !v.props.contains(&"C15") && !v.props.contains(&"*") {
            v.sig = format!("C15/after-cancel/{}", v.sig);
            v.props = &["C15"];
        }
    }
}

pub fn run(rep: &mut Rep) {
    let a = Alpha {
        kinds: vec![Kind::Pub0, Kind::Pub1, Kind::Pub2, Kind::Sub, Kind::Unsub, Kind::Ping],
        max_ops: 3,
        max_conc: 3,
        pub_ack_variants: vec![(0, 0), (2, 1)],
        sub_ack_variants: vec![(0, 0)],
        holds: true,
        drops: true,
        create_unpolled: true,
        streams: true,
        inbound: vec![(1, 1, false, SubSel::Op(0))],
        max_inbound: 1,
        writer_stall: true,
        ..Default::default()
    };
    // second alphabet: several subscriptions whose streams / futures are dropped while messages for one,
    // two or none of them arrive - the survivors' streams must be unaffected
    let b = Alpha {
        kinds: vec![Kind::Sub],
        max_ops: 3,
        max_conc: 3,
        sub_ack_variants: vec![(0, 0)],
        drops: true,
        streams: true,
        inbound: vec![(0, 0, false, SubSel::Both), (1, 1, false, SubSel::Op(2)), (0, 0, false, SubSel::Op(1))],
        max_inbound: 3,
        ..Default::default()
    };
    let depth = if rep.quick() { 5 } else { 7 };
    rep.note(&format!("exhaustive: Receive Maximum in {{1,2,absent}}: every path of <= {depth} actions over {{create/start pub0/pub1/pub2/sub/unsub/ping, first poll, cancel (drop) any pending future at any point incl. before first poll, while queued behind a stalled writer, awaiting its ack, between the QoS 2 phases; deliver acks (also the late ones of cancelled operations); take/drop streams; inbound PUBLISH}}; run() must stay pending, survivors keep their own results, and an end-of-script probe counts the free flow-control slots after the broker completed every exchange"));
    for r in [Some(1u16), Some(2), None] {
        let name = format!("exh-r{:?}", r.unwrap_or(0));
        let seed = rep.seed;
        let body = |rep: &mut Rep, ch: &mut Chooser| {
            let mut w = World::boot(WorldCfg { seed, receive_max: r, ..Default::default() });
            let acts = run_path(&mut w, &a, ch);
            if ch.probe {
                return;
            }
            let id = format!("{name}:{}", ch.id());
            end_probe(rep, &mut w);
            claim_after_cancel(&mut w, &acts);
            rep.add("evaluations", 1);
            rep.add("paths_enumerated", 1);
            rep.add("cancellations", acts.iter().filter(|x| matches!(x, Act::DropOp(_) | Act::DropStream(_))).count() as i64);
            rep.distinct(&(r, w.shape()));
            if harvest(rep, &mut w, &id) == 0 && acts.iter().any(|x| matches!(x, Act::DropOp(_))) {
                rep.sample(|| format!("{id} R={r:?} {:?}", acts));
            }
            add_counters(rep, &w);
        };
        if let Some(only) = rep.only.clone() {
            if let Some(path) = only.strip_prefix(&format!("{name}:")) {
                let mut ch = Chooser::fixed(enumerate::parse_id(path));
                body(rep, &mut ch);
            }
            continue;
        }
        let (shard, nshards) = (rep.shard, rep.nshards);
        let cell = std::cell::RefCell::new(&mut *rep);
        enumerate::explore(depth, 2, shard, nshards, |ch| body(&mut cell.borrow_mut(), ch));
    }
    {
        let name = "exh-streams".to_string();
        let seed = rep.seed;
        let depth_b = if rep.quick() { 9 } else { 11 };
        let body = |rep: &mut Rep, ch: &mut Chooser| {
            let mut w = World::boot(WorldCfg { seed, ..Default::default() });
            // three subscriptions, all acknowledged, streams taken
            let mut subs = Vec::new();
            for _ in 0..3 {
                let i = w.start(0, Kind::Sub);
                w.settle_check();
                w.deliver_ack(i, 1, 0, 0);
                w.settle_check();
                subs.push(i);
            }
            let acts = run_path(&mut w, &b, ch);
            if ch.probe {
                return;
            }
            let id = format!("{name}:{}", ch.id());
            claim_after_cancel(&mut w, &acts);
            rep.add("evaluations", 1);
            rep.add("paths_enumerated", 1);
            rep.add("cancellations", acts.iter().filter(|x| matches!(x, Act::DropOp(_) | Act::DropStream(_))).count() as i64);
            rep.distinct(&("streams", w.shape()));
            if harvest(rep, &mut w, &id) == 0 && acts.iter().filter(|x| matches!(x, Act::DropStream(_))).count() >= 2 {
                rep.sample(|| format!("{id} {:?}", acts));
            }
            add_counters(rep, &w);
            let _ = depth_b;
        };
        if let Some(only) = rep.only.clone() {
            if let Some(path) = only.strip_prefix(&format!("{name}:")) {
                let mut ch = Chooser::fixed(enumerate::parse_id(path));
                body(rep, &mut ch);
            }
        } else {
            let (shard, nshards) = (rep.shard, rep.nshards);
            let cell = std::cell::RefCell::new(&mut *rep);
            enumerate::explore(if cell.borrow().quick() { 6 } else { 8 }, 2, shard, nshards, |ch| body(&mut cell.borrow_mut(), ch));
        }
    }
    // identifier reuse: the packet identifier of a cancelled operation comes round again (65535 allocations later; here:
    // counter set back through hook H2) - the operation that now carries it completes on its own acknowledgement
    rep.note("identifier reuse after cancellation: publish QoS 1 / QoS 2 (cancelled before PUBREC, or between the phases) / subscribe / unsubscribe cancelled while awaiting its acknowledgement, the late acknowledgement(s) delivered or not, then the identifier counter is set back (hook H2) so that a new operation of the same or another kind gets the same packet identifier: it must go out, and complete with the acknowledgement sent for it");
    let kinds = [Kind::Pub1, Kind::Pub2, Kind::Sub, Kind::Unsub];
    let mut ridx = 70_000_000u64;
    for k1 in kinds {
        for k2 in kinds {
            for late in 0..3u8 {
                for pid in [1u16, 300, 65535] {
                    let id = format!("reuse:{}:{}:{late}:{pid}", k1.name(), k2.name());
                    ridx += 1;
                    if !rep.take(ridx, &id) {
                        continue;
                    }
                    let mut w = World::boot(WorldCfg { seed: rep.seed, seed_ids: Some((pid, 40)), ..Default::default() });
                    let x = w.start(0, k1);
                    w.settle_check();
                    if late == 2 && k1 == Kind::Pub2 {
                        // cancelled between the phases
                        w.deliver_ack(x, 1, 0, 0);
                        w.settle_check();
                    }
                    w.drop_op(x);
                    w.settle_check();
                    if late >= 1 {
                        // the late acknowledgement(s) of the cancelled operation
                        for _ in 0..2 {
                            if let Some(&(i, st)) = w.ackable().iter().find(|(i, _)| *i == x) {
                                w.deliver_ack(i, st, 0, 0);
                                w.settle_check();
                            }
                        }
                    }
                    let unfinished = w.ackable().iter().any(|(i, _)| *i == x);
                    if !unfinished {
                        // the identifier is free again: hand it out once more
                        w.sim.handles[0].as_ref().unwrap().verif_seed_ids(pid, 90);
                        let y = w.start(1, k2);
                        w.settle_check();
                        for _ in 0..2 {
                            if let Some(&(i, st)) = w.ackable().iter().find(|(i, _)| *i == y) {
                                w.deliver_ack(i, st, if k2.is_qos_pub() { 0 } else { 0 }, 1);
                                w.settle_check();
                            }
                        }
                        if w.sim.ops[y].out.is_none() && !w.blind {
                            let k = k2.name();
                            w.viol(&["C15"], format!("C15/reused-identifier-never-completes/{k}"), format!("op{y} ({k}) carries packet identifier {pid}, used before by the cancelled op{x}; its acknowledgement was delivered but the future is still pending"));
                        }
                    }
                    end_probe(rep, &mut w);
                    finish(&mut w);
                    for v in w.viols.iter_mut() {
                        if !v.props.contains(&"C15") && !v.props.contains(&"*") {
                            v.sig = format!("C15/after-cancel/{}", v.sig);
                            v.props = &["C15"];
                        }
                    }
                    rep.add("evaluations", 1);
                    rep.add("identifier_reuse_cases", 1);
                    rep.add("cancellations", 1);
                    rep.distinct(&("reuse", k1, k2, late, pid));
                    if harvest(rep, &mut w, &id) == 0 {
                        rep.sample(|| format!("{id}: the operation reusing identifier {pid} completed with its own acknowledgement"));
                    }
                    add_counters(rep, &w);
                }
            }
        }
    }
    dropped_streams_next_to_live_ones(rep, true);
    // cancelled exchanges and the next connection: what a cancelled publish leaves behind must be exactly its unfinished
    // handshake - nothing once the broker has completed it - also when the session is resumed afterwards
    rep.note("cancellation, then resumption: QoS 1 / QoS 2 publishes cancelled before PUBREC, between the phases, or not at all; the broker completes all / some / none of the exchanges; connection lost, session resumed under Receive Maximum 2 or 3: exactly the unfinished handshakes are re-sent, the others' slots are free (probe), new publishes complete");
    let mut cidx = 72_000_000u64;
    for pattern in 0..27u32 {
        for completes in 0..3u8 {
            for rmax in [2u16, 3] {
                let id = format!("cancel-resume:{pattern}:{completes}:{rmax}");
                cidx += 1;
                if !rep.take(cidx, &id) {
                    continue;
                }
                let mut w = World::boot(WorldCfg { seed: rep.seed, sei: Some(3600), ..Default::default() });
                // three publishes: QoS by position, cancellation phase from the pattern digit (0 none, 1 at once, 2 between the phases / after the ack went out)
                let mut ops = Vec::new();
                for j in 0..3u32 {
                    let phase = (pattern / 3u32.pow(j)) % 3;
                    let kind = if j == 1 { Kind::Pub1 } else { Kind::Pub2 };
                    let i = w.start((j % 2) as usize, kind);
                    w.settle_check();
                    if phase == 1 {
                        w.drop_op(i);
                        w.settle_check();
                    } else if phase == 2 {
                        if kind == Kind::Pub2 && w.ackable().contains(&(i, 1)) {
                            w.deliver_ack(i, 1, 0, 0);
                            w.settle_check();
                        }
                        w.drop_op(i);
                        w.settle_check();
                    }
                    ops.push(i);
                }
                // the broker goes on with the exchanges: all the way, one step, or not at all
                let rounds = match completes {
                    0 => 4,
                    1 => 1,
                    _ => 0,
                };
                for _ in 0..rounds {
                    for (i, st) in w.ackable() {
                        w.deliver_ack(i, st, 0, 0);
                        w.settle_check();
                    }
                }
                w.eof();
                w.settle_check();
                let resumed = w.resume_full(ResumeOpts { secs_ago: 1, sei: Some(3600), receive_max: Some(rmax), ..Default::default() });
                w.settle_check();
                if resumed && !w.blind {
                    for _ in 0..4 {
                        for (i, st) in w.ackable() {
                            w.deliver_ack(i, st, 0, 0);
                            w.settle_check();
                        }
                    }
                    let n = w.start(0, Kind::Pub1);
                    w.settle_check();
                    if w.ackable().contains(&(n, 1)) {
                        w.deliver_ack(n, 1, 0, 0);
                        w.settle_check();
                    }
                    end_probe(rep, &mut w);
                }
                finish(&mut w);
                for v in w.viols.iter_mut() {
                    if !v.props.contains(&"C15") && !v.props.contains(&"*") {
                        v.sig = format!("C15/after-cancel/{}", v.sig);
                        v.props = &["C15"];
                    }
                }
                rep.add("evaluations", 1);
                rep.add("cancel_then_resume_cases", 1);
                rep.add("cancellations", w.m.iter().filter(|m| m.dropped).count() as i64);
                rep.distinct(&("cancel-resume", pattern, completes, rmax));
                if harvest(rep, &mut w, &id) == 0 {
                    rep.sample(|| format!("{id}: only unfinished handshakes re-sent, all slots accounted for"));
                }
                add_counters(rep, &w);
            }
        }
    }
    // many cancellations at once
    let ns: Vec<usize> = if rep.quick() { vec![9, 17, 33, 65, 129, 300] } else { vec![7, 8, 9, 15, 16, 17, 31, 32, 33, 63, 64, 65, 127, 128, 129, 255, 256, 257, 1000] };
    rep.note(&format!("wide: {:?} operations of every kind outstanding, two thirds of them cancelled in PRNG order in every phase (before the context sees them, awaiting the acknowledgement, between the QoS 2 phases), all acknowledgements then delivered in PRNG order: run() keeps serving, every surviving operation completes with its own acknowledgement, all slots are free at the end", ns));
    let mut widx = 75_000_000u64;
    for (ni, &n) in ns.iter().enumerate() {
        for variant in 0..2u8 {
            let id = format!("wide:{n}:{variant}");
            widx += 1;
            if !rep.take(widx, &id) {
                continue;
            }
            let mut rng = Rng::new(rep.seed.wrapping_mul(733).wrapping_add(ni as u64 * 2 + variant as u64));
            let mut w = World::boot(WorldCfg { seed: rep.seed.wrapping_add(ni as u64), ..Default::default() });
            w.sim.log_enabled = n <= 40;
            let kinds = [Kind::Pub1, Kind::Pub2, Kind::Sub, Kind::Ping, Kind::Unsub, Kind::Pub2, Kind::Pub0];
            let mut ops = Vec::new();
            if variant == 1 {
                w.sim.hold_ctx = true;
            }
            for j in 0..n {
                let i = w.start(j % 2, kinds[j % kinds.len()]);
                ops.push(i);
                if variant == 0 {
                    // (the model learns what is on the wire when it checks)
                    w.settle_check();
                    if kinds[j % kinds.len()] == Kind::Pub2 && j % 2 == 1 && w.m[i].req_wire.is_some() {
                        w.deliver_ack(i, 1, 0, 0);
                        w.settle();
                    }
                }
            }
            w.settle_check();
            let mut cancelled = 0;
            for &i in &ops {
                if rng.chance(2, 3) && w.sim.ops[i].task.alive() {
                    w.drop_op(i);
                    cancelled += 1;
                    if rng.chance(1, 4) {
                        w.settle();
                    }
                }
            }
            if variant == 1 {
                w.sim.hold_ctx = false;
            }
            w.settle_check();
            let mut guard = 0;
            loop {
                let mut ackable = w.ackable();
                let pings = w.pings_outstanding().len();
                if (ackable.is_empty() && pings == 0) || w.blind || guard > 4 * n + 50 {
                    break;
                }
                if pings > 0 && (ackable.is_empty() || rng.chance(1, 5)) {
                    w.pingresp();
                } else {
                    let (i, st) = ackable.swap_remove(rng.below(ackable.len()));
                    w.deliver_ack(i, st, rng.below(9), (rng.next() % 2) as u8);
                }
                w.settle();
                if guard % 32 == 0 {
                    w.settle_check();
                }
                guard += 1;
            }
            w.settle_check();
            end_probe(rep, &mut w);
            finish(&mut w);
            for v in w.viols.iter_mut() {
                if !v.props.contains(&"C15") && !v.props.contains(&"*") {
                    v.sig = format!("C15/after-cancel/{}", v.sig);
                    v.props = &["C15"];
                }
            }
            rep.add("evaluations", 1);
            rep.add("wide_cases", 1);
            rep.add("cancellations", cancelled);
            rep.max("max_cancellations_in_one_run", cancelled);
            rep.distinct(&("wide", n, variant));
            if harvest(rep, &mut w, &id) == 0 {
                rep.sample(|| format!("{id}: {cancelled} of {n} operations cancelled, {} late acknowledgements absorbed, survivors completed", w.counters.late_acks));
            }
            add_counters(rep, &w);
        }
    }
    // random walks
    let mut wb = b.clone();
    wb.max_ops = 8;
    wb.max_conc = 6;
    wb.max_inbound = 60;
    wb.inbound.push((2, 2, false, SubSel::Op(0)));
    wb.pubrels = vec![2];
    let mut wa = a.clone();
    wa.max_ops = 80;
    wa.max_conc = 5;
    wa.max_inbound = 40;
    let walks = if rep.quick() { 300 } else { 5000 };
    for k in 0..walks {
        let id = format!("walk:{k}");
        if !rep.take(k, &id) {
            continue;
        }
        let seed = rep.seed.wrapping_mul(1_000_003).wrapping_add(k);
        let mut rng = Rng::new(seed);
        let r = [Some(1u16), Some(2), Some(3), None][(k % 4) as usize];
        let mut w = World::boot(WorldCfg { seed, receive_max: r, order: (k % 4) as u8, ..Default::default() });
        let acts = run_walk(&mut w, if k % 3 == 2 { &wb } else { &wa }, &mut rng, 150);
        end_probe(rep, &mut w);
        claim_after_cancel(&mut w, &acts);
        rep.add("evaluations", 1);
        rep.add("random_walks", 1);
        rep.add("cancellations", acts.iter().filter(|x| matches!(x, Act::DropOp(_) | Act::DropStream(_))).count() as i64);
        rep.distinct(&w.shape());
        harvest(rep, &mut w, &id);
        add_counters(rep, &w);
    }
}

/// One message for several subscriptions, some of whose streams have been given up: the live streams get it exactly once, and
/// it is acknowledged exactly once - also when the broker delivers a QoS 2 message again before releasing it. (`claim`: report
/// every consequence under C15, as C15's check does; C08's check calls this with its own rules' tags left alone.)
pub fn dropped_streams_next_to_live_ones(rep: &mut Rep, claim: bool) {
// one message for several subscriptions, some of whose streams have been given up: the live streams get it exactly once
// - also when the broker delivers a QoS 2 message again before releasing it
rep.note("dropped streams next to live ones: 2-3 subscriptions, every non-empty subset of their streams dropped (or never taken), an inbound QoS 0/1/2 message carrying all their subscription identifiers (in both orders), for QoS 2 delivered again before PUBREL, then released and the identifier used for a new message: every live stream yields each message exactly once");
let mut didx = 71_000_000u64;
for nsubs in 2..=3usize {
    for dropped_mask in 1..(1u32 << nsubs) {
        for qos in 0..3u8 {
            for variant in 0..2u8 {
                let id = format!("dropped-streams:{nsubs}:{dropped_mask}:{qos}:{variant}");
                didx += 1;
                if !rep.take(didx, &id) {
                    continue;
                }
                let mut w = World::boot(WorldCfg { seed: rep.seed, ..Default::default() });
                let mut subs = Vec::new();
                for j in 0..nsubs {
                    let a = w.start(j % 2, Kind::Sub);
                    w.settle_check();
                    w.deliver_ack(a, 1, 0, 0);
                    w.settle_check();
                    subs.push(a);
                }
                let mut sids = Vec::new();
                for (j, &a) in subs.iter().enumerate() {
                    sids.push(w.sub_id_of(a).unwrap_or(1 + j as u32));
                    let gone = dropped_mask & (1 << j) != 0;
                    if gone && variant == 1 {
                        // the response is dropped without its stream ever being taken
                        w.drop_stream(a);
                    } else {
                        w.take_stream(a);
                        if gone {
                            w.drop_stream(a);
                        }
                    }
                    w.settle_check();
                }
                if variant == 1 {
                    sids.reverse();
                }
                w.in_publish(qos, 5, false, &sids, false);
                w.settle_check();
                if qos == 2 {
                    w.in_publish(2, 5, true, &sids, false);
                    w.settle_check();
                    w.in_publish(2, 5, true, &sids, false);
                    w.settle_check();
                    w.in_pubrel(5);
                    w.settle_check();
                }
                w.in_publish(qos, 5, false, &sids, false);
                w.settle_check();
                if qos == 2 {
                    w.in_publish(2, 5, true, &sids[..1], false);
                    w.settle_check();
                    w.in_pubrel(5);
                    w.settle_check();
                }
                finish(&mut w);
                if claim {
                    for v in w.viols.iter_mut() {
                        if !v.props.contains(&"C15") && !v.props.contains(&"*") {
                            v.sig = format!("C15/after-cancel/{}", v.sig);
                            v.props = &["C15"];
                        }
                    }
                }
                rep.add("evaluations", 1);
                rep.add("dropped_stream_next_to_live_ones_cases", 1);
                rep.add("cancellations", dropped_mask.count_ones() as i64);
                rep.distinct(&("dropped-streams", nsubs, dropped_mask, qos, variant));
                if harvest(rep, &mut w, &id) == 0 {
                    rep.sample(|| format!("{id}: {} stream items checked", w.counters.stream_items_checked));
                }
                add_counters(rep, &w);
            }
        }
    }
}
}
