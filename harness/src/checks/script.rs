//! Action alphabet over the World shared by the history/schedule properties, with the
//! state-dependent "enabled actions" function used by the exhaustive enumerator and the random walks.

use crate::enumerate::Chooser;
use crate::refcodec::AckKind;
use crate::sim::Rng;
use crate::world::*;

#[derive(Clone, Copy, Debug, PartialEq, Eq, Hash)]
pub enum SubSel {
    /// subscription identifier of the k-th subscribe op that is on the wire
    Op(u8),
    Never,
    Absent,
    /// identifiers of the first two subscribe ops together
    Both,
    /// identifier of the first subscribe op, of the second, and of the first again (carried twice, not adjacent)
    Repeat,
}

#[derive(Clone, Copy, Debug, PartialEq, Eq, Hash)]
pub enum TermAct {
    UserDisconnect,
    ServerDisconnect { reason: u8, form: u8, props: bool },
    Eof,
    ReadErr,
    /// one read fails with Interrupted / WouldBlock while more input is readable behind it
    TransientReadErr(bool),
    Garbage,
    DropHandles,
    WriteErr,
}

#[derive(Clone, Copy, Debug, PartialEq, Eq, Hash)]
pub enum Act {
    Start(Kind),
    Create(Kind),
    FirstPoll(usize),
    Ack { op: usize, stage: u8, ridx: u8, form: u8 },
    PingResp,
    Hold(usize),
    Release(usize),
    Spurious(usize),
    DropOp(usize),
    InPub { qos: u8, id: u16, dup: bool, sub: SubSel },
    InRel(u16),
    StrayAck(AckKind, u16),
    TakeStream(usize),
    DropStream(usize),
    HoldStream(usize),
    ReleaseStream(usize),
    /// the stream of subscribe op i is passed to another task: polled under a new waker from now on
    HandoverStream(usize),
    /// the future of run() / of operation i moves to another task (new waker)
    HandoverCtx,
    HandoverOp(usize),
    Term(TermAct),
    /// after run() ended on a cause: connect the same Context again (0 = session resumed, 1 = resumed under Receive
    /// Maximum 2, 2 = long after the disconnection, 3 = without a recorded disconnection) and run
    Reconnect(u8),
    /// another clone of the handle comes into being / one clone (never the last) is dropped
    CloneHandle,
    DropHandle(usize),
    DropCtx,
    HoldCtx,
    ReleaseCtx,
    StallWriter,
    ReleaseWriter,
    Sweep,
}

#[derive(Clone, Debug)]
pub struct Alpha {
    pub kinds: Vec<Kind>,
    pub max_ops: usize,
    pub max_conc: usize,
    /// (reason index, form) variants offered per ackable op for publish acknowledgements
    pub pub_ack_variants: Vec<(u8, u8)>,
    pub sub_ack_variants: Vec<(u8, u8)>,
    pub holds: bool,
    /// any submitted pending operation may be held (not polled even when woken), not only a QoS 2 publish between its phases
    pub holds_any: bool,
    pub spurious: bool,
    pub drops: bool,
    pub create_unpolled: bool,
    pub inbound: Vec<(u8, u16, bool, SubSel)>,
    pub pubrels: Vec<u16>,
    pub max_inbound: usize,
    pub stray: Vec<(AckKind, u16)>,
    pub streams: bool,
    pub stream_holds: bool,
    pub stream_handover: bool,
    pub task_handover: bool,
    pub terms: Vec<TermAct>,
    pub drop_ctx: bool,
    pub after_drop_kinds: Vec<Kind>,
    pub race: bool,
    pub writer_stall: bool,
    /// allow client actions after a terminating cause (they queue behind it)
    pub after_term: bool,
    /// after run() ended, the same Context may be connected again and the script goes on
    pub reconnect: bool,
    /// handle clones are created and dropped along the way (at least one always survives)
    pub handle_churn: bool,
}

impl Default for Alpha {
    fn default() -> Self {
        Alpha {
            kinds: vec![],
            max_ops: 3,
            max_conc: 3,
            pub_ack_variants: vec![(0, 0), (2, 1)],
            sub_ack_variants: vec![(0, 0), (3, 1)],
            holds: false,
            holds_any: false,
            spurious: false,
            drops: false,
            create_unpolled: false,
            inbound: vec![],
            pubrels: vec![],
            max_inbound: 0,
            stray: vec![],
            streams: false,
            stream_holds: false,
            stream_handover: false,
            task_handover: false,
            terms: vec![],
            drop_ctx: false,
            after_drop_kinds: vec![],
            race: false,
            writer_stall: false,
            after_term: false,
            reconnect: false,
            handle_churn: false,
        }
    }
}

pub fn sub_ops_on_wire(w: &World) -> Vec<usize> {
    (0..w.m.len()).filter(|&i| w.m[i].kind == Kind::Sub && w.m[i].registered).collect()
}

pub fn enabled(w: &World, a: &Alpha) -> Vec<Act> {
    let mut v = Vec::new();
    let n_ops = w.m.len();
    let pending = (0..n_ops).filter(|&i| w.sim.ops[i].task.alive()).count();
    if w.ctx_dropped {
        if n_ops < a.max_ops + 2 {
            for &k in &a.after_drop_kinds {
                v.push(Act::Start(k));
            }
        }
        for i in 0..n_ops {
            if a.holds && w.sim.ops[i].held {
                v.push(Act::Release(i));
            }
            if a.streams && w.m[i].kind == Kind::Sub && !w.m[i].stream_dropped {
                if w.m[i].stream.is_none() && w.sim.ops[i].rsp.is_some() {
                    v.push(Act::TakeStream(i));
                }
                if let Some(s) = w.m[i].stream {
                    if w.sim.streams[s].held {
                        v.push(Act::ReleaseStream(i));
                    }
                }
            }
        }
        return v;
    }
    let termed = w.term.is_some();
    if !termed || a.after_term {
        if n_ops < a.max_ops && pending < a.max_conc {
            for &k in &a.kinds {
                v.push(Act::Start(k));
                if a.create_unpolled {
                    v.push(Act::Create(k));
                }
            }
        }
    }
    for i in 0..n_ops {
        let alive = w.sim.ops[i].task.alive();
        if alive && !w.m[i].submitted {
            v.push(Act::FirstPoll(i));
        }
        if alive && a.holds {
            if w.sim.ops[i].held {
                v.push(Act::Release(i));
            } else if w.m[i].submitted && (a.holds_any || (w.m[i].kind == Kind::Pub2 && w.m[i].req_wire.is_some() && !w.m[i].ack1)) {
                // the interesting delay: between the two phases of a QoS 2 publish
                v.push(Act::Hold(i));
            }
        }
        if alive && a.spurious && w.m[i].submitted && !w.sim.ops[i].held {
            v.push(Act::Spurious(i));
        }
        if alive && a.drops && !w.m[i].dropped {
            v.push(Act::DropOp(i));
        }
    }
    if !termed {
        for (i, stage) in w.ackable() {
            let vars = if w.m[i].kind.is_qos_pub() { &a.pub_ack_variants } else { &a.sub_ack_variants };
            for &(ridx, form) in vars {
                v.push(Act::Ack { op: i, stage, ridx, form });
            }
        }
        if !w.pings_outstanding().is_empty() {
            v.push(Act::PingResp);
        }
        if w.inbound_seq < a.max_inbound {
            let subs = sub_ops_on_wire(w);
            for &(qos, id, dup, sub) in &a.inbound {
                match sub {
                    SubSel::Op(k) if (k as usize) >= subs.len() => continue,
                    SubSel::Both | SubSel::Repeat if subs.len() < 2 => continue,
                    _ => {}
                }
                v.push(Act::InPub { qos, id, dup, sub });
            }
            for &id in &a.pubrels {
                v.push(Act::InRel(id));
            }
            for &(k, id) in &a.stray {
                v.push(Act::StrayAck(k, id));
            }
        }
    }
    if a.streams {
        for i in 0..n_ops {
            if w.m[i].kind == Kind::Sub && !w.m[i].stream_dropped {
                if w.m[i].stream.is_none() && w.sim.ops[i].rsp.is_some() {
                    v.push(Act::TakeStream(i));
                }
                if w.m[i].stream.is_some() || w.sim.ops[i].rsp.is_some() {
                    if a.drops {
                        v.push(Act::DropStream(i));
                    }
                }
                if a.stream_handover {
                    if let Some(s) = w.m[i].stream {
                        if !w.sim.streams[s].held && w.sim.streams[s].stream.is_some() {
                            v.push(Act::HandoverStream(i));
                        }
                    }
                }
                if a.stream_holds {
                    if let Some(s) = w.m[i].stream {
                        if w.sim.streams[s].held {
                            v.push(Act::ReleaseStream(i));
                        } else {
                            v.push(Act::HoldStream(i));
                        }
                    }
                }
            }
        }
    }
    if !termed {
        for &t in &a.terms {
            v.push(Act::Term(t));
        }
    }
    if a.handle_churn && !w.ctx_dropped {
        let live: Vec<usize> = (0..w.sim.handles.len()).filter(|&i| w.sim.handles[i].is_some()).collect();
        if !live.is_empty() && w.sim.handles.len() < 6 {
            v.push(Act::CloneHandle);
        }
        if live.len() >= 2 {
            for &i in &live {
                v.push(Act::DropHandle(i));
            }
        }
    }
    if a.reconnect && can_reconnect(w) {
        for k in 0..3u8 {
            v.push(Act::Reconnect(k));
        }
        if w.unfinished().0.is_empty() && w.unfinished().1.is_empty() {
            v.push(Act::Reconnect(3));
        }
    }
    if a.task_handover && !w.ctx_dropped {
        if w.sim.ctx_in_call().is_some() && !w.sim.hold_ctx {
            v.push(Act::HandoverCtx);
        }
        for i in 0..w.m.len() {
            if w.m[i].submitted && !w.m[i].dropped && w.sim.ops[i].task.alive() && !w.sim.ops[i].held {
                v.push(Act::HandoverOp(i));
            }
        }
    }
    if a.drop_ctx {
        v.push(Act::DropCtx);
    }
    if a.race && !termed {
        if w.sim.hold_ctx {
            v.push(Act::ReleaseCtx);
        } else {
            v.push(Act::HoldCtx);
        }
    }
    if a.writer_stall && !termed {
        if w.sim.writer.0.borrow().stalled {
            v.push(Act::ReleaseWriter);
        } else {
            v.push(Act::StallWriter);
        }
    }
    v
}

/// run() has returned on a terminating cause, the context and a handle are still there, and nothing is pending whose
/// fate across connections the properties do not settle (only unfinished QoS 1/2 handshakes may be carried over).
pub fn can_reconnect(w: &World) -> bool {
    if w.term.is_none() || !w.term_checked || w.ctx_dropped || w.reconnects >= 3 || w.blind {
        return false;
    }
    if matches!(w.term, Some(Term::HandlesDropped)) || w.sim.handles.iter().all(|h| h.is_none()) || w.sim.hold_ctx || w.sim.writer.0.borrow().stalled {
        return false;
    }
    if !w.sim.ctx_alive() || w.sim.ctx_in_call().is_some() {
        return false;
    }
    for (i, m) in w.m.iter().enumerate() {
        let alive = w.sim.ops[i].task.alive();
        if alive && m.after_term {
            return false;
        }
        if alive && m.submitted && !(m.kind.is_qos_pub() && m.req_wire.is_some()) {
            return false;
        }
        if m.kind == Kind::Ping && m.req_wire.is_some() && !m.ack1 {
            return false;
        }
    }
    true
}

pub fn apply(w: &mut World, act: Act) {
    match act {
        Act::Reconnect(k) => {
            let interval = w.sei.unwrap_or(0);
            let ago: u64 = if k == 2 { 1_000_000 } else { 1 };
            let expired = k != 3 && (interval == 0 || (interval != u32::MAX && ago > interval as u64));
            // k == 4: the resumed connection announces a Maximum Packet Size (8) below what is re-sent
            let o = ResumeOpts { secs_ago: ago, sei: w.sei, receive_max: if k == 1 { Some(2) } else { None }, max_packet: if k == 4 { Some(8) } else { None }, expect_expired: expired, plain: k == 3, trailing: ((w.reconnects as usize + w.m.len()) % 3).min(2) as u8, ..Default::default() };
            w.resume_full(o);
        }
        Act::Start(k) => {
            // operations alternate between the live handle clones
            let live: Vec<usize> = (0..w.sim.handles.len()).filter(|&i| w.sim.handles[i].is_some()).collect();
            if !live.is_empty() {
                let h = live[w.m.len() % live.len().min(2)];
                w.start(h, k);
            }
        }
        Act::Create(k) => {
            let live: Vec<usize> = (0..w.sim.handles.len()).filter(|&i| w.sim.handles[i].is_some()).collect();
            if let Some(&h) = live.first() {
                w.create(h, k);
            }
        }
        Act::CloneHandle => {
            if let Some(from) = (0..w.sim.handles.len()).find(|&i| w.sim.handles[i].is_some()) {
                let n = w.sim.clone_handle(from);
                w.sim.note(|| format!("handle {n} cloned from handle {from}"));
            }
        }
        Act::DropHandle(i) => {
            let live = w.sim.handles.iter().filter(|h| h.is_some()).count();
            if live >= 2 && w.sim.handles[i].is_some() {
                w.sim.drop_handle(i);
            }
        }
        Act::FirstPoll(i) => w.submit(i),
        Act::Ack { op, stage, ridx, form } => w.deliver_ack(op, stage, ridx as usize, form),
        Act::PingResp => w.pingresp(),
        Act::Hold(i) => {
            w.sim.ops[i].held = true;
            w.sim.note(|| format!("op{i} held (not polled even if woken)"));
        }
        Act::Release(i) => {
            w.sim.ops[i].held = false;
            w.sim.note(|| format!("op{i} released"));
        }
        Act::Spurious(i) => {
            w.sim.note(|| format!("op{i} spurious poll"));
            w.sim.spurious_polls += 1;
            w.sim.poll_op(i);
        }
        Act::DropOp(i) => w.drop_op(i),
        Act::InPub { qos, id, dup, sub } => {
            let subs = sub_ops_on_wire(w);
            let ids: Vec<u32> = match sub {
                SubSel::Op(k) => vec![w.m[subs[k as usize]].sub_id.unwrap_or(0x0fff_fff0)],
                SubSel::Never => vec![0x0fff_fff1],
                SubSel::Absent => vec![],
                SubSel::Both => vec![w.m[subs[0]].sub_id.unwrap_or(0x0fff_fff0), w.m[subs[1]].sub_id.unwrap_or(0x0fff_fff2)],
                SubSel::Repeat => {
                    let (a, b) = (w.m[subs[0]].sub_id.unwrap_or(0x0fff_fff0), w.m[subs[1]].sub_id.unwrap_or(0x0fff_fff2));
                    vec![a, b, a]
                }
            };
            w.in_publish(qos, id, dup, &ids, false);
        }
        Act::InRel(id) => w.in_pubrel(id),
        Act::StrayAck(k, id) => {
            // only if it cannot be mistaken for a live acknowledgement
            let live = w.m.iter().any(|m| m.pkt_id == Some(id) && m.req_wire.is_some());
            if !live || k == AckKind::Pubrel {
                w.stray_ack(k, id, 0);
            }
        }
        Act::TakeStream(i) => {
            w.take_stream(i);
        }
        Act::DropStream(i) => w.drop_stream(i),
        Act::HandoverCtx => w.sim.handover_ctx(),
        Act::HandoverOp(i) => w.sim.handover_op(i),
        Act::HandoverStream(i) => {
            if let Some(s) = w.m[i].stream {
                w.sim.handover_stream(s);
            }
        }
        Act::HoldStream(i) => {
            if let Some(s) = w.m[i].stream {
                w.sim.streams[s].held = true;
            }
        }
        Act::ReleaseStream(i) => {
            if let Some(s) = w.m[i].stream {
                w.sim.streams[s].held = false;
                std::task::Wake::wake_by_ref(&w.sim.streams[s].w);
            }
        }
        Act::Term(t) => match t {
            TermAct::UserDisconnect => {
                if w.sim.handles.iter().all(|h| h.is_none()) {
                    // nobody left who could ask for it
                    return;
                }
                w.start(0, Kind::Disc);
                // from the submission on no other cause is injected (with the context held, which of two
                // causes wins is the select!'s free choice)
                if w.term.is_none() {
                    w.term = Some(Term::UserDisconnect);
                }
            }
            TermAct::ServerDisconnect { reason, form, props } => w.server_disconnect(reason, form, props),
            TermAct::Eof => w.eof(),
            TermAct::ReadErr => w.read_err(),
            TermAct::TransientReadErr(wb) => w.read_err_transient(if wb { std::io::ErrorKind::WouldBlock } else { std::io::ErrorKind::Interrupted }),
            TermAct::Garbage => {
                // undecodable input of several kinds, chosen by the amount of traffic so far
                let variants: [&[u8]; 6] = [
                    &[0x00, 0x00],                               // packet type 0
                    &[0x40, 0xff, 0xff, 0xff, 0xff, 0x01],       // remaining length longer than 4 bytes
                    &[0x20, 0x03, 0x00, 0x00, 0x00],             // CONNACK on an established connection
                    &[0x30, 0x03, 0x00, 0x05, 0x61],             // PUBLISH whose topic length exceeds the packet
                    &[0x90, 0x03, 0x00, 0x00, 0x00],             // SUBACK with packet identifier 0
                    &[0xe0, 0x01, 0x01],                         // DISCONNECT with an undefined reason code
                ];
                let k = (w.inbound_seq + w.m.len()) % variants.len();
                w.garbage(variants[k])
            }
            TermAct::DropHandles => w.drop_all_handles(),
            TermAct::WriteErr => w.write_err(),
        },
        Act::DropCtx => w.drop_ctx(),
        Act::HoldCtx => {
            w.sim.hold_ctx = true;
            w.sim.note(|| "ctx held (not polled even if woken)".into());
        }
        Act::ReleaseCtx => {
            w.sim.hold_ctx = false;
            w.sim.note(|| "ctx released".into());
        }
        Act::StallWriter => w.sim.stall_writer(),
        Act::ReleaseWriter => w.sim.release_writer(),
        Act::Sweep => {
            w.sim.sweep();
        }
    }
}

/// Runs one enumerated path: repeatedly asks the chooser for one of the enabled actions.
pub fn run_path(w: &mut World, a: &Alpha, ch: &mut Chooser) -> Vec<Act> {
    let mut acts = Vec::new();
    loop {
        let en = enabled(w, a);
        let Some(c) = ch.choose(en.len()) else { break };
        let act = en[c];
        acts.push(act);
        apply(w, act);
        w.settle_check();
        if w.blind {
            break;
        }
    }
    finish(w);
    acts
}

/// Like run_path but without the end-of-script wrap-up (the caller continues the scenario).
pub fn run_path_nofinish(w: &mut World, a: &Alpha, ch: &mut Chooser) -> Vec<Act> {
    let mut acts = Vec::new();
    loop {
        let en = enabled(w, a);
        let Some(c) = ch.choose(en.len()) else { break };
        let act = en[c];
        acts.push(act);
        apply(w, act);
        w.settle_check();
        if w.blind {
            break;
        }
    }
    acts
}

/// Random walk of `steps` actions.
pub fn run_walk(w: &mut World, a: &Alpha, rng: &mut Rng, steps: usize) -> Vec<Act> {
    let mut acts = Vec::new();
    for _ in 0..steps {
        let en = enabled(w, a);
        if en.is_empty() {
            break;
        }
        let act = en[rng.below(en.len())];
        acts.push(act);
        apply(w, act);
        w.settle_check();
        if w.blind {
            break;
        }
    }
    finish(w);
    acts
}

/// End of script: release everything that the script held back and take a final verdict.
pub fn finish(w: &mut World) {
    if w.blind {
        return;
    }
    if w.sim.hold_ctx {
        w.sim.hold_ctx = false;
    }
    if w.sim.writer.0.borrow().stalled {
        w.sim.release_writer();
    }
    for i in 0..w.sim.ops.len() {
        w.sim.ops[i].held = false;
    }
    for s in 0..w.sim.streams.len() {
        if w.sim.streams[s].held {
            w.sim.streams[s].held = false;
            std::task::Wake::wake_by_ref(&w.sim.streams[s].w);
        }
    }
    w.settle_check();
    // C16 rule evaluated on every script: at wake-only quiescence one more poll of everything changes nothing
    if let Some(m) = w.sim.check_sweep_noop() {
        w.viol(&["C16"], "C16/sweep-at-quiescence-has-effect".into(), m);
    }
    w.check();
}
