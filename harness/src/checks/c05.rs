//! C05 — each operation completes exactly once, with the acknowledgement addressed to it.

use super::script::*;
use super::{explore_world, walk_world};
use crate::report::Rep;
use crate::world::*;

pub fn alpha(rep: &Rep) -> Alpha {
    Alpha {
        kinds: vec![Kind::Pub1, Kind::Pub2, Kind::Sub, Kind::Unsub, Kind::Ping],
        max_ops: if rep.quick() { 3 } else { 4 },
        max_conc: if rep.quick() { 3 } else { 4 },
        pub_ack_variants: vec![(0, 0), (2, 1)],
        sub_ack_variants: vec![(1, 1)],
        holds: true,
        spurious: true,
        ..Default::default()
    }
}

pub fn run(rep: &mut Rep) {
    let a = alpha(rep);
    let depth = if rep.quick() { 6 } else { 8 };
    rep.note(&format!(
        "exhaustive: every path of <= {depth} actions over {{start pub1/pub2/sub/unsub/ping (<= {} ops, alternating two handle clones), deliver the ack of any outstanding request (success short form / failure full form with reason string + user property), PINGRESP, hold/release a QoS 2 future between its phases, spurious poll}}; model compared at every quiescent point",
        a.max_ops
    ));
    // identifiers seeded so that high-byte/low-byte mix-ups in the correlation key show
    for (k, ids) in [(0u64, None), (1, Some((255u16, 127u32))), (2, Some((65534u16, 16383u32)))].iter() {
        let ids = *ids;
        let seed = rep.seed;
        let d = if *k == 0 { depth } else { depth - 1 };
        explore_world(rep, &format!("exh{k}"), d, &move || World::boot(WorldCfg { seed, seed_ids: ids, ..Default::default() }), &a);
    }
    let walks = if rep.quick() { 200 } else { 3000 };
    let mut wa = a.clone();
    wa.max_ops = 400;
    wa.max_conc = 6;
    wa.pub_ack_variants = vec![(0, 0), (1, 1), (2, 1), (5, 0), (8, 1)];
    let steps = if rep.quick() { 300 } else { 1000 };
    walk_world(rep, "walk", walks, steps, &|s| World::boot(WorldCfg { seed: s, seed_ids: Some(((s % 65000) as u16 + 1, (s % 70000) as u32 + 1)), order: (s % 4) as u8, ..Default::default() }), &wa);
}
