//! C05 — each operation completes exactly once, with the acknowledgement addressed to it.

use super::script::*;
use super::{explore_world, walk_world};
use crate::report::Rep;
use crate::world::*;

pub fn alpha(rep: &Rep) -> Alpha {
    Alpha {
        kinds: vec![Kind::Pub1, Kind::Pub2, Kind::Sub, Kind::Unsub, Kind::Ping],
        max_ops: if rep.quick() { 3 } else { 4 },
        max_conc: if rep.quick() { 3 } else { 4 },
        pub_ack_variants: vec![(0, 0), (2, 1)],
        sub_ack_variants: vec![(1, 1)],
        holds: true,
        spurious: true,
        ..Default::default()
    }
}

/// Handshakes carried over from a lost connection complete with the acknowledgements of the resumed one, whatever
/// Receive Maximum the new CONNACK announces (used by C05 for the results and by C06 for the handshake rules).
pub fn resumed_connection(rep: &mut Rep, idx: &mut u64) {
    // acknowledgements on a resumed connection: handshakes carried over from the previous connection complete with
    // the acknowledgement addressed to them, whatever the new connection's Receive Maximum is
    rep.note("resumed connection: 1-6 QoS 1/2 publishes unfinished (some QoS 2 ones released) when the connection is lost, session resumed with the new CONNACK announcing Receive Maximum absent / 1 / 2 / 3 (also fewer than the handshakes carried over), new operations of other kinds started, every acknowledgement delivered in PRNG order with success / failure reasons: each future completes exactly once with its own acknowledgement");
    for unfinished in 1..=6usize {
        for rmax in [None, Some(1u16), Some(2), Some(3)] {
            for rep_k in 0..2u64 {
                let id = format!("resumed:{unfinished}:{:?}:{rep_k}", rmax);
                *idx += 1;
                if !rep.take(*idx, &id) {
                    continue;
                }
                let mut rng = crate::sim::Rng::new(rep.seed.wrapping_mul(911).wrapping_add(*idx));
                let mut w = World::boot(WorldCfg { seed: rep.seed.wrapping_add(rep_k), sei: Some(3600), ..Default::default() });
                for j in 0..unfinished {
                    let i = w.start(j % 2, if (j + rep_k as usize) % 2 == 0 { Kind::Pub1 } else { Kind::Pub2 });
                    w.settle_check();
                    if w.m[i].kind == Kind::Pub2 && j % 4 == 1 {
                        w.deliver_ack(i, 1, 0, 0);
                        w.settle_check();
                    }
                }
                if rep_k == 0 {
                    w.eof();
                } else {
                    w.server_disconnect(0x8b, 1, false);
                }
                w.settle_check();
                // with four or more exchanges carried over (the fourth publish has a long multi-byte topic) every second case
                // resumes under a Maximum Packet Size of 20 bytes: what was sent before is sent again all the same, and its
                // future completes on the acknowledgement that follows
                let mps = if unfinished >= 4 && rep_k == 1 { Some(20u32) } else { None };
                if mps.is_some() {
                    rep.add("resumptions_under_a_limit_below_a_carried_over_publish", 1);
                }
                let resumed = w.resume_full(ResumeOpts { secs_ago: 1, sei: Some(3600), receive_max: rmax, max_packet: mps, ..Default::default() });
                w.settle_check();
                if resumed && !w.blind {
                    w.start(0, Kind::Sub);
                    w.start(1, Kind::Ping);
                    w.start(0, Kind::Unsub);
                    w.settle_check();
                    let mut guard = 0;
                    loop {
                        let mut ackable = w.ackable();
                        let pings = w.pings_outstanding().len();
                        if (ackable.is_empty() && pings == 0) || w.blind || guard > 60 {
                            break;
                        }
                        if pings > 0 && (ackable.is_empty() || rng.chance(1, 4)) {
                            w.pingresp();
                        } else {
                            let (i, st) = ackable.swap_remove(rng.below(ackable.len()));
                            w.deliver_ack(i, st, rng.below(9), (rng.next() % 2) as u8);
                        }
                        w.settle_check();
                        guard += 1;
                    }
                }
                super::script::finish(&mut w);
                rep.add("evaluations", 1);
                rep.add("resumed_connection_cases", 1);
                rep.distinct(&("resumed", unfinished, rmax, rep_k));
                if super::harvest(rep, &mut w, &id) == 0 {
                    rep.sample(|| format!("{id}: {unfinished} handshakes carried over, all completed with their own acknowledgement"));
                }
                super::add_counters(rep, &w);
            }
        }
    }
}

fn run_mt(rep: &mut Rep, idx: &mut u64) {
    // real threads: every result is checked against the acknowledgement generated for that very request
    let mt: Vec<(usize, usize)> = if rep.quick() { vec![(4, 6000), (8, 4000), (2, 6000), (6, 4000)] } else { vec![(4, 40_000), (8, 40_000), (8, 30_000), (6, 50_000), (2, 60_000), (3, 50_000), (5, 40_000), (7, 30_000)] };
    rep.note("multi-thread: 2-8 OS threads with handle clones issuing batches of 1-12 concurrent operations; the broker thread answers with random delay and reordering, every acknowledgement carries the request's own topic as reason string and a reason code derived from it; each client verifies it got exactly that");
    for (k, (threads, ops)) in mt.iter().enumerate() {
        let id = format!("mt:{k}:{threads}:{ops}");
        *idx += 1;
        if rep.take(*idx, &id) {
            super::mt::mt_stress(rep, &id, *threads, *ops, rep.seed.wrapping_mul(131).wrapping_add(k as u64), true, "C05");
        }
    }
}

/// A request whose packet never made it onto the connection - the transport failed under it, or the application gave up on
/// run() while the write was waiting - has no acknowledgement coming. The acknowledgements that do arrive later belong to
/// the operations that were written: with pings, which share one key, the PINGRESP answering the second ping must complete
/// the second ping.
fn unwritten_requests(rep: &mut Rep) {
    use crate::refcodec::{AckForm, AckKind, CPacket, SPacket};
    use crate::sim::{Cmd, Sim};
    use crate::spec::{ConnSpec, OpSpec, PubSpec, SubSpec, UnsubSpec};
    rep.note("requests that never reached the wire: a ping / QoS 1 publish / subscribe / unsubscribe whose write fails at once, after 1 byte, or waits for ever and run() is dropped there; then run() again (or a new connection), the same kind of request again, and its acknowledgement: the second operation completes with it, the first has failed and stays failed");
    let kinds: Vec<(&str, Box<dyn Fn(usize) -> OpSpec>)> = vec![
        ("ping", Box::new(|_| OpSpec::Ping)),
        ("pub1", Box::new(|j| OpSpec::Publish(PubSpec::simple(1, &format!("t/{j}"), b"x")))),
        ("sub", Box::new(|j| OpSpec::Subscribe(SubSpec::simple(&format!("f/{j}"))))),
        ("unsub", Box::new(|j| OpSpec::Unsubscribe(UnsubSpec::simple(&format!("u/{j}"))))),
    ];
    let mut idx = 23_000_000u64;
    for (kname, mk) in &kinds {
        for fault in 0..4u8 {
            for accept in 0..2usize {
                let id = format!("unwritten:{kname}:{fault}:{accept}");
                idx += 1;
                if !rep.take(idx, &id) {
                    continue;
                }
                let mut sim = Sim::new(rep.seed);
                sim.cmd(Cmd::Connect(ConnSpec::default()));
                sim.settle();
                sim.feed_packet(&SPacket::Connack { session_present: false, reason: 0, props: vec![] });
                sim.settle();
                sim.cmd(Cmd::Run);
                sim.settle();
                let at = sim.written_len() + accept;
                match fault {
                    0 | 1 => sim.writer.0.borrow_mut().stall_at = Some(at),
                    _ => sim.writer.0.borrow_mut().err_at = Some(at),
                }
                let a = sim.start_op(0, mk(0));
                sim.settle();
                match fault {
                    0 | 1 => {
                        // the application gives up on run() while the write is waiting, the transport recovers, run() again.
                        // (with one byte of the packet accepted the wire is torn: only the first operation's fate is judged then)
                        sim.cancel_run();
                        sim.settle();
                        sim.writer.0.borrow_mut().stall_at = None;
                        if fault == 1 {
                            // ... on a new connection of the same Context
                            sim.new_transport();
                            sim.cmd(Cmd::Connect(ConnSpec::default()));
                            sim.settle();
                            sim.feed_packet(&SPacket::Connack { session_present: false, reason: 0, props: vec![] });
                            sim.settle();
                        }
                        sim.cmd(Cmd::Run);
                        sim.settle();
                    }
                    _ => {
                        // the write failed, run() has returned; a new connection of the same Context
                        sim.new_transport();
                        sim.cmd(Cmd::Connect(ConnSpec::default()));
                        sim.settle();
                        sim.feed_packet(&SPacket::Connack { session_present: fault == 3, reason: 0, props: vec![] });
                        sim.settle();
                        sim.cmd(Cmd::Run);
                        sim.settle();
                    }
                }
                rep.add("evaluations", 1);
                rep.add("unwritten_request_cases", 1);
                rep.distinct(&("unwritten", kname, fault, accept));
                for p in sim.panics.clone() {
                    rep.violation(&format!("C05/panic/{p}"), &id, &format!("panic: {p}\n{}", sim.tail_log(30)));
                }
                let torn = fault == 0 && accept > 0;
                if sim.run_result().is_some() || torn {
                    // (a torn wire, or a run() that did not come back up, is for other properties to judge)
                    if let Some(o) = &sim.ops[a].out {
                        if o.is_ok() {
                            rep.violation(&format!("C05/completed-without-its-ack/never-written/{kname}"), &id, &format!("the request was never written in full, yet it completed with {}\n{}", o.brief(), sim.tail_log(30)));
                        }
                    }
                    continue;
                }
                sim.parse_wire();
                let before = sim.wire.len();
                let b = sim.start_op(0, mk(1));
                sim.settle();
                sim.parse_wire();
                let ack = match sim.wire.get(before).map(|w| w.pkt.clone()) {
                    Some(Ok(CPacket::Pingreq)) => Some(SPacket::Pingresp),
                    Some(Ok(CPacket::Publish(p))) => Some(SPacket::Ack { kind: AckKind::Puback, id: p.id.unwrap_or(0), reason: 0, props: vec![], form: AckForm::Short2 }),
                    Some(Ok(CPacket::Subscribe(x))) => Some(SPacket::Suback { id: x.id, props: vec![], reasons: vec![0] }),
                    Some(Ok(CPacket::Unsubscribe(x))) => Some(SPacket::Unsuback { id: x.id, props: vec![], reasons: vec![0] }),
                    _ => None,
                };
                let Some(ack) = ack else {
                    rep.violation(&format!("C05/connection-given-up/second-request-not-written/{kname}"), &id, &format!("after the first request failed to be written the second one was not written either; run() = {:?}\n{}", sim.run_result(), sim.tail_log(30)));
                    continue;
                };
                sim.feed_packet(&ack);
                sim.settle();
                let a_ok = sim.ops[a].out.as_ref().map(|o| o.is_ok()).unwrap_or(false);
                let b_done = sim.ops[b].out.as_ref().map(|o| o.is_ok()).unwrap_or(false);
                if a_ok {
                    rep.violation(&format!("C05/completed-with-anothers-ack/never-written/{kname}"), &id, &format!("the first {kname} never reached the wire, the acknowledgement of the second one completed it: first = {:?}, second = {:?}\n{}", sim.ops[a].out.as_ref().map(|o| o.brief()), sim.ops[b].out.as_ref().map(|o| o.brief()), sim.tail_log(40)));
                } else if !b_done {
                    rep.violation(&format!("C05/still-pending-after-ack/{kname}/behind-a-never-written-request"), &id, &format!("second {kname} written and acknowledged, result {:?}; first = {:?}\n{}", sim.ops[b].out.as_ref().map(|o| o.brief()), sim.ops[a].out.as_ref().map(|o| o.brief()), sim.tail_log(40)));
                } else {
                    rep.add("op_results_matched_to_their_ack", 1);
                    rep.sample(|| format!("{id}: first = {:?}, second completed with its own acknowledgement", sim.ops[a].out.as_ref().map(|o| o.brief())));
                }
            }
        }
    }
}

/// A publish refused locally (send window used up, or larger than the Maximum Packet Size) in the midst of other requests
/// that were started after it and before its refusal was seen: those and the ones started afterwards still complete each
/// with its own acknowledgement - whatever the library does with the identifier of the refused publish.
fn refused_in_the_midst(rep: &mut Rep) {
    rep.note("refused in the midst: a QoS 1 / QoS 2 publish refused for quota (Receive Maximum 1, one publish in flight) or for size (Maximum Packet Size 64) while 1-2 requests started after it are queued behind it (context held); after the refusal is seen, 1-2 further requests of the same kinds; acknowledgements in reverse order with distinct contents");
    let mut idx = 24_000_000u64;
    for by_size in [false, true] {
        for xk in [Kind::Pub1, Kind::Pub2] {
            for yk in [Kind::Sub, Kind::Unsub, Kind::Pub1, Kind::Pub2] {
                for n_between in 1..=2usize {
                    for poll_first in [false, true] {
                        // under Receive Maximum 1 with a publish in flight, further QoS>0 publishes would be refused as well
                        if !by_size && yk.is_qos_pub() {
                            continue;
                        }
                        let id = format!("refused-midst:{}:{}:{}:{n_between}:{}", by_size as u8, xk.name(), yk.name(), poll_first as u8);
                        idx += 1;
                        if !rep.take(idx, &id) {
                            continue;
                        }
                        let mut w = World::boot(WorldCfg { seed: rep.seed, receive_max: if by_size { None } else { Some(1) }, max_packet: if by_size { Some(64) } else { None }, ..Default::default() });
                        if !by_size {
                            w.start(0, Kind::Pub1);
                            w.settle_check();
                        }
                        w.sim.hold_ctx = true;
                        let x = w.create(0, if by_size { Kind::PubBig } else { xk });
                        w.submit(x);
                        let mut later = Vec::new();
                        for j in 0..n_between {
                            later.push(w.start(1 - j % 2, yk));
                        }
                        // (poll_first: the refused publish's future is the first / the last of the woken futures to be polled)
                        w.sim.order = if poll_first { 0 } else { 1 };
                        w.sim.hold_ctx = false;
                        w.settle_check();
                        for j in 0..2usize {
                            later.push(w.start(j % 2, yk));
                            w.settle_check();
                        }
                        // answer in reverse order, full form (distinct reason strings)
                        for &i in later.iter().rev() {
                            if w.blind || w.m[i].pkt_id.is_none() {
                                continue;
                            }
                            w.deliver_ack(i, 1, 0, 1);
                            w.settle_check();
                            if w.m[i].kind == Kind::Pub2 {
                                w.deliver_ack(i, 2, 0, 1);
                                w.settle_check();
                            }
                        }
                        finish(&mut w);
                        rep.add("evaluations", 1);
                        rep.add("refused_in_the_midst_cases", 1);
                        rep.distinct(&("refused-midst", by_size, xk, yk, n_between, poll_first));
                        for v in w.viols.iter_mut() {
                            if v.sig.starts_with("C11/duplicate-packet-id") {
                                // two operations of one kind outstanding under one identifier cannot both get their own acknowledgement
                                v.props = &["C05", "C11"];
                            }
                        }
                        if super::harvest(rep, &mut w, &id) == 0 {
                            rep.sample(|| format!("{id}: results {:?}", later.iter().map(|&i| w.sim.ops[i].out.as_ref().map(|o| o.brief())).collect::<Vec<_>>()));
                        }
                        super::add_counters(rep, &w);
                    }
                }
            }
        }
    }
}

/// The acknowledgement arrives right behind a large inbound message, in the transport read that brings that message's last
/// bytes (short reads: the client asks for more than the rest of the message there).
fn ack_behind_a_large_message(rep: &mut Rep) {
    let sizes = [1_000usize, 4_000, 5_000, 9_000, 66_000, 70_300, 300_000];
    let caps = [1000usize, 700, 333, 4096];
    rep.note(&format!("acknowledgement behind a large message: an inbound PUBLISH of {:?} bytes for a live subscription directly followed by the acknowledgement of a waiting QoS 1 / QoS 2 publish, subscribe, unsubscribe or ping, everything available at once, reads capped at {:?} bytes: the operation completes with it, the message is yielded", sizes, caps));
    let mut idx = 25_000_000u64;
    for (si, &sz) in sizes.iter().enumerate() {
        for (ci, &cap) in caps.iter().enumerate() {
            for kind in [Kind::Pub1, Kind::Pub2, Kind::Sub, Kind::Unsub, Kind::Ping] {
                let id = format!("ack-behind:{sz}:{cap}:{}", kind.name());
                idx += 1;
                if !rep.take(idx, &id) {
                    continue;
                }
                let mut w = World::boot(WorldCfg { seed: rep.seed, order: ((si + ci) % 4) as u8, ..Default::default() });
                w.sim.log_enabled = sz < 10_000;
                let a = w.start(0, Kind::Sub);
                w.settle_check();
                w.deliver_ack(a, 1, 0, 0);
                w.settle_check();
                w.take_stream(a);
                let sid = w.sub_id_of(a).unwrap_or(1);
                let op = w.start(1, kind);
                w.settle_check();
                w.sim.capture = Some(Vec::new());
                w.in_publish_sized(((si + ci) % 2) as u8, 77, false, &[sid], sz);
                if kind == Kind::Ping {
                    w.pingresp();
                } else {
                    w.deliver_ack(op, 1, 0, (ci % 2) as u8);
                }
                let bytes = w.sim.capture.take().unwrap_or_default();
                w.sim.reader.0.borrow_mut().default_cap = cap;
                w.sim.feed(&bytes);
                w.settle_check();
                w.sim.reader.0.borrow_mut().default_cap = usize::MAX;
                if kind == Kind::Pub2 && !w.blind {
                    w.deliver_ack(op, 2, 0, 0);
                    w.settle_check();
                }
                finish(&mut w);
                rep.add("evaluations", 1);
                rep.add("acks_behind_a_large_message", 1);
                rep.distinct(&("ack-behind", sz, cap, kind));
                if super::harvest(rep, &mut w, &id) == 0 {
                    rep.sample(|| format!("{id}: {} bytes, result {:?}", bytes.len(), w.sim.ops[op].out.as_ref().map(|o| o.brief())));
                }
                super::add_counters(rep, &w);
            }
        }
    }
}

pub fn run(rep: &mut Rep) {
    if rep.profile != "tsan" {
        ack_behind_a_large_message(rep);
        unwritten_requests(rep);
        refused_in_the_midst(rep);
    }
    if rep.profile == "tsan" {
        // the race detector has something to see only where several threads run: the single-task explorations are skipped
        rep.note("tsan: only the real-thread stress runs under ThreadSanitizer (the single-task explorations have no concurrency for it to observe)");
        let mut idx = 20_000_000u64;
        run_mt(rep, &mut idx);
        return;
    }
    let a = alpha(rep);
    let depth = if rep.quick() { 6 } else { 8 };
    rep.note(&format!(
        "exhaustive: every path of <= {depth} actions over {{start pub1/pub2/sub/unsub/ping (<= {} ops, alternating two handle clones), deliver the ack of any outstanding request (success short form / failure full form with reason string + user property), PINGRESP, hold/release a QoS 2 future between its phases, spurious poll}}; model compared at every quiescent point",
        a.max_ops
    ));
    // identifiers seeded so that high-byte/low-byte mix-ups in the correlation key show
    for (k, ids) in [(0u64, None), (1, Some((255u16, 127u32))), (2, Some((65534u16, 16383u32)))].iter() {
        let ids = *ids;
        let seed = rep.seed;
        let d = if *k == 0 { depth } else { depth - 1 };
        explore_world(rep, &format!("exh{k}"), d, &move || World::boot(WorldCfg { seed, seed_ids: ids, ..Default::default() }), &a);
    }
    // cancellation in the alphabet: an operation whose future was dropped after its request was written still owns the
    // acknowledgement addressed to it (for pings: the next PINGRESP in wire order) - the others must not complete on it
    let mut ca = a.clone();
    ca.kinds = vec![Kind::Ping, Kind::Pub1, Kind::Pub2, Kind::Sub];
    ca.drops = true;
    ca.holds = false;
    ca.spurious = false;
    rep.note("exhaustive with cancellation: the same alphabet over {ping, pub1, pub2, sub} plus 'drop the future of any pending operation'; acknowledgements of cancelled operations are still delivered and must not complete anyone else");
    {
        let seed = rep.seed;
        explore_world(rep, "exhc", depth, &move || World::boot(WorldCfg { seed, ..Default::default() }), &ca);
    }
    let mut idx = identifier_pairs(rep, &[Kind::Pub1, Kind::Pub2, Kind::Sub, Kind::Unsub]);
    // requests issued before run() is first polled wait in the queue and are served in order once it runs
    rep.note("early operations: 1-7 operations of every kind started after connect() returned and before run() is first polled (Receive Maximum absent / 1 / 2), then acknowledged in PRNG order: same results as if issued while running; a third of the cases cancel one of them before run() starts");
    let ekinds = [Kind::Pub1, Kind::Sub, Kind::Pub2, Kind::Ping, Kind::Unsub, Kind::Pub0, Kind::Pub1];
    for n in 1..=7usize {
        for rmax in [None, Some(1u16), Some(2)] {
            for variant in 0..3u64 {
                let id = format!("early:{n}:{:?}:{variant}", rmax);
                idx += 1;
                if !rep.take(idx, &id) {
                    continue;
                }
                let mut rng = crate::sim::Rng::new(rep.seed.wrapping_mul(523).wrapping_add(idx));
                let early: Vec<Kind> = (0..n).map(|j| ekinds[(j + variant as usize) % ekinds.len()]).collect();
                let mut w = World::boot_early(WorldCfg { seed: rep.seed.wrapping_add(variant), receive_max: rmax, via_auth: Some(variant == 1), ..Default::default() }, &early);
                w.settle_check();
                if variant == 2 && n >= 2 {
                    // (cancelling after run() has started is C15's business; here only the survivors' results matter)
                    let victim = rng.below(n);
                    if w.sim.ops[victim].task.alive() {
                        w.drop_op(victim);
                        w.settle_check();
                    }
                }
                let mut guard = 0;
                loop {
                    let mut ackable = w.ackable();
                    let pings = w.pings_outstanding().len();
                    if (ackable.is_empty() && pings == 0) || w.blind || guard > 40 {
                        break;
                    }
                    if pings > 0 && (ackable.is_empty() || rng.chance(1, 3)) {
                        w.pingresp();
                    } else {
                        let (i, st) = ackable.swap_remove(rng.below(ackable.len()));
                        w.deliver_ack(i, st, rng.below(9), (rng.next() % 2) as u8);
                    }
                    w.settle_check();
                    guard += 1;
                }
                super::script::finish(&mut w);
                rep.add("evaluations", 1);
                rep.add("early_operation_cases", 1);
                rep.distinct(&("early", n, rmax, variant));
                if super::harvest(rep, &mut w, &id) == 0 {
                    rep.sample(|| format!("{id}: {:?} queued before run(): results {:?}", early, w.sim.ops.iter().map(|o| o.out.as_ref().map(|x| x.brief())).collect::<Vec<_>>()));
                }
                super::add_counters(rep, &w);
            }
        }
    }
    // inbound traffic for subscriptions whose stream the application has dropped (the client prunes such a registration
    // when it next routes to it) arriving while operations are waiting for their acknowledgements: the waiting
    // operations are none of its business
    rep.note("pruning of dropped streams vs. waiting operations: 1-4 subscriptions of which one has a dropped stream, 1-5 operations of mixed kinds waiting for acknowledgements, a PUBLISH for the dropped stream (QoS 0/1/2) arrives: all stay pending and then complete with their own acknowledgements");
    for nsubs in 1..=4usize {
        for dropped in 0..nsubs {
            for nops in 1..=5usize {
                let id = format!("prune:{nsubs}:{dropped}:{nops}");
                idx += 1;
                if !rep.take(idx, &id) {
                    continue;
                }
                let mut rng = crate::sim::Rng::new(rep.seed.wrapping_mul(271).wrapping_add(idx));
                let mut w = World::boot(WorldCfg { seed: rep.seed, ..Default::default() });
                let mut subs = Vec::new();
                for j in 0..nsubs {
                    let i = w.start(j % 2, Kind::Sub);
                    w.settle_check();
                    w.deliver_ack(i, 1, 0, 0);
                    w.settle_check();
                    w.take_stream(i);
                    subs.push(i);
                }
                w.drop_stream(subs[dropped]);
                w.settle_check();
                let kinds = [Kind::Pub1, Kind::Unsub, Kind::Ping, Kind::Pub2, Kind::Sub];
                for j in 0..nops {
                    w.start(j % 2, kinds[(j + dropped) % kinds.len()]);
                    w.settle_check();
                }
                let sid = w.m[subs[dropped]].sub_id.unwrap_or(1);
                let q = ((nsubs + nops) % 3) as u8;
                w.in_publish(q, 77, false, &[sid], false);
                w.settle_check();
                w.in_publish(0, 0, false, &[sid], false);
                w.settle_check();
                let mut guard = 0;
                loop {
                    let mut ackable = w.ackable();
                    let pings = w.pings_outstanding().len();
                    if (ackable.is_empty() && pings == 0) || w.blind || guard > 40 {
                        break;
                    }
                    if pings > 0 && (ackable.is_empty() || rng.chance(1, 3)) {
                        w.pingresp();
                    } else {
                        let (i, st) = ackable.swap_remove(rng.below(ackable.len()));
                        w.deliver_ack(i, st, rng.below(9), 1);
                    }
                    w.settle_check();
                    guard += 1;
                }
                super::script::finish(&mut w);
                rep.add("evaluations", 1);
                rep.add("pruning_vs_waiting_operation_cases", 1);
                rep.distinct(&("prune", nsubs, dropped, nops));
                super::harvest(rep, &mut w, &id);
                super::add_counters(rep, &w);
            }
        }
    }
    // across the identifier wrap: operations of one kind issued while the 16-bit counter passes 65535 -> 1, all
    // outstanding together, acknowledged in reverse and in PRNG order with distinct contents
    rep.note("identifier wrap: 6 operations of one kind (pub1 / pub2 / sub / unsub, and mixed) started with the counter at 65531..65535 (hook H2) from two clones, all outstanding, acknowledged last-first / PRNG order, each with its own reason code and reason string");
    for (ki, kind) in [Some(Kind::Pub1), Some(Kind::Pub2), Some(Kind::Sub), Some(Kind::Unsub), None].iter().enumerate() {
        for start in 65531u16..=65535 {
            for order in 0..2u8 {
                let id = format!("wrap:{ki}:{start}:{order}");
                idx += 1;
                if !rep.take(idx, &id) {
                    continue;
                }
                let mut rng = crate::sim::Rng::new(rep.seed.wrapping_mul(389).wrapping_add(idx));
                let mut w = World::boot(WorldCfg { seed: rep.seed, seed_ids: Some((start, 50)), ..Default::default() });
                let mixed = [Kind::Pub1, Kind::Sub, Kind::Pub2, Kind::Unsub, Kind::Pub1, Kind::Sub];
                let mut ops = Vec::new();
                for j in 0..6usize {
                    ops.push(w.start(j % 2, kind.unwrap_or(mixed[j])));
                    w.settle_check();
                }
                let mut guard = 0;
                loop {
                    let mut ackable = w.ackable();
                    if ackable.is_empty() || w.blind || guard > 40 {
                        break;
                    }
                    let pick = if order == 0 { ackable.len() - 1 } else { rng.below(ackable.len()) };
                    let (i, st) = ackable.swap_remove(pick);
                    w.deliver_ack(i, st, guard % 9, 1);
                    w.settle_check();
                    guard += 1;
                }
                super::script::finish(&mut w);
                rep.add("evaluations", 1);
                rep.add("identifier_wrap_cases", 1);
                rep.distinct(&("wrap", ki, start, order));
                if super::harvest(rep, &mut w, &id) == 0 {
                    let ids: Vec<u16> = w.m.iter().filter_map(|m| m.pkt_id).collect();
                    rep.sample(|| format!("{id}: identifiers {:?}, every operation completed with its own acknowledgement", ids));
                }
                super::add_counters(rep, &w);
            }
        }
    }
    resumed_connection(rep, &mut idx);
    // wide: N operations of mixed kinds outstanding at once, acknowledged in PRNG order, every result checked
    let widths: Vec<usize> = if rep.quick() { vec![17, 33, 65, 129, 257] } else { vec![15, 16, 17, 31, 32, 33, 63, 64, 65, 127, 128, 129, 255, 256, 257, 511, 513, 1023, 1025, 3000] };
    rep.note(&format!("wide: {:?} operations of mixed kinds outstanding together (from two handle clones), acknowledged in PRNG order with alternating success / failure reasons", widths));
    for (wi, &n) in widths.iter().enumerate() {
        for rep_k in 0..2u64 {
            let id = format!("wide:{n}:{rep_k}");
            idx += 1;
            if !rep.take(idx, &id) {
                continue;
            }
            let mut rng = crate::sim::Rng::new(rep.seed.wrapping_mul(77).wrapping_add(wi as u64 * 2 + rep_k));
            let mut w = World::boot(WorldCfg { seed: rep.seed, seed_ids: if rep_k == 1 { Some((65535 - (n as u16 / 2), 16380)) } else { None }, ..Default::default() });
            w.sim.log_enabled = n < 300;
            let kinds = [Kind::Pub1, Kind::Pub2, Kind::Sub, Kind::Unsub, Kind::Ping, Kind::Pub1];
            for j in 0..n {
                w.start(j % 2, kinds[rng.below(kinds.len())]);
                if j % 16 == 15 {
                    w.settle_check();
                }
            }
            w.settle_check();
            let mut guard = 0;
            loop {
                let mut ackable = w.ackable();
                let pings = w.pings_outstanding().len();
                if ackable.is_empty() && pings == 0 {
                    break;
                }
                if pings > 0 && (ackable.is_empty() || rng.chance(1, 6)) {
                    w.pingresp();
                } else {
                    let (i, st) = ackable.swap_remove(rng.below(ackable.len()));
                    w.deliver_ack(i, st, rng.below(9), (rng.next() % 2) as u8);
                }
                w.settle_check();
                guard += 1;
                if w.blind || guard > 10 * n + 100 {
                    break;
                }
            }
            super::script::finish(&mut w);
            rep.add("evaluations", 1);
            rep.add("wide_cases", 1);
            rep.max("max_operations_outstanding_together", n as i64);
            rep.distinct(&("wide", n, rep_k));
            if super::harvest(rep, &mut w, &id) == 0 {
                rep.sample(|| format!("{id}: {n} operations outstanding together, all completed with their own acknowledgement"));
            }
            super::add_counters(rep, &w);
        }
    }
    idx = idx.max(20_000_000);
    run_mt(rep, &mut idx);
    let walks = if rep.quick() { 200 } else { 3000 };
    let mut wa = a.clone();
    wa.max_ops = 400;
    wa.max_conc = 6;
    wa.pub_ack_variants = vec![(0, 0), (1, 1), (2, 1), (5, 0), (8, 1)];
    let steps = if rep.quick() { 300 } else { 1000 };
    walk_world(rep, "walk", walks, steps, &|s| World::boot(WorldCfg { seed: s, seed_ids: Some(((s % 65000) as u16 + 1, (s % 70000) as u32 + 1)), order: (s % 4) as u8, ..Default::default() }), &wa);
    // the same Context across several connections: the walk goes on after run() ended and the context was connected again
    let mut wr = wa.clone();
    wr.terms = vec![TermAct::Eof, TermAct::ReadErr, TermAct::ServerDisconnect { reason: 0x8b, form: 2, props: false }, TermAct::UserDisconnect];
    wr.reconnect = true;
    wr.drops = true;
    wr.handle_churn = true;
    rep.note("walks across connections (handle clones created and dropped along the way): the same alphabet plus {EOF, read error, server DISCONNECT, user DISCONNECT} and, once run() has returned, 'connect the same Context again' (session resumed / resumed under Receive Maximum 2 / expired / no disconnection recorded); unfinished QoS 1/2 publishes complete on the acknowledgements of the new connection, everything else keeps its own result");
    // a Maximum Packet Size of 64 / 100 bytes: 300-byte publishes, subscribes and unsubscribes are refused locally in the midst
    // of operations waiting for their acknowledgements - which go on being served
    let mut wm = wa.clone();
    wm.kinds.push(Kind::PubBig);
    rep.note(&format!("{} walks under Maximum Packet Size 64 / 100 with every third subscribe / unsubscribe and the PubBig publishes larger than that", walks / 2));
    walk_world(rep, "walkmps", walks / 2, steps, &|s| World::boot(WorldCfg { seed: s, max_packet: Some(if s % 2 == 0 { 64 } else { 100 }), order: (s % 4) as u8, ..Default::default() }), &wm);
    walk_world(rep, "walkrc", walks, steps, &|s| World::boot(WorldCfg { seed: s, sei: if s % 3 == 0 { None } else { Some(3600) }, order: (s % 4) as u8, ..Default::default() }), &wr);
}

/// Two operations outstanding at once whose packet identifiers share the low byte, share the high byte, are byte-swapped,
/// differ in one bit or lie 1024 apart, acknowledged in both orders: each completes on the acknowledgement bearing its own
/// identifier and type. Returns the case index reached (C05 runs it over all kinds, C06 over the publishes).
pub fn identifier_pairs(rep: &mut Rep, kinds: &[Kind]) -> u64 {
    // identifier pairs: two operations outstanding at once whose packet identifiers share the low byte, share the
    // high byte, are byte-swapped or differ in one bit - a correlation key that loses or mixes identifier bits shows here
    let pairs: [(u16, u16); 15] = [(1, 1025), (5, 0x0405), (0x0301, 0x0701), (1, 257), (255, 511), (256, 512), (0x0101, 0x0201), (1, 0x8001), (0x00ff, 0xff00), (0x1234, 0x3412), (2, 0x0202), (65535, 255), (0x7fff, 0xffff), (3, 0x0300), (0x0100, 0x0001)];
    let mut idx = 10_000_000u64;
    rep.note("identifier-pair sweep: every pair of {pub1, pub2, sub, unsub} outstanding together with packet identifiers (via hook H2) sharing the low byte / high byte / byte-swapped / one bit apart, acknowledged in both orders");
    for &ka in kinds {
        for &kb in kinds {
            for (ida, idb) in pairs {
                for b_first in [false, true] {
                    let id = format!("idpair:{}:{}:{ida}:{idb}:{}", ka.name(), kb.name(), b_first as u8);
                    idx += 1;
                    if !rep.take(idx, &id) {
                        continue;
                    }
                    let mut w = World::boot(WorldCfg { seed: rep.seed, seed_ids: Some((ida, 7)), ..Default::default() });
                    let a = w.start(0, ka);
                    w.settle_check();
                    w.sim.handles[0].as_ref().unwrap().verif_seed_ids(idb, 900);
                    let b = w.start(1, kb);
                    w.settle_check();
                    let order = if b_first { [b, a] } else { [a, b] };
                    for stage in [1u8, 2] {
                        for &op in &order {
                            if w.ackable().contains(&(op, stage)) {
                                w.deliver_ack(op, stage, if op == a { 0 } else { 1 }, 1);
                                w.settle_check();
                            }
                        }
                    }
                    super::script::finish(&mut w);
                    rep.add("evaluations", 1);
                    rep.add("identifier_pairs", 1);
                    rep.distinct(&(ka, kb, ida, idb, b_first));
                    if super::harvest(rep, &mut w, &id) == 0 {
                        rep.sample(|| format!("{id}: both completed with their own acknowledgement"));
                    }
                    super::add_counters(rep, &w);
                }
            }
        }
    }
    idx
}
