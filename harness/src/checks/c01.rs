//! C01 — every packet written is well-formed MQTT 5 and carries the caller's options.

use super::script::*;
use super::{add_counters, harvest, walk_world};
use crate::refcodec::{self as rc, CPacket, PVal, Prop};
use crate::report::Rep;
use crate::sim::*;
use crate::spec::*;
use crate::world::*;

// ------------------------------------------------------------------ value pools

fn s_of(len: usize, flavour: u8) -> String {
    // flavour 0: ASCII; 1: 2-byte chars; 2: 3-byte; 3: 4-byte (padded with ASCII to reach the exact byte length)
    let unit: &str = match flavour {
        1 => "é",
        2 => "€",
        3 => "😀",
        _ => "a",
    };
    let mut s = String::with_capacity(len);
    while s.len() + unit.len() <= len {
        s.push_str(unit);
    }
    while s.len() < len {
        s.push('z');
    }
    s
}

fn b_of(len: usize, salt: u8) -> Vec<u8> {
    (0..len).map(|i| (i as u8).wrapping_mul(37).wrapping_add(salt)).collect()
}

const LENS_SMALL: &[usize] = &[0, 1, 2, 127, 128, 129];
const LENS_BIG: &[usize] = &[16383, 16384, 65535];

fn str_pool(big: bool) -> Vec<String> {
    let mut v = Vec::new();
    for &l in LENS_SMALL {
        for f in 0..4 {
            v.push(s_of(l, f));
        }
    }
    if big {
        for &l in LENS_BIG {
            v.push(s_of(l, 0));
            v.push(s_of(l, 2));
        }
    }
    // strings an encoder might be tempted to normalise: U+FEFF in front, inside, at the end; spaces at the ends; boundary code points
    for t in ["\u{feff}", "\u{feff}lead", "in\u{feff}side", "trail\u{feff}", " lead", "trail ", "\u{7f}\u{80}", "\u{7ff}\u{800}", "\u{e000}mid\u{10ffff}"] {
        v.push(t.to_string());
    }
    v.dedup();
    v
}

fn bin_pool(big: bool) -> Vec<Vec<u8>> {
    let mut v: Vec<Vec<u8>> = LENS_SMALL.iter().map(|&l| b_of(l, 1)).collect();
    v.push(vec![0, 0xff, 0x80, 0x7f]);
    if big {
        for &l in LENS_BIG {
            v.push(b_of(l, 3));
        }
    }
    v
}

// ------------------------------------------------------------------ expected packets

#[derive(Debug, Clone, PartialEq)]
pub enum Expect {
    Refused,
    Packet(CPacket),
}

/// canonical form: non-user properties sorted by id, user properties in wire order
fn canon(props: &[Prop]) -> (Vec<Prop>, Vec<(String, String)>) {
    let mut other: Vec<Prop> = props.iter().filter(|p| p.id != 38).cloned().collect();
    other.sort_by_key(|p| p.id);
    (other, rc::user_props(props))
}

fn up_props(up: &UP) -> Vec<Prop> {
    up.iter().map(|(k, v)| Prop::pair(k, v)).collect()
}

pub fn expect_publish(s: &PubSpec) -> Expect {
    let Some(topic) = &s.topic else { return Expect::Refused };
    let mut props = Vec::new();
    if let Some(v) = s.pfi {
        props.push(Prop::byte(1, v as u8));
    }
    if let Some(v) = s.topic_alias {
        props.push(Prop::u16(35, v));
    }
    if let Some(v) = s.mei {
        props.push(Prop::u32(2, v));
    }
    if let Some(v) = &s.correlation {
        props.push(Prop::bin(9, v));
    }
    if let Some(v) = &s.response_topic {
        props.push(Prop::str(8, v));
    }
    if let Some(v) = &s.content_type {
        props.push(Prop::str(3, v));
    }
    props.extend(up_props(&s.user_props));
    Expect::Packet(CPacket::Publish(rc::Publish {
        dup: false,
        qos: s.eff_qos(),
        retain: s.retain.unwrap_or(false),
        topic: topic.clone(),
        id: None, // library-assigned, compared separately
        props,
        payload: s.payload.clone().unwrap_or_default(),
    }))
}

pub fn expect_subscribe(s: &SubSpec) -> Expect {
    if s.filters.is_empty() {
        return Expect::Refused;
    }
    Expect::Packet(CPacket::Subscribe(rc::Subscribe {
        id: 0,
        props: up_props(&s.user_props),
        filters: s
            .filters
            .iter()
            .map(|(f, o)| rc::SubFilter {
                filter: f.clone(),
                max_qos: o.max_qos.unwrap_or(2),
                no_local: o.no_local.unwrap_or(false),
                retain_as_published: o.rap.unwrap_or(false),
                retain_handling: o.rh.unwrap_or(0),
            })
            .collect(),
    }))
}

pub fn expect_unsubscribe(s: &UnsubSpec) -> Expect {
    if s.filters.is_empty() {
        return Expect::Refused;
    }
    Expect::Packet(CPacket::Unsubscribe(rc::Unsubscribe { id: 0, props: up_props(&s.user_props), filters: s.filters.clone() }))
}

pub fn expect_disconnect(s: &DiscSpec) -> Expect {
    let mut props = Vec::new();
    if let Some(v) = s.sei {
        props.push(Prop::u32(17, v));
    }
    if let Some(v) = &s.reason_string {
        props.push(Prop::str(31, v));
    }
    props.extend(up_props(&s.user_props));
    Expect::Packet(CPacket::Disconnect(rc::DisconnectC { reason: s.reason.unwrap_or(0), props, remaining_len: 0 }))
}

pub fn expect_connect(s: &ConnSpec) -> Expect {
    if s.auth_data.is_some() && s.auth_method.is_none() {
        return Expect::Refused;
    }
    let mut props = Vec::new();
    if let Some(v) = s.sei {
        props.push(Prop::u32(17, v));
    }
    if let Some(v) = s.receive_maximum {
        props.push(Prop::u16(33, v));
    }
    if let Some(v) = s.max_packet_size {
        props.push(Prop::u32(39, v));
    }
    if let Some(v) = s.topic_alias_maximum {
        props.push(Prop::u16(34, v));
    }
    if let Some(v) = s.req_resp_info {
        props.push(Prop::byte(25, v as u8));
    }
    if let Some(v) = s.req_prob_info {
        props.push(Prop::byte(23, v as u8));
    }
    if let Some(v) = &s.auth_method {
        props.push(Prop::str(21, v));
    }
    if let Some(v) = &s.auth_data {
        props.push(Prop::bin(22, v));
    }
    props.extend(up_props(&s.user_props));
    let will = s.will.as_ref().map(|w| {
        let mut wp = Vec::new();
        if let Some(v) = w.delay {
            wp.push(Prop::u32(24, v));
        }
        if let Some(v) = w.pfi {
            wp.push(Prop::byte(1, v as u8));
        }
        if let Some(v) = w.mei {
            wp.push(Prop::u32(2, v));
        }
        if let Some(v) = &w.content_type {
            wp.push(Prop::str(3, v));
        }
        if let Some(v) = &w.response_topic {
            wp.push(Prop::str(8, v));
        }
        if let Some(v) = &w.correlation {
            wp.push(Prop::bin(9, v));
        }
        wp.extend(up_props(&w.user_props));
        rc::Will { qos: w.qos.unwrap_or(0), retain: w.retain.unwrap_or(false), props: wp, topic: w.topic.clone(), payload: w.payload.clone() }
    });
    Expect::Packet(CPacket::Connect(rc::Connect {
        clean_start: s.clean_start.unwrap_or(false),
        keep_alive: s.keep_alive.unwrap_or(0),
        props,
        client_id: s.client_id.clone().unwrap_or_default(),
        will,
        username: s.username.clone(),
        password: s.password.clone(),
    }))
}

pub fn expect_auth(s: &AuthSpec) -> Expect {
    let plain = s.reason.unwrap_or(0) == 0 && s.method.is_none() && s.data.is_none() && s.user_props.is_empty();
    if plain {
        return Expect::Packet(CPacket::Auth(rc::AuthC { reason: 0, props: vec![], remaining_len: 0 }));
    }
    if s.method.is_none() || s.data.is_none() {
        return Expect::Refused;
    }
    let mut props = vec![Prop::str(21, s.method.as_ref().unwrap()), Prop::bin(22, s.data.as_ref().unwrap())];
    props.extend(up_props(&s.user_props));
    Expect::Packet(CPacket::Auth(rc::AuthC { reason: s.reason.unwrap_or(0), props, remaining_len: 1 }))
}

/// Compares a decoded packet with the expectation; returns (field, description) of the first difference.
pub fn diff(expected: &CPacket, got: &CPacket) -> Option<(String, String)> {
    fn props_diff(what: &str, e: &[Prop], g: &[Prop], allow_extra: &[u8]) -> Option<(String, String)> {
        let g2: Vec<Prop> = g.iter().filter(|p| !allow_extra.contains(&p.id)).cloned().collect();
        let (eo, eu) = canon(e);
        let (go, gu) = canon(&g2);
        if eu != gu {
            return Some((format!("{what}user_property"), format!("user properties differ: expected {} pairs {:?}, got {} pairs {:?}", eu.len(), eu.iter().take(3).map(|(k, v)| (rc::trunc(k), rc::trunc(v))).collect::<Vec<_>>(), gu.len(), gu.iter().take(3).map(|(k, v)| (rc::trunc(k), rc::trunc(v))).collect::<Vec<_>>())));
        }
        for p in &eo {
            match go.iter().find(|x| x.id == p.id) {
                None => return Some((format!("{what}{}", rc::prop_name(p.id)), format!("property {} ({}) missing on the wire", rc::prop_name(p.id), p.id))),
                Some(x) if x != p => return Some((format!("{what}{}", rc::prop_name(p.id)), format!("property {} differs: expected {}, got {}", rc::prop_name(p.id), brief_val(&p.val), brief_val(&x.val)))),
                _ => {}
            }
        }
        for x in &go {
            if !eo.iter().any(|p| p.id == x.id) {
                return Some((format!("{what}{}", rc::prop_name(x.id)), format!("property {} ({}) on the wire was not requested", rc::prop_name(x.id), x.id)));
            }
        }
        None
    }
    match (expected, got) {
        (CPacket::Publish(e), CPacket::Publish(g)) => {
            if g.dup {
                return Some(("dup".into(), "DUP set".into()));
            }
            if e.qos != g.qos {
                return Some(("qos".into(), format!("QoS expected {}, got {}", e.qos, g.qos)));
            }
            if e.retain != g.retain {
                return Some(("retain".into(), format!("retain expected {}, got {}", e.retain, g.retain)));
            }
            if e.topic != g.topic {
                return Some(("topic".into(), format!("topic expected {:?}, got {:?}", rc::trunc(&e.topic), rc::trunc(&g.topic))));
            }
            if (g.qos > 0) != g.id.is_some() {
                return Some(("packet_identifier".into(), format!("packet identifier presence wrong for QoS {}", g.qos)));
            }
            if e.payload != g.payload {
                return Some(("payload".into(), format!("payload expected {} bytes, got {} bytes", e.payload.len(), g.payload.len())));
            }
            props_diff("", &e.props, &g.props, &[])
        }
        (CPacket::Subscribe(e), CPacket::Subscribe(g)) => {
            if e.filters.len() != g.filters.len() {
                return Some(("filters".into(), format!("expected {} topic filters, got {}", e.filters.len(), g.filters.len())));
            }
            for (k, (a, b)) in e.filters.iter().zip(g.filters.iter()).enumerate() {
                if a.filter != b.filter {
                    return Some(("filter".into(), format!("filter {k}: expected {:?}, got {:?}", rc::trunc(&a.filter), rc::trunc(&b.filter))));
                }
                if a != b {
                    return Some(("subscription_options".into(), format!("filter {k}: options expected qos={} nl={} rap={} rh={}, got qos={} nl={} rap={} rh={}", a.max_qos, a.no_local, a.retain_as_published, a.retain_handling, b.max_qos, b.no_local, b.retain_as_published, b.retain_handling)));
                }
            }
            if !g.props.iter().any(|p| p.id == 11) {
                return Some(("subscription_identifier".into(), "no subscription identifier assigned".into()));
            }
            props_diff("", &e.props, &g.props, &[11])
        }
        (CPacket::Unsubscribe(e), CPacket::Unsubscribe(g)) => {
            if e.filters != g.filters {
                return Some(("filters".into(), format!("filters expected {:?}, got {:?}", e.filters.iter().map(|f| rc::trunc(f)).collect::<Vec<_>>(), g.filters.iter().map(|f| rc::trunc(f)).collect::<Vec<_>>())));
            }
            props_diff("", &e.props, &g.props, &[])
        }
        (CPacket::Disconnect(e), CPacket::Disconnect(g)) => {
            if e.reason != g.reason {
                return Some(("reason".into(), format!("reason expected {:#x}, got {:#x}", e.reason, g.reason)));
            }
            props_diff("", &e.props, &g.props, &[])
        }
        (CPacket::Pingreq, CPacket::Pingreq) => None,
        (CPacket::Auth(e), CPacket::Auth(g)) => {
            if e.reason != g.reason {
                return Some(("reason".into(), format!("reason expected {:#x}, got {:#x}", e.reason, g.reason)));
            }
            props_diff("", &e.props, &g.props, &[])
        }
        (CPacket::Connect(e), CPacket::Connect(g)) => {
            if e.clean_start != g.clean_start {
                return Some(("clean_start".into(), format!("clean start expected {}, got {}", e.clean_start, g.clean_start)));
            }
            if e.keep_alive != g.keep_alive {
                return Some(("keep_alive".into(), format!("keep alive expected {}, got {}", e.keep_alive, g.keep_alive)));
            }
            if e.client_id != g.client_id {
                return Some(("client_identifier".into(), "client identifier differs".into()));
            }
            if e.username != g.username {
                return Some(("username".into(), "user name differs".into()));
            }
            if e.password != g.password {
                return Some(("password".into(), "password differs".into()));
            }
            match (&e.will, &g.will) {
                (None, None) => {}
                (Some(a), Some(b)) => {
                    if a.qos != b.qos {
                        return Some(("will_qos".into(), format!("will QoS expected {}, got {}", a.qos, b.qos)));
                    }
                    if a.retain != b.retain {
                        return Some(("will_retain".into(), "will retain differs".into()));
                    }
                    if a.topic != b.topic {
                        return Some(("will_topic".into(), "will topic differs".into()));
                    }
                    if a.payload != b.payload {
                        return Some(("will_payload".into(), "will payload differs".into()));
                    }
                    if let Some(d) = props_diff("will_", &a.props, &b.props, &[]) {
                        return Some(d);
                    }
                }
                _ => return Some(("will".into(), format!("will presence: expected {}, got {}", e.will.is_some(), g.will.is_some()))),
            }
            props_diff("", &e.props, &g.props, &[])
        }
        (e, g) => Some(("packet_type".into(), format!("expected {}, got {}", e.type_name(), g.type_name()))),
    }
}

fn brief_val(v: &PVal) -> String {
    match v {
        PVal::Str(s) => format!("str[{}]{:?}", s.len(), rc::trunc(s)),
        PVal::Bin(b) => format!("bin[{}]", b.len()),
        PVal::Pair(k, v) => format!("pair[{},{}]", k.len(), v.len()),
        x => format!("{x:?}"),
    }
}

// ------------------------------------------------------------------ request generators

pub fn publish_specs(rep: &Rep) -> Vec<PubSpec> {
    let big = true;
    let strs = str_pool(big);
    let bins = bin_pool(big);
    let base = PubSpec { topic: Some("t".into()), ..Default::default() };
    let mut v = vec![PubSpec::default(), base.clone()];
    // singles, each with every boundary value
    for q in 0..3u8 {
        v.push(PubSpec { qos: Some(q), ..base.clone() });
        v.push(PubSpec { qos: Some(q), topic: None, ..Default::default() });
    }
    for r in [false, true] {
        v.push(PubSpec { retain: Some(r), ..base.clone() });
        v.push(PubSpec { pfi: Some(r), ..base.clone() });
    }
    for s in &strs {
        if !s.is_empty() {
            v.push(PubSpec { topic: Some(s.clone()), ..Default::default() });
        }
        v.push(PubSpec { response_topic: Some(s.clone()), ..base.clone() });
        v.push(PubSpec { content_type: Some(s.clone()), ..base.clone() });
        v.push(PubSpec { user_props: vec![(s.clone(), "v".into())], ..base.clone() });
        v.push(PubSpec { user_props: vec![("k".into(), s.clone())], ..base.clone() });
    }
    for b in &bins {
        v.push(PubSpec { correlation: Some(b.clone()), ..base.clone() });
        v.push(PubSpec { payload: Some(b.clone()), ..base.clone() });
    }
    for a in [1u16, 2, 255, 256, 65534, 65535] {
        v.push(PubSpec { topic_alias: Some(a), ..base.clone() });
        v.push(PubSpec { topic_alias: Some(a), topic: Some(String::new()), ..Default::default() });
    }
    for m in [0u32, 1, 255, 65536, u32::MAX - 1, u32::MAX] {
        v.push(PubSpec { mei: Some(m), ..base.clone() });
    }
    for n in [2usize, 3, 10] {
        v.push(PubSpec { user_props: (0..n).map(|i| (format!("k{}", i % 2), format!("v{i}"))).collect(), ..base.clone() });
    }
    // pairs / all-but-one / all over the optional fields
    let setters: Vec<(&str, Box<dyn Fn(&mut PubSpec)>)> = vec![
        ("qos", Box::new(|s: &mut PubSpec| s.qos = Some(2))),
        ("retain", Box::new(|s: &mut PubSpec| s.retain = Some(true))),
        ("pfi", Box::new(|s: &mut PubSpec| s.pfi = Some(true))),
        ("alias", Box::new(|s: &mut PubSpec| s.topic_alias = Some(513))),
        ("mei", Box::new(|s: &mut PubSpec| s.mei = Some(0x01020304))),
        ("corr", Box::new(|s: &mut PubSpec| s.correlation = Some(vec![9, 8, 7]))),
        ("resp", Box::new(|s: &mut PubSpec| s.response_topic = Some("resp/t".into()))),
        ("ctype", Box::new(|s: &mut PubSpec| s.content_type = Some("text/plain".into()))),
        ("up", Box::new(|s: &mut PubSpec| s.user_props = vec![("a".into(), "1".into()), ("a".into(), "2".into())])),
        ("payload", Box::new(|s: &mut PubSpec| s.payload = Some(b"hello".to_vec()))),
    ];
    let n = setters.len();
    for i in 0..n {
        for j in i + 1..n {
            let mut s = base.clone();
            (setters[i].1)(&mut s);
            (setters[j].1)(&mut s);
            v.push(s);
        }
        let mut s = base.clone();
        for (k, st) in setters.iter().enumerate() {
            if k != i {
                (st.1)(&mut s);
            }
        }
        v.push(s);
    }
    let mut all = base.clone();
    for st in &setters {
        (st.1)(&mut all);
    }
    v.push(all.clone());
    // lengths steered across the variable-byte-integer steps
    //   property length: one user property = 1 + 2 + klen + 2 + vlen
    for target in [126usize, 127, 128, 129, 16382, 16383, 16384, 16385] {
        let vlen = target - 5 - 1;
        if vlen <= 65535 {
            v.push(PubSpec { user_props: vec![("k".into(), s_of(vlen, 0))], ..base.clone() });
        }
    }
    //   remaining length: topic "t" (3) + property length byte (1) + payload, QoS 0
    for target in [126usize, 127, 128, 129, 16382, 16383, 16384, 16385] {
        v.push(PubSpec { payload: Some(b_of(target - 4, 5)), ..base.clone() });
        v.push(PubSpec { qos: Some(1), payload: Some(b_of(target - 6, 5)), ..base.clone() });
    }
    if !rep.quick() {
        for target in [2_097_150usize, 2_097_151, 2_097_152, 2_097_153] {
            v.push(PubSpec { payload: Some(b_of(target - 4, 7)), ..base.clone() });
            // property length across the 3/4-byte step: 33 user properties of ~64 KiB
            let mut ups: UP = (0..31).map(|i| (format!("{i:02}"), s_of(65535, 0))).collect();
            let so_far: usize = ups.iter().map(|(k, v)| 5 + k.len() + v.len()).sum();
            let rest = target - so_far - 5 - 1;
            ups.push(("r".into(), s_of(rest.min(65535), 0)));
            if rest <= 65535 {
                v.push(PubSpec { user_props: ups, ..base.clone() });
            }
        }
    }
    // PRNG subsets with PRNG values
    let nrand = if rep.quick() { 1500 } else { 60000 };
    let mut rng = Rng::new(rep.seed ^ 0xC01);
    let small = str_pool(false);
    let smallb = bin_pool(false);
    for _ in 0..nrand {
        let mut s = PubSpec::default();
        if rng.chance(19, 20) {
            s.topic = Some(rng.pick(&small[4..]).clone());
        }
        if rng.chance(1, 2) {
            s.qos = Some(rng.below(3) as u8);
        }
        if rng.chance(1, 3) {
            s.retain = Some(rng.chance(1, 2));
        }
        if rng.chance(1, 3) {
            s.pfi = Some(rng.chance(1, 2));
        }
        if rng.chance(1, 3) {
            s.topic_alias = Some((rng.next() % 65535) as u16 + 1);
        }
        if rng.chance(1, 3) {
            s.mei = Some(rng.next() as u32);
        }
        if rng.chance(1, 3) {
            s.correlation = Some(rng.pick(&smallb).clone());
        }
        if rng.chance(1, 3) {
            s.response_topic = Some(rng.pick(&small).clone());
        }
        if rng.chance(1, 3) {
            s.content_type = Some(rng.pick(&small).clone());
        }
        for _ in 0..rng.below(4) {
            s.user_props.push((rng.pick(&small).clone(), rng.pick(&small).clone()));
        }
        if rng.chance(2, 3) {
            s.payload = Some(b_of(rng.below(300), rng.next() as u8));
        }
        if s.topic.as_deref() == Some("") && s.topic_alias.is_none() {
            s.topic_alias = Some(7);
        }
        v.push(s);
    }
    // domain guard: an empty topic name is only representable together with a topic alias
    v.retain(|s| !(s.topic.as_deref() == Some("") && s.topic_alias.is_none()));
    v
}

pub fn subscribe_specs(rep: &Rep) -> Vec<SubSpec> {
    let mut v = vec![SubSpec::default()];
    // every combination of the subscription options
    for q in [None, Some(0u8), Some(1), Some(2)] {
        for nl in [None, Some(false), Some(true)] {
            for rap in [None, Some(false), Some(true)] {
                for rh in [None, Some(0u8), Some(1), Some(2)] {
                    v.push(SubSpec { filters: vec![("a/b".into(), SubOptSpec { max_qos: q, no_local: nl, rap, rh })], user_props: vec![] });
                }
            }
        }
    }
    for s in str_pool(true) {
        if !s.is_empty() {
            v.push(SubSpec::simple(&s));
        }
        v.push(SubSpec { filters: vec![("f".into(), SubOptSpec::default())], user_props: vec![(s.clone(), s.clone())] });
    }
    for n in [2usize, 3, 8, 40] {
        v.push(SubSpec {
            filters: (0..n).map(|i| (format!("f/{i}/#"), SubOptSpec { max_qos: Some((i % 3) as u8), no_local: Some(i % 2 == 0), rap: Some(i % 3 == 0), rh: Some((i % 3) as u8) })).collect(),
            user_props: (0..n % 4).map(|i| ("k".to_string(), format!("{i}"))).collect(),
        });
    }
    v.push(SubSpec { filters: vec![], user_props: vec![("k".into(), "v".into())] });
    let nrand = if rep.quick() { 300 } else { 20000 };
    let mut rng = Rng::new(rep.seed ^ 0xC01_5);
    let small = str_pool(false);
    for _ in 0..nrand {
        let mut s = SubSpec::default();
        for _ in 0..rng.below(5) {
            let f = rng.pick(&small[4..]).clone();
            s.filters.push((
                f,
                SubOptSpec {
                    max_qos: if rng.chance(1, 2) { Some(rng.below(3) as u8) } else { None },
                    no_local: if rng.chance(1, 2) { Some(rng.chance(1, 2)) } else { None },
                    rap: if rng.chance(1, 2) { Some(rng.chance(1, 2)) } else { None },
                    rh: if rng.chance(1, 2) { Some(rng.below(3) as u8) } else { None },
                },
            ));
        }
        for _ in 0..rng.below(3) {
            s.user_props.push((rng.pick(&small).clone(), rng.pick(&small).clone()));
        }
        v.push(s);
    }
    v
}

pub fn unsubscribe_specs(rep: &Rep) -> Vec<UnsubSpec> {
    let mut v = vec![UnsubSpec::default(), UnsubSpec { filters: vec![], user_props: vec![("k".into(), "v".into())] }];
    for s in str_pool(true) {
        if !s.is_empty() {
            v.push(UnsubSpec::simple(&s));
        }
        v.push(UnsubSpec { filters: vec!["f".into()], user_props: vec![(s.clone(), "x".into()), ("y".into(), s.clone())] });
    }
    for n in [2usize, 5, 60] {
        v.push(UnsubSpec { filters: (0..n).map(|i| format!("u/{i}")).collect(), user_props: vec![] });
    }
    let nrand = if rep.quick() { 200 } else { 10000 };
    let mut rng = Rng::new(rep.seed ^ 0xC01_6);
    let small = str_pool(false);
    for _ in 0..nrand {
        let mut s = UnsubSpec::default();
        for _ in 0..rng.below(4) {
            s.filters.push(rng.pick(&small[4..]).clone());
        }
        for _ in 0..rng.below(3) {
            s.user_props.push((rng.pick(&small).clone(), rng.pick(&small).clone()));
        }
        v.push(s);
    }
    v
}

pub fn disconnect_specs(rep: &Rep) -> Vec<DiscSpec> {
    let mut v = vec![DiscSpec::default()];
    for &r in rc::DISCONNECT_REASONS_ALL {
        v.push(DiscSpec { reason: Some(r), ..Default::default() });
        v.push(DiscSpec { reason: Some(r), sei: Some(60), reason_string: Some("bye".into()), user_props: vec![("a".into(), "b".into())] });
    }
    for s in [0u32, 1, 255, 65536, u32::MAX - 1, u32::MAX] {
        v.push(DiscSpec { sei: Some(s), ..Default::default() });
        v.push(DiscSpec { sei: Some(s), reason: Some(0x04), ..Default::default() });
    }
    for s in str_pool(true) {
        v.push(DiscSpec { reason_string: Some(s.clone()), ..Default::default() });
        v.push(DiscSpec { user_props: vec![(s.clone(), s.clone())], ..Default::default() });
    }
    v.push(DiscSpec { user_props: (0..5).map(|i| ("k".to_string(), format!("{i}"))).collect(), ..Default::default() });
    let _ = rep;
    v
}

pub fn connect_specs(rep: &Rep) -> Vec<ConnSpec> {
    let strs = str_pool(true);
    let bins = bin_pool(true);
    let mut v = vec![ConnSpec::default()];
    for s in &strs {
        v.push(ConnSpec { client_id: Some(s.clone()), ..Default::default() });
        v.push(ConnSpec { username: Some(s.clone()), ..Default::default() });
        v.push(ConnSpec { auth_method: Some(s.clone()), ..Default::default() });
        v.push(ConnSpec { user_props: vec![(s.clone(), "v".into()), ("k".into(), s.clone())], ..Default::default() });
        if !s.is_empty() {
            v.push(ConnSpec { will: Some(WillSpec { topic: s.clone(), payload: vec![1], ..Default::default() }), ..Default::default() });
        }
        v.push(ConnSpec { will: Some(WillSpec { topic: "w".into(), payload: vec![], content_type: Some(s.clone()), response_topic: Some(s.clone()), user_props: vec![(s.clone(), s.clone())], ..Default::default() }), ..Default::default() });
    }
    for b in &bins {
        v.push(ConnSpec { password: Some(b.clone()), ..Default::default() });
        v.push(ConnSpec { password: Some(b.clone()), username: Some("u".into()), ..Default::default() });
        v.push(ConnSpec { auth_method: Some("m".into()), auth_data: Some(b.clone()), ..Default::default() });
        v.push(ConnSpec { auth_data: Some(b.clone()), ..Default::default() });
        v.push(ConnSpec { will: Some(WillSpec { topic: "w".into(), payload: b.clone(), correlation: Some(b.clone()), ..Default::default() }), ..Default::default() });
    }
    for k in [0u16, 1, 255, 256, 65534, 65535] {
        v.push(ConnSpec { keep_alive: Some(k), ..Default::default() });
        v.push(ConnSpec { topic_alias_maximum: Some(k), ..Default::default() });
        if k > 0 {
            v.push(ConnSpec { receive_maximum: Some(k), ..Default::default() });
        }
    }
    for k in [0u32, 1, 255, 65536, u32::MAX - 1, u32::MAX] {
        v.push(ConnSpec { sei: Some(k), ..Default::default() });
        if k > 0 {
            v.push(ConnSpec { max_packet_size: Some(k), ..Default::default() });
        }
        v.push(ConnSpec { will: Some(WillSpec { topic: "w".into(), payload: vec![2], delay: Some(k), mei: Some(k), ..Default::default() }), ..Default::default() });
    }
    for b in [false, true] {
        v.push(ConnSpec { clean_start: Some(b), ..Default::default() });
        v.push(ConnSpec { req_resp_info: Some(b), ..Default::default() });
        v.push(ConnSpec { req_prob_info: Some(b), ..Default::default() });
        for q in 0..3u8 {
            v.push(ConnSpec { will: Some(WillSpec { topic: "w".into(), payload: vec![3], qos: Some(q), retain: Some(b), pfi: Some(b), ..Default::default() }), ..Default::default() });
        }
    }
    // pairs / all-but-one / all
    let setters: Vec<Box<dyn Fn(&mut ConnSpec)>> = vec![
        Box::new(|s| s.client_id = Some("cid".into())),
        Box::new(|s| s.keep_alive = Some(300)),
        Box::new(|s| s.sei = Some(3600)),
        Box::new(|s| s.receive_maximum = Some(10)),
        Box::new(|s| s.max_packet_size = Some(1 << 20)),
        Box::new(|s| s.topic_alias_maximum = Some(16)),
        Box::new(|s| s.req_resp_info = Some(true)),
        Box::new(|s| s.req_prob_info = Some(false)),
        Box::new(|s| {
            s.auth_method = Some("SCRAM".into());
            s.auth_data = Some(vec![1, 2, 3])
        }),
        Box::new(|s| s.user_props = vec![("a".into(), "1".into()), ("a".into(), "2".into())]),
        Box::new(|s| s.clean_start = Some(true)),
        Box::new(|s| {
            s.will = Some(WillSpec {
                topic: "will/t".into(),
                payload: b"gone".to_vec(),
                qos: Some(1),
                retain: Some(true),
                delay: Some(5),
                pfi: Some(true),
                mei: Some(7),
                content_type: Some("ct".into()),
                response_topic: Some("rt".into()),
                correlation: Some(vec![4, 5]),
                user_props: vec![("w".into(), "1".into()), ("w".into(), "2".into())],
            })
        }),
        Box::new(|s| s.username = Some("user".into())),
        Box::new(|s| s.password = Some(b"pw".to_vec())),
    ];
    let n = setters.len();
    for i in 0..n {
        for j in i + 1..n {
            let mut s = ConnSpec::default();
            (setters[i])(&mut s);
            (setters[j])(&mut s);
            v.push(s);
        }
        let mut s = ConnSpec::default();
        for (k, st) in setters.iter().enumerate() {
            if k != i {
                st(&mut s);
            }
        }
        v.push(s);
    }
    let mut all = ConnSpec::default();
    for st in &setters {
        st(&mut all);
    }
    v.push(all);
    // property length / remaining length across the variable-byte-integer steps
    for target in [126usize, 127, 128, 129, 16382, 16383, 16384, 16385] {
        v.push(ConnSpec { user_props: vec![("k".into(), s_of(target - 6, 0))], ..Default::default() });
        // will property length
        v.push(ConnSpec { will: Some(WillSpec { topic: "w".into(), payload: vec![], user_props: vec![("k".into(), s_of(target - 6, 0))], ..Default::default() }), ..Default::default() });
        // remaining length: 10 (variable header) + 1 (property length) + 2 + client id
        v.push(ConnSpec { client_id: Some(s_of(target - 13, 0)), ..Default::default() });
    }
    let nrand = if rep.quick() { 600 } else { 30000 };
    let mut rng = Rng::new(rep.seed ^ 0xC01_1);
    let small = str_pool(false);
    let smallb = bin_pool(false);
    for _ in 0..nrand {
        let mut s = ConnSpec::default();
        for st in &setters {
            if rng.chance(1, 3) {
                st(&mut s);
            }
        }
        if rng.chance(1, 2) {
            s.client_id = Some(rng.pick(&small).clone());
        }
        if rng.chance(1, 4) {
            s.username = Some(rng.pick(&small).clone());
        }
        if rng.chance(1, 4) {
            s.password = Some(rng.pick(&smallb).clone());
        }
        if rng.chance(1, 8) {
            s.auth_method = None; // possibly leaving authentication data alone: must be refused
        }
        for _ in 0..rng.below(3) {
            s.user_props.push((rng.pick(&small).clone(), rng.pick(&small).clone()));
        }
        v.push(s);
    }
    v
}

pub fn auth_specs(rep: &Rep) -> Vec<AuthSpec> {
    let mut v = vec![AuthSpec::default()];
    for r in [None, Some(0u8), Some(0x18), Some(0x19)] {
        for m in [None, Some("m".to_string())] {
            for d in [None, Some(vec![1u8, 2])] {
                for up in [vec![], vec![("a".to_string(), "b".to_string())]] {
                    v.push(AuthSpec { reason: r, method: m.clone(), data: d.clone(), user_props: up });
                }
            }
        }
    }
    for s in str_pool(true) {
        v.push(AuthSpec { reason: Some(0x18), method: Some(s.clone()), data: Some(vec![]), user_props: vec![] });
        v.push(AuthSpec { reason: Some(0x18), method: Some("m".into()), data: Some(vec![7]), user_props: vec![(s.clone(), s.clone())] });
    }
    for b in bin_pool(true) {
        v.push(AuthSpec { reason: Some(0x19), method: Some("m".into()), data: Some(b), user_props: vec![] });
    }
    for target in [126usize, 127, 128, 129, 16382, 16383, 16384, 16385] {
        // property length = (3 + 1) + (3 + dlen); remaining length = 1 + len(property length) + property length
        v.push(AuthSpec { reason: Some(0x18), method: Some("m".into()), data: Some(b_of(target - 7, 1)), user_props: vec![] });
    }
    let _ = rep;
    v
}

// ------------------------------------------------------------------ runners

struct Session {
    sim: Sim,
    used: usize,
    qos_inflight: usize,
}

fn new_session(seed: u64) -> Session {
    let mut sim = Sim::new(seed);
    sim.log_enabled = false;
    sim.cmd(Cmd::Connect(ConnSpec::default()));
    sim.settle();
    sim.feed_packet(&rc::SPacket::Connack { session_present: false, reason: 0, props: vec![] });
    sim.settle();
    sim.cmd(Cmd::Run);
    sim.settle();
    sim.parse_wire();
    Session { sim, used: 0, qos_inflight: 0 }
}

fn report(rep: &mut Rep, sig: String, case: &str, detail: String) {
    rep.violation(&sig, case, &detail);
}

/// Runs one handle request on a running session and checks what was written for it.
fn run_request(rep: &mut Rep, ses: &mut Session, pkt_name: &str, case: &str, spec: OpSpec, expect: Expect) {
    let before = ses.sim.wire.len();
    let wlen = ses.sim.written_len();
    let op = ses.sim.start_op(0, spec.clone());
    ses.sim.settle();
    ses.sim.parse_wire();
    ses.used += 1;
    for p in ses.sim.panics.clone() {
        report(rep, format!("C01/panic/{p}"), case, format!("panic while handling {}: {p}", brief_spec(&spec)));
    }
    ses.sim.panics.clear();
    let new: Vec<WirePkt> = ses.sim.wire[before..].to_vec();
    let out = ses.sim.ops[op].out.clone();
    rep.add("requests", 1);
    match expect {
        Expect::Refused => {
            rep.add("requests_expected_refused", 1);
            if ses.sim.written_len() != wlen {
                report(rep, format!("C01/refused-request-wrote-bytes/pkt={pkt_name}"), case, format!("{} lacks a mandatory part but {} bytes were written", brief_spec(&spec), ses.sim.written_len() - wlen));
            }
            match &out {
                Some(o) if o.err().is_some() => {}
                other => report(rep, format!("C01/incomplete-request-not-refused/pkt={pkt_name}"), case, format!("{} lacks a mandatory part but the call returned {:?}", brief_spec(&spec), other.as_ref().map(|o| o.brief()))),
            }
        }
        Expect::Packet(e) => {
            if let Some(msg) = ses.sim.wire_split_error.clone() {
                report(rep, format!("C01/wire-unsplittable/pkt={pkt_name}"), case, format!("{}: {msg}", brief_spec(&spec)));
                ses.used = usize::MAX / 2;
                return;
            }
            if new.len() != 1 || ses.sim.wire_tail() != 0 {
                let tail = ses.sim.wire_tail();
                let refused = out.as_ref().map(|o| !o.is_ok()).unwrap_or(false);
                report(
                    rep,
                    format!("C01/{}/pkt={pkt_name}", if new.is_empty() && tail == 0 { if refused { "complete-request-refused" } else { "nothing-written" } } else { "not-exactly-one-packet" }),
                    case,
                    format!("{}: {} whole packets and {} trailing bytes written; call returned {:?}", brief_spec(&spec), new.len(), tail, out.as_ref().map(|o| o.brief())),
                );
                if tail != 0 {
                    ses.used = usize::MAX / 2;
                }
                return;
            }
            match &new[0].pkt {
                Err(err) => {
                    let field = classify_len_error(err);
                    report(rep, format!("C01/malformed-packet/pkt={pkt_name}/{field}"), case, format!("{}: reference decoder rejects the packet: {err}\nfirst bytes: {:02x?}", brief_spec(&spec), &new[0].bytes[..new[0].bytes.len().min(48)]));
                }
                Ok(g) => {
                    if let Some((field, d)) = diff(&e, g) {
                        report(rep, format!("C01/value-mismatch/pkt={pkt_name}/field={field}"), case, format!("{}: {d}", brief_spec(&spec)));
                    } else {
                        rep.add("packets_decoded_and_matched", 1);
                        rep.add("bytes_decoded", new[0].bytes.len() as i64);
                        rep.sample(|| format!("{case}: {} -> {} ({} bytes)", brief_spec(&spec), g.brief(), new[0].bytes.len()));
                    }
                    if let CPacket::Publish(p) = g {
                        if p.qos > 0 {
                            ses.qos_inflight += 1;
                        }
                    }
                }
            }
        }
    }
}

fn classify_len_error(err: &str) -> &'static str {
    if err.contains("property length") || err.contains("properties overrun") {
        "field=property_length"
    } else if err.contains("remaining length") || err.contains("trailing bytes") || err.contains("truncated") {
        "field=remaining_length"
    } else if err.contains("reserved option bits") || err.contains("retain handling") || err.contains("maximum QoS") {
        "field=subscription_options"
    } else {
        "field=other"
    }
}

fn run_connect(rep: &mut Rep, case: &str, spec: &ConnSpec) {
    let mut sim = Sim::new(rep.seed);
    sim.log_enabled = false;
    sim.cmd(Cmd::Connect(spec.clone()));
    sim.settle();
    sim.parse_wire();
    rep.add("requests", 1);
    for p in sim.panics.clone() {
        report(rep, format!("C01/panic/{p}"), case, format!("panic in connect(): {p}"));
    }
    check_single(rep, case, "CONNECT", &sim, expect_connect(spec), sim.last_ctx_result("connect"), &format!("connect({})", brief_conn(spec)));
}

fn brief_conn(s: &ConnSpec) -> String {
    format!(
        "cid={:?} ka={:?} sei={:?} rm={:?} mps={:?} tam={:?} rri={:?} rpi={:?} am={:?} ad={:?} up={} cs={:?} will={} user={:?} pw={:?}",
        s.client_id.as_deref().map(rc::trunc),
        s.keep_alive,
        s.sei,
        s.receive_maximum,
        s.max_packet_size,
        s.topic_alias_maximum,
        s.req_resp_info,
        s.req_prob_info,
        s.auth_method.as_deref().map(rc::trunc),
        s.auth_data.as_ref().map(|d| d.len()),
        s.user_props.len(),
        s.clean_start,
        s.will.is_some(),
        s.username.as_deref().map(rc::trunc),
        s.password.as_ref().map(|d| d.len())
    )
}

fn check_single(rep: &mut Rep, case: &str, pkt_name: &str, sim: &Sim, expect: Expect, result: Option<CtxOut>, what: &str) {
    let skip = if pkt_name == "AUTH" { 1 } else { 0 };
    let new: Vec<WirePkt> = sim.wire.iter().skip(skip).cloned().collect();
    match expect {
        Expect::Refused => {
            rep.add("requests_expected_refused", 1);
            if !new.is_empty() {
                report(rep, format!("C01/refused-request-wrote-bytes/pkt={pkt_name}"), case, format!("{what}: mandatory part missing but a packet was written"));
            }
            match result {
                Some(CtxOut::Conn(ConnOut::Err(_))) => {}
                other => report(rep, format!("C01/incomplete-request-not-refused/pkt={pkt_name}"), case, format!("{what}: expected an error before anything is written, got {:?}", other)),
            }
        }
        Expect::Packet(e) => {
            if let Some(msg) = &sim.wire_split_error {
                report(rep, format!("C01/wire-unsplittable/pkt={pkt_name}"), case, format!("{what}: {msg}"));
                return;
            }
            let w = sim.writer.0.borrow();
            let parsed: usize = sim.wire.iter().map(|p| p.bytes.len()).sum();
            let tail = w.written.len() - parsed;
            if new.len() != 1 || tail != 0 {
                report(rep, format!("C01/not-exactly-one-packet/pkt={pkt_name}"), case, format!("{what}: {} whole packets and {tail} trailing bytes written; result {:?}", new.len(), result));
                return;
            }
            match &new[0].pkt {
                Err(err) => {
                    let field = classify_len_error(err);
                    report(rep, format!("C01/malformed-packet/pkt={pkt_name}/{field}"), case, format!("{what}: reference decoder rejects the packet: {err}\nfirst bytes: {:02x?}", &new[0].bytes[..new[0].bytes.len().min(48)]));
                }
                Ok(g) => {
                    if let Some((field, d)) = diff(&e, g) {
                        report(rep, format!("C01/value-mismatch/pkt={pkt_name}/field={field}"), case, format!("{what}: {d}"));
                    } else {
                        rep.add("packets_decoded_and_matched", 1);
                        rep.add("bytes_decoded", new[0].bytes.len() as i64);
                        rep.sample(|| format!("{case}: {what} -> {} ({} bytes)", g.brief(), new[0].bytes.len()));
                    }
                }
            }
        }
    }
}

fn run_auth(rep: &mut Rep, case: &str, spec: &AuthSpec) {
    let mut sim = Sim::new(rep.seed);
    sim.log_enabled = false;
    sim.cmd(Cmd::Connect(ConnSpec { auth_method: Some("m".into()), auth_data: Some(vec![0]), ..Default::default() }));
    sim.settle();
    sim.feed_packet(&rc::SPacket::Auth { reason: Some(0x18), props: vec![Prop::str(21, "m"), Prop::bin(22, b"c")] });
    sim.settle();
    sim.cmd(Cmd::Authorize(spec.clone()));
    sim.settle();
    sim.parse_wire();
    rep.add("requests", 1);
    for p in sim.panics.clone() {
        report(rep, format!("C01/panic/{p}"), case, format!("panic in authorize(): {p}"));
    }
    let what = format!("authorize(reason={:?} method={:?} data={:?} up={})", spec.reason, spec.method.as_deref().map(rc::trunc), spec.data.as_ref().map(|d| d.len()), spec.user_props.len());
    check_single(rep, case, "AUTH", &sim, expect_auth(spec), sim.last_ctx_result("authorize"), &what);
}

pub fn run(rep: &mut Rep) {
    let mut idx = 0u64;
    // CONNECT
    let cs = connect_specs(rep);
    rep.note(&format!("request sweeps: {} CONNECT option sets", cs.len()));
    for (k, s) in cs.iter().enumerate() {
        let id = format!("connect:{k}");
        idx += 1;
        if rep.take(idx, &id) {
            run_connect(rep, &id, s);
            rep.add("evaluations", 1);
            rep.distinct(&("c", k, format!("{:?}", expect_connect(s) == Expect::Refused)));
        }
    }
    // AUTH
    let aus = auth_specs(rep);
    rep.note(&format!("{} AUTH option sets", aus.len()));
    for (k, s) in aus.iter().enumerate() {
        let id = format!("auth:{k}");
        idx += 1;
        if rep.take(idx, &id) {
            run_auth(rep, &id, s);
            rep.add("evaluations", 1);
            rep.distinct(&("a", k));
        }
    }
    // handle requests on running sessions
    let mut ses = new_session(rep.seed);
    let mut refresh = |ses: &mut Session, seed: u64| {
        if ses.used > 150 || ses.qos_inflight > 20000 || ses.sim.run_result().is_some() {
            *ses = new_session(seed);
        }
    };
    let pubs = publish_specs(rep);
    rep.note(&format!("{} PUBLISH option sets", pubs.len()));
    for (k, s) in pubs.iter().enumerate() {
        let id = format!("publish:{k}");
        idx += 1;
        if rep.take(idx, &id) {
            refresh(&mut ses, rep.seed);
            // identifier positions: packet identifiers around the byte / sign / wrap boundaries
            if k % 7 == 0 {
                let ids = [255u16, 256, 0x7fff, 0x8000, 65534, 65535];
                ses.sim.handles[0].as_ref().unwrap().verif_seed_ids(ids[(k / 7) % ids.len()], 1 + (k as u32 * 131) % 268_435_000);
            }
            run_request(rep, &mut ses, "PUBLISH", &id, OpSpec::Publish(s.clone()), expect_publish(s));
            rep.add("evaluations", 1);
            rep.distinct(&("p", k));
        }
    }
    let subs = subscribe_specs(rep);
    rep.note(&format!("{} SUBSCRIBE option sets", subs.len()));
    for (k, s) in subs.iter().enumerate() {
        let id = format!("subscribe:{k}");
        idx += 1;
        if rep.take(idx, &id) {
            refresh(&mut ses, rep.seed);
            let sub_ids = [1u32, 127, 128, 16383, 16384, 2_097_151, 2_097_152, 268_435_455];
            ses.sim.handles[0].as_ref().unwrap().verif_seed_ids(1 + (k as u16 % 65000), sub_ids[k % sub_ids.len()]);
            run_request(rep, &mut ses, "SUBSCRIBE", &id, OpSpec::Subscribe(s.clone()), expect_subscribe(s));
            rep.add("evaluations", 1);
            rep.distinct(&("s", k));
        }
    }
    let unsubs = unsubscribe_specs(rep);
    rep.note(&format!("{} UNSUBSCRIBE option sets", unsubs.len()));
    for (k, s) in unsubs.iter().enumerate() {
        let id = format!("unsubscribe:{k}");
        idx += 1;
        if rep.take(idx, &id) {
            refresh(&mut ses, rep.seed);
            run_request(rep, &mut ses, "UNSUBSCRIBE", &id, OpSpec::Unsubscribe(s.clone()), expect_unsubscribe(s));
            rep.add("evaluations", 1);
            rep.distinct(&("u", k));
        }
    }
    idx += 1;
    if rep.take(idx, "ping:0") {
        refresh(&mut ses, rep.seed);
        run_request(rep, &mut ses, "PINGREQ", "ping:0", OpSpec::Ping, Expect::Packet(CPacket::Pingreq));
        rep.add("evaluations", 1);
        rep.distinct(&("g", 0));
    }
    let discs = disconnect_specs(rep);
    rep.note(&format!("{} DISCONNECT option sets", discs.len()));
    for (k, s) in discs.iter().enumerate() {
        let id = format!("disconnect:{k}");
        idx += 1;
        if rep.take(idx, &id) {
            let mut one = new_session(rep.seed);
            run_request(rep, &mut one, "DISCONNECT", &id, OpSpec::Disconnect(s.clone()), expect_disconnect(s));
            rep.add("evaluations", 1);
            rep.distinct(&("d", k));
        }
    }
    // thorough: one packet at the maximum remaining length 268 435 455
    if !rep.quick() {
        idx += 1;
        if rep.take(idx, "publish:max") {
            let mut one = new_session(rep.seed);
            let s = PubSpec { topic: Some("t".into()), payload: Some(vec![0x5a; 268_435_455 - 4]), ..Default::default() };
            run_request(rep, &mut one, "PUBLISH", "publish:max", OpSpec::Publish(s.clone()), expect_publish(&s));
            rep.add("evaluations", 1);
            rep.add("maximum_size_packets", 1);
        }
    }
    // ---- fragmentation: however the transport accepts the bytes, the wire stays a concatenation of whole
    // packets in submission order (World rules C01/partial-packet, C01/requests-out-of-submission-order, C01/malformed)
    let a = Alpha {
        kinds: vec![Kind::Pub0, Kind::Pub1, Kind::Pub2, Kind::Sub, Kind::Unsub, Kind::Ping],
        max_ops: 60,
        max_conc: 8,
        inbound: vec![(1, 1, false, SubSel::Absent), (2, 2, false, SubSel::Absent), (0, 0, false, SubSel::Op(0))],
        pubrels: vec![2],
        max_inbound: 40,
        writer_stall: true,
        race: true,
        ..Default::default()
    };
    let plans = [WritePlan::Max(1), WritePlan::Max(3), WritePlan::MaxPendingAlt(2), WritePlan::MaxPendingAlt(64), WritePlan::All];
    let walks = if rep.quick() { 250 } else { 5000 };
    rep.note(&format!("fragmentation: {walks} PRNG scripts of 80 mixed requests + inbound traffic under writer plans {{1 byte per call, 3 bytes, Pending every other call (2 / 64 bytes), accept all}} with writer stalls across several requests and the context held while requests queue"));
    walk_world(rep, "frag", walks, 80, &|s| {
        let w = World::boot(WorldCfg { seed: s, order: (s % 4) as u8, ..Default::default() });
        w.sim.writer.0.borrow_mut().plan = plans[(s % plans.len() as u64) as usize].clone();
        w
    }, &a);
    // ---- packets re-sent on a resumed session must be well-formed as well
    let nres = if rep.quick() { 120 } else { 6000 };
    rep.note(&format!("resumption: {nres} PRNG histories of QoS 1/2 publishes and acknowledgements, connection cut, session resumed (hook H1): every re-sent packet must pass the strict decoder"));
    let ra = Alpha { kinds: vec![Kind::Pub1, Kind::Pub2], max_ops: 6, max_conc: 6, pub_ack_variants: vec![(0, 0), (2, 1)], ..Default::default() };
    for k in 0..nres {
        let id = format!("resume:{k}");
        if !rep.take(90_000_000 + k, &id) {
            continue;
        }
        let seed = rep.seed.wrapping_mul(7001).wrapping_add(k);
        let mut rng = Rng::new(seed);
        let mut w = World::boot(WorldCfg { seed, sei: Some(3600), ..Default::default() });
        let mut steps = 0;
        while steps < 3 + (k % 8) as usize {
            let en = enabled(&w, &ra);
            if en.is_empty() {
                break;
            }
            apply(&mut w, en[rng.below(en.len())]);
            w.settle_check();
            steps += 1;
        }
        w.eof();
        w.settle_check();
        let (p, r) = w.unfinished();
        w.resume(1, Some(3600), false);
        for v in w.viols.iter_mut() {
            if v.sig.starts_with("C17/resent-packet-malformed") || v.sig.starts_with("C17/resent-bytes-unsplittable") {
                v.sig = v.sig.replace("C17/", "C01/");
                v.props = &["C01"];
            }
        }
        rep.add("evaluations", 1);
        rep.add("resumed_sessions", 1);
        rep.add("retransmitted_packets_decoded", (p.len() + r.len()) as i64);
        rep.distinct(&("resume", w.shape()));
        harvest(rep, &mut w, &id);
        add_counters(rep, &w);
    }
    resumption_with_options(rep);
    requests_at_full_window(rep);
    torn_packets(rep);
    limits_of_an_earlier_connection(rep);
}

/// What an earlier connection of the same Context announced (a small Maximum Packet Size, Receive Maximum 1) is history once
/// a later connection is established - by connect() or at the end of an extended authentication exchange by authorize() -
/// whose CONNACK announces nothing: every complete request is written again, whatever its size and however many are outstanding.
fn limits_of_an_earlier_connection(rep: &mut Rep) {
    let pubs = publish_specs(rep);
    let big: Vec<PubSpec> = pubs.iter().filter(|s| s.topic.is_some() && s.payload.as_ref().map(|p| p.len() > 60 && p.len() < 70_000).unwrap_or(false)).cloned().collect();
    let q1: Vec<PubSpec> = pubs.iter().filter(|s| s.eff_qos() > 0 && s.topic.is_some() && s.payload.as_ref().map(|p| p.len() < 1000).unwrap_or(true)).cloned().collect();
    let subs = subscribe_specs(rep);
    rep.note("limits of an earlier connection: first CONNACK with Maximum Packet Size 40 / 16 and Receive Maximum 1; connection ended (end-of-stream, server DISCONNECT, user DISCONNECT); second connection by connect() / through AUTH + authorize(), its CONNACK without limits; then a publish above the old size limit, three QoS>0 publishes outstanding at once, a subscribe: each written as exactly one packet with the caller's options");
    if big.is_empty() || q1.is_empty() || subs.is_empty() {
        return;
    }
    let mut idx = 98_000_000u64;
    for via_auth in [false, true] {
        for ending in 0..3u8 {
            for (oi, old_m) in [40u32, 16].into_iter().enumerate() {
                let id = format!("earlier-limits:{}:{ending}:{old_m}", via_auth as u8);
                idx += 1;
                if !rep.take(idx, &id) {
                    continue;
                }
                let mut rng = Rng::new(rep.seed.wrapping_mul(331).wrapping_add(idx));
                let mut sim = Sim::new(rep.seed);
                sim.log_enabled = false;
                sim.cmd(Cmd::Connect(ConnSpec::default()));
                sim.settle();
                sim.feed_packet(&rc::SPacket::Connack { session_present: false, reason: 0, props: vec![Prop::u32(39, old_m), Prop::u16(33, 1)] });
                sim.settle();
                sim.cmd(Cmd::Run);
                sim.settle();
                match ending {
                    0 => sim.set_eof(),
                    1 => sim.feed_packet(&rc::SPacket::Disconnect { reason: 0x8b, props: vec![], form: 1 }),
                    _ => {
                        sim.start_op(0, OpSpec::Disconnect(DiscSpec::default()));
                    }
                }
                sim.settle();
                sim.new_transport();
                if via_auth {
                    sim.cmd(Cmd::Connect(ConnSpec { auth_method: Some("m".into()), auth_data: Some(vec![1]), ..Default::default() }));
                    sim.settle();
                    sim.feed_packet(&rc::SPacket::Auth { reason: Some(0x18), props: vec![Prop::str(21, "m"), Prop::bin(22, b"c")] });
                    sim.settle();
                    sim.cmd(Cmd::Authorize(AuthSpec { reason: Some(0x18), method: Some("m".into()), data: Some(vec![2]), user_props: vec![] }));
                    sim.settle();
                } else {
                    sim.cmd(Cmd::Connect(ConnSpec::default()));
                    sim.settle();
                }
                sim.feed_packet(&rc::SPacket::Connack { session_present: false, reason: 0, props: if oi == 1 { vec![Prop::pair("k", "v")] } else { vec![] } });
                sim.settle();
                sim.cmd(Cmd::Run);
                sim.settle();
                sim.parse_wire();
                let mut ses = Session { sim, used: 0, qos_inflight: 0 };
                let b = big[rng.below(big.len())].clone();
                run_request(rep, &mut ses, "PUBLISH", &id, OpSpec::Publish(b.clone()), expect_publish(&b));
                for _ in 0..3 {
                    let q = q1[rng.below(q1.len())].clone();
                    run_request(rep, &mut ses, "PUBLISH", &id, OpSpec::Publish(q.clone()), expect_publish(&q));
                }
                let sb = subs[rng.below(subs.len())].clone();
                run_request(rep, &mut ses, "SUBSCRIBE", &id, OpSpec::Subscribe(sb.clone()), expect_subscribe(&sb));
                rep.add("evaluations", 1);
                rep.add("requests_after_an_earlier_connection_with_limits", 5);
                rep.distinct(&("earlier-limits", via_auth, ending, old_m));
            }
        }
    }
}

/// One write call of the transport fails after it has accepted the first n bytes of a packet, and the transport works again
/// afterwards (a write timeout). Whatever the client does about the error, what it has written from then on must still be
/// a prefix of the whole packets in submission order: nothing may follow a torn packet but the rest of that packet.
fn torn_packets(rep: &mut Rep) {
    let kinds: Vec<(&str, OpSpec)> = vec![
        ("pub0", OpSpec::Publish(PubSpec::simple(0, "torn/a", b"0123456789"))),
        ("pub1", OpSpec::Publish(PubSpec::simple(1, "torn/b", b"0123456789"))),
        ("pub2", OpSpec::Publish(PubSpec::simple(2, "torn/c", b"0123456789"))),
        ("sub", OpSpec::Subscribe(SubSpec::simple("torn/filter"))),
        ("unsub", OpSpec::Unsubscribe(UnsubSpec::simple("torn/filter"))),
        ("ping", OpSpec::Ping),
        ("disc", OpSpec::Disconnect(DiscSpec::default())),
    ];
    rep.note(&format!("torn packets: {} request kinds x a transport write that fails once after 0..=5 (and all but one) bytes of the packet and then works again x 3 requests queued behind it: the bytes written are a prefix of the whole packets in submission order", kinds.len()));
    let mut idx = 97_000_000u64;
    for (name, first) in &kinds {
        for n in [0usize, 1, 2, 3, 5, usize::MAX] {
            for held in [false, true] {
                let id = format!("torn:{name}:{}:{}", if n == usize::MAX { "last".to_string() } else { n.to_string() }, held as u8);
                idx += 1;
                if !rep.take(idx, &id) {
                    continue;
                }
                let followers = [OpSpec::Publish(PubSpec::simple(0, "torn/next", b"BBBB")), OpSpec::Ping, OpSpec::Publish(PubSpec::simple(1, "torn/last", b"CC"))];
                // twin: the same requests over a healthy transport
                let mut twin = new_session(rep.seed);
                let t0 = twin.sim.written_len();
                twin.sim.start_op(0, first.clone());
                twin.sim.settle();
                let first_len = twin.sim.written_len() - t0;
                if *name != "disc" {
                    for f in &followers {
                        twin.sim.start_op(0, f.clone());
                        twin.sim.settle();
                    }
                }
                let want: Vec<u8> = twin.sim.writer.0.borrow().written[t0..].to_vec();
                let n = if n == usize::MAX { first_len.saturating_sub(1) } else { n.min(first_len.saturating_sub(1)) };
                let mut ses = new_session(rep.seed);
                let w0 = ses.sim.written_len();
                ses.sim.writer.0.borrow_mut().err_once_at = Some(w0 + n);
                if held {
                    // all four requests are queued before the context looks at any of them
                    ses.sim.hold_ctx = true;
                }
                ses.sim.start_op(0, first.clone());
                ses.sim.settle();
                for f in &followers {
                    ses.sim.start_op(0, f.clone());
                    ses.sim.settle();
                }
                if held {
                    ses.sim.hold_ctx = false;
                    ses.sim.settle();
                }
                let got: Vec<u8> = ses.sim.writer.0.borrow().written[w0..].to_vec();
                rep.add("evaluations", 1);
                rep.add("torn_packet_cases", 1);
                rep.distinct(&("torn", name, n, held));
                for p in ses.sim.panics.clone() {
                    report(rep, format!("C01/panic/{p}"), &id, format!("panic: {p}"));
                }
                if got.len() > want.len() || got[..] != want[..got.len()] {
                    report(rep, format!("C01/partial-packet/followed-by-other-bytes/{name}"), &id, format!("a write of the {name} packet failed once after {n} of its {first_len} bytes; written from then on: {:02x?} - not a prefix of the whole packets in submission order {:02x?}; run() = {:?}", &got[..got.len().min(48)], &want[..want.len().min(48)], ses.sim.run_result()));
                } else {
                    rep.add("packets_decoded_and_matched", 1);
                    rep.sample(|| format!("{id}: write failed once after {n} of {first_len} bytes; {} bytes written in all, a prefix of the {} the healthy twin wrote; run() = {:?}", got.len(), want.len(), ses.sim.run_result()));
                }
            }
        }
    }
}

/// Requests made while the send window announced by the server (Receive Maximum) is used up: only a further QoS>0 PUBLISH
/// is held back by it. The PUBREL of a QoS 2 exchange under way, SUBSCRIBE, UNSUBSCRIBE, PINGREQ, QoS 0 PUBLISH and
/// DISCONNECT are complete requests like at any other time, and each must be written as exactly one packet carrying the
/// caller's options.
fn requests_at_full_window(rep: &mut Rep) {
    let pubs = publish_specs(rep);
    let q0: Vec<PubSpec> = pubs.iter().filter(|s| s.eff_qos() == 0 && s.topic.is_some() && s.payload.as_ref().map(|p| p.len() < 70_000).unwrap_or(true)).cloned().collect();
    let qn: Vec<PubSpec> = pubs.iter().filter(|s| s.eff_qos() > 0 && s.topic.is_some() && s.payload.as_ref().map(|p| p.len() < 70_000).unwrap_or(true)).cloned().collect();
    let subs = subscribe_specs(rep);
    let unsubs = unsubscribe_specs(rep);
    let discs = disconnect_specs(rep);
    let n = if rep.quick() { 60 } else { 3000 };
    rep.note(&format!("requests at a full send window: {n} sessions with Receive Maximum 1 / 2 / 3 filled by QoS 1/2 publishes; then the PUBREL answering a PUBREC, and 6 further requests per session drawn from the generated SUBSCRIBE / UNSUBSCRIBE / QoS 0 PUBLISH / DISCONNECT option sets and PINGREQ, each must be written as exactly one packet equal to the caller's options"));
    if q0.is_empty() || qn.is_empty() || subs.is_empty() || unsubs.is_empty() || discs.is_empty() {
        return;
    }
    for k in 0..n {
        let id = format!("full-window:{k}");
        if !rep.take(96_000_000 + k, &id) {
            continue;
        }
        let mut rng = Rng::new(rep.seed.wrapping_mul(7013).wrapping_add(k));
        let r = 1 + (k % 3) as u16;
        let mut sim = Sim::new(rep.seed);
        sim.log_enabled = false;
        sim.cmd(Cmd::Connect(ConnSpec::default()));
        sim.settle();
        sim.feed_packet(&rc::SPacket::Connack { session_present: false, reason: 0, props: vec![Prop::u16(33, r)] });
        sim.settle();
        sim.cmd(Cmd::Run);
        sim.settle();
        sim.parse_wire();
        let mut ses = Session { sim, used: 0, qos_inflight: 0 };
        // fill the window
        let mut q2_ids = Vec::new();
        for j in 0..r {
            let sp = qn[rng.below(qn.len())].clone();
            let before = ses.sim.wire.len();
            run_request(rep, &mut ses, "PUBLISH", &id, OpSpec::Publish(sp.clone()), expect_publish(&sp));
            if let Some(Ok(CPacket::Publish(p))) = ses.sim.wire.get(before).map(|w| w.pkt.clone()) {
                if p.qos == 2 && (j + k as u16) % 2 == 0 {
                    q2_ids.push(p.id.unwrap_or(0));
                }
            }
        }
        // the window is full: one more QoS>0 publish is refused without a byte written
        {
            let sp = qn[rng.below(qn.len())].clone();
            let wlen = ses.sim.written_len();
            let op = ses.sim.start_op(0, OpSpec::Publish(sp));
            ses.sim.settle();
            let refused = matches!(ses.sim.ops[op].out.as_ref().and_then(|o| o.err()), Some(ErrSum::QuotaExceeded));
            if refused && ses.sim.written_len() == wlen {
                rep.add("full_window_confirmed_by_a_refused_publish", 1);
            }
            ses.sim.parse_wire();
        }
        // the second phase of a QoS 2 exchange under way is not a new exchange
        for pid in q2_ids {
            let before = ses.sim.wire.len();
            ses.sim.feed_packet(&rc::SPacket::Ack { kind: rc::AckKind::Pubrec, id: pid, reason: 0, props: vec![], form: rc::AckForm::Short2 });
            ses.sim.settle();
            ses.sim.parse_wire();
            let new: Vec<WirePkt> = ses.sim.wire[before..].to_vec();
            rep.add("requests", 1);
            let ok = new.len() == 1 && ses.sim.wire_tail() == 0 && matches!(&new[0].pkt, Ok(CPacket::Ack(a)) if a.kind == rc::AckKind::Pubrel && a.id == pid && a.reason == 0 && a.props.is_empty());
            if ok {
                rep.add("packets_decoded_and_matched", 1);
                rep.add("pubrels_written_at_full_window", 1);
            } else {
                report(rep, "C01/not-exactly-one-packet/pkt=PUBREL/full-window".into(), &id, format!("Receive Maximum {r} used up; PUBREC for id {pid}: expected exactly one PUBREL with that id, wire got {:?}", new.iter().map(|w| w.pkt.as_ref().map(|p| p.brief()).unwrap_or_else(|e| e.clone())).collect::<Vec<_>>()));
            }
        }
        // every other kind of request
        for j in 0..5 {
            match (j + k) % 5 {
                0 => {
                    let sp = subs[rng.below(subs.len())].clone();
                    run_request(rep, &mut ses, "SUBSCRIBE", &id, OpSpec::Subscribe(sp.clone()), expect_subscribe(&sp));
                }
                1 => {
                    let sp = unsubs[rng.below(unsubs.len())].clone();
                    run_request(rep, &mut ses, "UNSUBSCRIBE", &id, OpSpec::Unsubscribe(sp.clone()), expect_unsubscribe(&sp));
                }
                2 => run_request(rep, &mut ses, "PINGREQ", &id, OpSpec::Ping, Expect::Packet(CPacket::Pingreq)),
                3 => {
                    let sp = q0[rng.below(q0.len())].clone();
                    run_request(rep, &mut ses, "PUBLISH", &id, OpSpec::Publish(sp.clone()), expect_publish(&sp));
                }
                _ => {
                    let sp = subs[rng.below(subs.len())].clone();
                    run_request(rep, &mut ses, "SUBSCRIBE", &id, OpSpec::Subscribe(sp.clone()), expect_subscribe(&sp));
                }
            }
            rep.add("requests_at_full_window", 1);
        }
        let sp = discs[rng.below(discs.len())].clone();
        run_request(rep, &mut ses, "DISCONNECT", &id, OpSpec::Disconnect(sp.clone()), expect_disconnect(&sp));
        rep.add("requests_at_full_window", 1);
        rep.add("evaluations", 1);
        rep.add("full_window_sessions", 1);
        rep.distinct(&("full-window", k));
    }
}

/// Session resumption with the caller's options on the publishes: what is sent again must carry the same options as
/// the first transmission (the same bytes but for the DUP flag), and PUBREL packets must be repeated unchanged.
fn resumption_with_options(rep: &mut Rep) {
    let specs: Vec<PubSpec> = publish_specs(rep).into_iter().filter(|s| s.eff_qos() > 0 && s.topic.is_some() && s.payload.as_ref().map(|p| p.len() < 70_000).unwrap_or(true)).collect();
    let n = if rep.quick() { 400 } else { 20_000 };
    rep.note(&format!("resumption with options: {n} sessions, each with 1-4 QoS 1/2 publishes drawn from the {} generated publish requests (retain, every property, boundary sizes), some QoS 2 ones already released (PUBREC delivered), connection cut, session resumed: every re-sent PUBLISH must equal its first transmission in every field with DUP=1 and differ from it in that one bit only, every re-sent PUBREL must repeat the original bytes", specs.len()));
    if specs.is_empty() {
        return;
    }
    for k in 0..n {
        let id = format!("resume-opts:{k}");
        if !rep.take(95_000_000 + k, &id) {
            continue;
        }
        let mut rng = Rng::new(rep.seed.wrapping_mul(9176).wrapping_add(k));
        let mut sim = Sim::new(rep.seed);
        sim.log_enabled = true;
        sim.cmd(Cmd::Connect(ConnSpec { sei: Some(3600), ..Default::default() }));
        sim.settle();
        sim.feed_packet(&rc::SPacket::Connack { session_present: false, reason: 0, props: vec![] });
        sim.settle();
        sim.cmd(Cmd::Run);
        sim.settle();
        sim.parse_wire();
        let base = sim.wire.len();
        let cnt = 1 + rng.below(4);
        let mut chosen = Vec::new();
        for _ in 0..cnt {
            let sp = specs[rng.below(specs.len())].clone();
            sim.start_op(0, OpSpec::Publish(sp.clone()));
            sim.settle();
            chosen.push(sp);
        }
        sim.parse_wire();
        let first: Vec<WirePkt> = sim.wire[base..].to_vec();
        // originals in wire order; release some of the QoS 2 ones
        let mut originals: Vec<(rc::Publish, Vec<u8>)> = Vec::new();
        for wpk in &first {
            if let Ok(CPacket::Publish(p)) = &wpk.pkt {
                originals.push((p.clone(), wpk.bytes.clone()));
            }
        }
        let mut released: Vec<u16> = Vec::new();
        for (p, _) in &originals {
            if p.qos == 2 && rng.chance(1, 2) {
                sim.feed_packet(&rc::SPacket::Ack { kind: rc::AckKind::Pubrec, id: p.id.unwrap_or(0), reason: 0, props: vec![], form: rc::AckForm::Short2 });
                sim.settle();
                released.push(p.id.unwrap_or(0));
            }
        }
        sim.parse_wire();
        // some exchanges are carried to their end before the connection is lost: nothing of them may come back
        let mut finished: Vec<u16> = Vec::new();
        for (p, _) in &originals {
            let pid = p.id.unwrap_or(0);
            if p.qos == 2 && released.contains(&pid) && rng.chance(1, 2) {
                sim.feed_packet(&rc::SPacket::Ack { kind: rc::AckKind::Pubcomp, id: pid, reason: 0, props: vec![], form: rc::AckForm::Short2 });
                sim.settle();
                finished.push(pid);
            } else if p.qos == 1 && rng.chance(1, 3) {
                sim.feed_packet(&rc::SPacket::Ack { kind: rc::AckKind::Puback, id: pid, reason: 0, props: vec![], form: rc::AckForm::Short2 });
                sim.settle();
                finished.push(pid);
            }
        }
        if !finished.is_empty() {
            rep.add("exchanges_finished_before_the_connection_was_lost", finished.len() as i64);
        }
        let pubrel_bytes: Vec<Vec<u8>> = sim.wire[base..]
            .iter()
            .filter(|w| matches!(&w.pkt, Ok(CPacket::Ack(a)) if a.kind == rc::AckKind::Pubrel && !finished.contains(&a.id)))
            .map(|w| w.bytes.clone())
            .collect();
        sim.set_eof();
        sim.settle();
        sim.cmd(Cmd::MarkDisconnected(1));
        sim.new_transport();
        sim.cmd(Cmd::Connect(ConnSpec { sei: Some(3600), ..Default::default() }));
        sim.settle();
        sim.feed_packet(&rc::SPacket::Connack { session_present: true, reason: 0, props: vec![] });
        sim.settle();
        sim.parse_wire();
        let after_connect = sim.wire.len();
        sim.cmd(Cmd::Run);
        sim.settle();
        sim.parse_wire();
        rep.add("evaluations", 1);
        rep.add("resumed_sessions_with_options", 1);
        rep.distinct(&("resume-opts", k));
        for p in sim.panics.clone() {
            report(rep, format!("C01/panic/{p}"), &id, format!("panic during resumption: {p}"));
        }
        if let Some(e) = sim.wire_split_error.clone() {
            report(rep, "C01/resent-bytes-unsplittable".into(), &id, format!("{e}\n{}", sim.tail_log(25)));
            continue;
        }
        let resent: Vec<WirePkt> = sim.wire[after_connect..].to_vec();
        let want_pubs: Vec<&(rc::Publish, Vec<u8>)> = originals.iter().filter(|(p, _)| !released.contains(&p.id.unwrap_or(0)) && !finished.contains(&p.id.unwrap_or(0))).collect();
        let got_pubs: Vec<&WirePkt> = resent.iter().filter(|w| matches!(&w.pkt, Ok(CPacket::Publish(_)) | Err(_))).collect();
        let got_rels: Vec<&WirePkt> = resent.iter().filter(|w| matches!(&w.pkt, Ok(CPacket::Ack(_)))).collect();
        for (j, (orig, obytes)) in want_pubs.iter().enumerate() {
            let Some(g) = got_pubs.get(j) else { break };
            rep.add("retransmitted_packets_decoded", 1);
            match &g.pkt {
                Err(e) => report(rep, "C01/malformed-packet/pkt=PUBLISH/resent".into(), &id, format!("re-sent PUBLISH rejected by the reference decoder: {e}\nfirst bytes {:02x?}", &g.bytes[..g.bytes.len().min(40)])),
                Ok(CPacket::Publish(p)) => {
                    let mut want = orig.clone();
                    want.dup = true;
                    if *p != want {
                        let field = if p.retain != want.retain { "retain" } else if p.qos != want.qos { "qos" } else if p.id != want.id { "packet_identifier" } else if p.topic != want.topic { "topic" } else if p.payload != want.payload { "payload" } else if p.props != want.props { "properties" } else { "dup" };
                        report(rep, format!("C01/value-mismatch/pkt=PUBLISH/resent/field={field}"), &id, format!("re-sent PUBLISH differs from its first transmission in {field}: first {} , re-sent {}\nfirst bytes {:02x?}\nre-sent bytes {:02x?}", CPacket::Publish(orig.clone()).brief(), CPacket::Publish(p.clone()).brief(), &obytes[..obytes.len().min(24)], &g.bytes[..g.bytes.len().min(24)]));
                    } else {
                        let mut ob = obytes.clone();
                        ob[0] |= 0x08;
                        if ob != g.bytes {
                            report(rep, "C01/value-mismatch/pkt=PUBLISH/resent/field=bytes".into(), &id, format!("re-sent PUBLISH decodes to the same values but its bytes differ from the first transmission in more than the DUP bit"));
                        } else {
                            rep.add("packets_decoded_and_matched", 1);
                        }
                    }
                }
                _ => {}
            }
        }
        // nothing but the unfinished exchanges is written on the resumed connection before a new request: every packet there
        // must be the image of a request
        if got_pubs.len() != want_pubs.len() || got_rels.len() != pubrel_bytes.len() {
            report(rep, format!("C01/unattributable-packet/{}/resent", if got_rels.len() > pubrel_bytes.len() { "PUBREL" } else if got_pubs.len() > want_pubs.len() { "PUBLISH" } else { "missing" }), &id, format!("{} PUBLISH and {} PUBREL exchanges were unfinished when the connection was lost ({} exchanges had been completed); the resumed connection carries {} PUBLISH and {} PUBREL packets before any new request: {:?}", want_pubs.len(), pubrel_bytes.len(), finished.len(), got_pubs.len(), got_rels.len(), resent.iter().map(|w| w.pkt.as_ref().map(|p| p.brief()).unwrap_or_else(|e| e.clone())).collect::<Vec<_>>()));
        }
        for (j, ob) in pubrel_bytes.iter().enumerate() {
            if let Some(g) = got_rels.get(j) {
                rep.add("retransmitted_packets_decoded", 1);
                if &g.bytes != ob {
                    report(rep, "C01/value-mismatch/pkt=PUBREL/resent".into(), &id, format!("re-sent PUBREL {:02x?} differs from the original {:02x?}", g.bytes, ob));
                }
            }
        }
        rep.sample(|| format!("{id}: {} publishes ({} released) -> {} PUBLISH and {} PUBREL re-sent unchanged", originals.len(), released.len(), got_pubs.len(), got_rels.len()));
    }
}
