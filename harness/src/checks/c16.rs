//! C16 — progress relies only on wakeups; spurious polls have no effect.

use super::script::*;
use super::{add_counters, harvest};
use crate::refcodec::{AckKind, CPacket};
use crate::report::Rep;
use crate::sim::*;
use crate::world::*;

#[derive(Clone, Debug, PartialEq, Eq, Hash)]
pub struct Obs {
    pub requests: Vec<String>,
    pub acks: Vec<String>,
    pub results: Vec<Option<String>>,
    pub items: Vec<Vec<String>>,
    pub ctx: Vec<String>,
    pub unread: usize,
}

pub fn observe(w: &mut World) -> Obs {
    w.sim.parse_wire();
    let mut requests = Vec::new();
    let mut acks = Vec::new();
    let wires: Vec<&Vec<WirePkt>> = w.sim.old_wires.iter().chain(std::iter::once(&w.sim.wire)).collect();
    for wire in wires {
        for p in wire {
            match &p.pkt {
                Ok(CPacket::Ack(a)) if a.kind != AckKind::Pubrel => acks.push(format!("{:02x?}", p.bytes)),
                Ok(_) => requests.push(format!("{:02x?}", &p.bytes[..p.bytes.len().min(40)])),
                Err(e) => requests.push(format!("undecodable {e}")),
            }
        }
    }
    Obs {
        requests,
        acks,
        results: w.sim.ops.iter().map(|o| o.out.as_ref().map(|x| x.brief())).collect(),
        items: w.sim.streams.iter().map(|s| s.items.iter().map(|m| m.brief()).chain(if s.ended { Some("<end>".to_string()) } else { None }).collect()).collect(),
        ctx: w.sim.ctx_results().iter().map(|(c, o)| format!("{c}: {}", brief_ctx(o))).collect(),
        unread: w.sim.unread(),
    }
}

#[derive(Clone, Copy, Debug, PartialEq, Eq, Hash)]
pub struct Variant {
    pub discipline: u8, // 0 = D0, 1 = D1, 2.. = D2 with PRNG placement k
    pub reader: u8,     // 0 whole, 1 = 1-byte caps, 2 = 2-byte caps, 3 = 1-byte trickle, 4 = 2-byte trickle
    pub writer: u8,     // 0 all, 1 = 1 byte per call, 2 = pending every other call
    pub order: u8,
}

pub fn world_for(seed: u64, v: Variant) -> World {
    let discipline = match v.discipline {
        0 => Discipline::D0,
        1 => Discipline::D1,
        _ => Discipline::D2,
    };
    let mut w = World::boot(WorldCfg { seed, discipline, order: v.order, sei: if seed % 3 == 0 { None } else { Some(3600) }, ..Default::default() });
    w.sim.rng = Rng::new(seed.wrapping_mul(131).wrapping_add(v.discipline as u64));
    match v.reader {
        1 => w.sim.reader.0.borrow_mut().default_cap = 1,
        2 => w.sim.reader.0.borrow_mut().default_cap = 2,
        3 => w.sim.trickle = Some(1),
        4 => w.sim.trickle = Some(2),
        _ => {}
    }
    w.sim.writer.0.borrow_mut().plan = match v.writer {
        1 => WritePlan::Max(1),
        2 => WritePlan::MaxPendingAlt(3),
        _ => WritePlan::All,
    };
    w
}

/// Replays a script; returns the observation and the step at which an action was no longer applicable.
pub fn replay(seed: u64, v: Variant, a: &Alpha, acts: &[Act]) -> (World, Obs, Option<usize>) {
    let mut w = world_for(seed, v);
    let mut diverged = None;
    for (k, act) in acts.iter().enumerate() {
        let en = enabled(&w, a);
        if !en.contains(act) {
            diverged = Some(k);
            break;
        }
        apply(&mut w, *act);
        w.settle_check();
        if w.blind {
            break;
        }
    }
    finish(&mut w);
    let o = observe(&mut w);
    (w, o, diverged)
}

fn diff_obs(a: &Obs, b: &Obs) -> Option<(&'static str, String)> {
    if a.requests != b.requests {
        return Some(("requests-written", format!("client requests on the wire differ: {} vs {}", a.requests.len(), b.requests.len())));
    }
    if a.acks != b.acks {
        return Some(("acknowledgements-written", format!("acknowledgements written differ: {:?} vs {:?}", a.acks, b.acks)));
    }
    if a.results != b.results {
        return Some(("operation-results", format!("operation results differ: {:?} vs {:?}", a.results, b.results)));
    }
    if a.items != b.items {
        return Some(("stream-items", format!("stream items differ: {:?} vs {:?}", a.items, b.items)));
    }
    if a.ctx != b.ctx {
        return Some(("context-results", format!("context call results differ: {:?} vs {:?}", a.ctx, b.ctx)));
    }
    if a.unread != b.unread {
        return Some(("unread-bytes", format!("unread transport bytes differ: {} vs {}", a.unread, b.unread)));
    }
    None
}

pub fn alpha() -> Alpha {
    Alpha {
        kinds: vec![Kind::Pub0, Kind::Pub1, Kind::Pub2, Kind::Sub, Kind::Unsub, Kind::Ping],
        max_ops: 14,
        max_conc: 5,
        pub_ack_variants: vec![(0, 0), (2, 1), (4, 0)],
        sub_ack_variants: vec![(0, 0), (3, 1)],
        drops: true,
        create_unpolled: true,
        inbound: vec![
            (0, 0, false, SubSel::Op(0)),
            (1, 1, false, SubSel::Op(0)),
            (1, 1, true, SubSel::Op(0)),
            (2, 2, false, SubSel::Op(1)),
            (2, 2, true, SubSel::Both),
            (1, 3, false, SubSel::Absent),
            (0, 0, false, SubSel::Never),
        ],
        pubrels: vec![2],
        max_inbound: 12,
        stray: vec![(AckKind::Puback, 9000), (AckKind::Pubcomp, 9001)],
        streams: true,
        stream_handover: true,
        task_handover: true,
        terms: vec![TermAct::UserDisconnect, TermAct::ServerDisconnect { reason: 0x8b, form: 2, props: true }, TermAct::ServerDisconnect { reason: 0, form: 0, props: false }, TermAct::Eof, TermAct::ReadErr, TermAct::TransientReadErr(false), TermAct::TransientReadErr(true), TermAct::Garbage],
        drop_ctx: true,
        after_drop_kinds: vec![Kind::Pub1, Kind::Ping],
        reconnect: true,
        ..Default::default()
    }
}

/// N handshakes left unfinished by a lost connection and re-sent when the session is resumed
fn burst_resume(seed: u64, v: Variant, n: usize) -> (World, Obs) {
    let mut w = world_for(seed - seed % 3 + 1, v);
    w.sim.log_enabled = n <= 40;
    for j in 0..n {
        // one stimulus at a time (which of two simultaneously ready sources run() serves first is its free choice)
        let i = w.start(j % 2, if j % 3 == 2 { Kind::Pub2 } else { Kind::Pub1 });
        w.settle_check();
        if j % 6 == 5 && w.m[i].req_wire.is_some() {
            // a QoS 2 exchange already in its second phase
            w.deliver_ack(i, 1, 0, 0);
            w.settle_check();
        }
    }
    w.settle_check();
    w.eof();
    w.settle_check();
    let resumed = w.resume_full(ResumeOpts { secs_ago: 1, sei: Some(3600), ..Default::default() });
    w.settle_check();
    if resumed && !w.blind {
        for _ in 0..2 {
            for (i, st) in w.ackable() {
                w.deliver_ack(i, st, 0, 0);
                w.settle_check();
            }
        }
    }
    finish(&mut w);
    // on a resumed connection everything that goes missing under the wake-only executor is C16's business here
    for vi in w.viols.iter_mut() {
        if !vi.props.contains(&"C16") && !vi.props.contains(&"*") {
            vi.sig = format!("C16/resumption/{}", vi.sig);
            vi.props = &["C16"];
        }
    }
    let o = observe(&mut w);
    (w, o)
}

/// K inbound packets made available by one transport event (after a subscription with a live stream exists)
fn burst_inbound(seed: u64, v: Variant, k: usize) -> (World, Obs) {
    burst_inbound_dups(seed, v, k, false)
}

/// `dups`: every second QoS>0 message is re-delivered (same identifier, DUP=1) right behind the original
fn burst_inbound_dups(seed: u64, v: Variant, k: usize, dups: bool) -> (World, Obs) {
    let mut w = world_for(seed, v);
    let s = w.start(0, Kind::Sub);
    w.settle_check();
    w.deliver_ack(s, 1, 0, 0);
    w.settle_check();
    w.take_stream(s);
    let sid = w.sub_id_of(s).unwrap_or(1);
    w.sim.capture = Some(Vec::new());
    for j in 0..k {
        w.in_publish((j % 3) as u8, 1 + j as u16, false, &[sid], false);
        if dups && j % 3 != 0 && (j / 3) % 2 == 0 {
            w.in_publish((j % 3) as u8, 1 + j as u16, true, &[sid], false);
        }
        if j % 3 == 2 {
            w.in_pubrel(1 + j as u16);
        }
    }
    let bytes = w.sim.capture.take().unwrap();
    w.sim.note(|| format!("deliver {k} PUBLISH packets ({} bytes) in one transport event", bytes.len()));
    w.sim.feed(&bytes);
    w.settle_check();
    finish(&mut w);
    let o = observe(&mut w);
    (w, o)
}

/// K requests already queued when the context task gets to run
fn burst_requests(seed: u64, v: Variant, k: usize) -> (World, Obs) {
    let mut w = world_for(seed, v);
    // some of the requests are very large (70 000 bytes and more), unless the writer plan makes that too slow
    w.huge_pubs = k <= 20;
    w.sim.log_enabled = true;
    w.sim.hold_ctx = true;
    let kinds = [Kind::Pub0, Kind::Pub1, Kind::Ping, Kind::Pub2, Kind::Unsub, Kind::Sub];
    for j in 0..k {
        w.start(j % 2, kinds[j % kinds.len()]);
    }
    w.sim.hold_ctx = false;
    w.sim.note(|| format!("context released with {k} requests queued"));
    w.settle_check();
    finish(&mut w);
    let o = observe(&mut w);
    (w, o)
}

fn bursts(rep: &mut Rep) {
    let sizes: Vec<usize> = if rep.quick() { vec![1, 7, 15, 16, 17, 31, 32, 33, 64, 100] } else { (1..=70).chain([100, 127, 128, 129, 255, 256, 257, 500, 1000]).collect() };
    rep.note(&format!("bursts: {:?} inbound packets made available by one transport event (without and with DUP=1 re-deliveries right behind the original), as many handshakes re-sent at once on a resumed connection, and as many requests already queued when the context runs, each under wake-only vs sweep vs spurious-poll executors and 3 reader plans", sizes));
    let mut idx = 80_000_000u64;
    for &k in &sizes {
        for kind in 0..4u8 {
            let id = format!("burst:{kind}:{k}");
            idx += 1;
            if !rep.take(idx, &id) {
                continue;
            }
            let base = Variant { discipline: 0, reader: 0, writer: 0, order: 0 };
            let (mut w0, ref_obs) = match kind {
                0 => burst_inbound(rep.seed, base, k),
                1 => burst_requests(rep.seed, base, k),
                2 => burst_inbound_dups(rep.seed, base, k, true),
                _ => burst_resume(rep.seed, base, k),
            };
            rep.add("evaluations", 1);
            rep.add("burst_cases", 1);
            rep.distinct(&("burst", kind, k, 0u8));
            let mut nv = harvest(rep, &mut w0, &id);
            add_counters(rep, &w0);
            for (vi, v) in [
                Variant { discipline: 1, reader: 0, writer: 0, order: 1 },
                Variant { discipline: 2, reader: 0, writer: 0, order: 2 },
                Variant { discipline: 0, reader: 1, writer: 1, order: 3 },
                Variant { discipline: 1, reader: 4, writer: 2, order: 0 },
                Variant { discipline: 3, reader: 2, writer: 0, order: 1 },
            ]
            .iter()
            .enumerate()
            {
                let (mut w, obs) = match kind {
                    0 => burst_inbound(rep.seed, *v, k),
                    1 => burst_requests(rep.seed, *v, k),
                    2 => burst_inbound_dups(rep.seed, *v, k, true),
                    _ => burst_resume(rep.seed, *v, k),
                };
                rep.add("evaluations", 1);
                rep.add("variant_runs", 1);
                rep.distinct(&("burst", kind, k, vi as u8 + 1));
                if let Some((field, d)) = diff_obs(&ref_obs, &obs) {
                    let which = match v.discipline {
                        0 => "wake-only",
                        1 => "sweep-after-every-event",
                        _ => "spurious-polls",
                    };
                    w.viol(&["C16"], format!("C16/observation-differs/{which}/{field}"), format!("burst of {k} ({}), variant {v:?} vs wake-only reference: {d}", match kind { 0 => "inbound packets in one read", 1 => "queued requests", 2 => "inbound packets with re-deliveries in one read", _ => "handshakes re-sent on a resumed connection" }));
                } else {
                    rep.add("identical_observations", 1);
                }
                nv += harvest(rep, &mut w, &format!("{id}:v{vi}"));
                add_counters(rep, &w);
            }
            if nv == 0 {
                rep.sample(|| format!("{id}: burst of {k} -> {} requests written, {} acks written, identical under all variants", ref_obs.requests.len(), ref_obs.acks.len()));
            }
        }
    }
}

pub fn run(rep: &mut Rep) {
    bursts(rep);
    let a = alpha();
    let scripts = if rep.quick() { 500 } else { 80000 };
    let steps = 28;
    let mut variants: Vec<Variant> = Vec::new();
    for discipline in 1..=4u8 {
        for reader in 0..5u8 {
            for writer in 0..3u8 {
                variants.push(Variant { discipline, reader, writer, order: (discipline + reader + writer) % 4 });
            }
        }
    }
    // wake-only under every transport plan as well (transport plans alone must not change anything either)
    for reader in 0..5u8 {
        for writer in 0..3u8 {
            if reader != 0 || writer != 0 {
                variants.push(Variant { discipline: 0, reader, writer, order: (reader + writer) % 4 });
            }
        }
    }
    rep.note(&format!("{scripts} PRNG scripts of <= {steps} actions (one stimulus at a time, settle in between; operations of every kind, acks, inbound traffic, stream operations, cancellations, every terminating cause, drop(context)) generated under the wake-only discipline D0 with whole-packet reads; each is replayed under {} variants: {{D0, D1 = sweep of all tasks after every event, D2 = spurious polls at 3 PRNG placements}} x reader {{whole, 1-/2-byte read caps, 1-/2-byte trickled arrival}} x writer {{all, 1 byte per call, Pending every other call}}; canonical observations must be identical; plus the no-op sweep at every script end", variants.len()));
    // directed: an operation is given up (its future dropped) while the context has nothing to do, and its acknowledgement
    // arrives afterwards. Dropping a future wakes nobody, so whether run() is polled between the two is exactly what a
    // sweeping or spuriously polling executor changes.
    {
        let ack = |op: usize, stage: u8| Act::Ack { op, stage, ridx: 0, form: 0 };
        let mut directed: Vec<Vec<Act>> = Vec::new();
        for kind in [Kind::Pub1, Kind::Pub2, Kind::Sub, Kind::Unsub] {
            directed.push(vec![Act::Start(kind), Act::DropOp(0), ack(0, 1)]);
            directed.push(vec![Act::Start(Kind::Pub1), Act::Start(kind), Act::DropOp(1), ack(1, 1), ack(0, 1)]);
            directed.push(vec![Act::Start(kind), Act::Start(Kind::Pub1), Act::DropOp(0), ack(1, 1), ack(0, 1)]);
        }
        directed.push(vec![Act::Start(Kind::Pub2), Act::DropOp(0), ack(0, 1), ack(0, 2)]);
        directed.push(vec![Act::Start(Kind::Pub2), ack(0, 1), Act::DropOp(0), ack(0, 2)]);
        directed.push(vec![Act::Start(Kind::Pub2), Act::Start(Kind::Pub2), Act::DropOp(0), Act::DropOp(1), ack(1, 1), ack(0, 1), ack(0, 2), ack(1, 2)]);
        // a subscription stream changes hands (polled under a new waker) between messages
        let inp = |q: u8, id: u16| Act::InPub { qos: q, id, dup: false, sub: SubSel::Op(0) };
        directed.push(vec![Act::Start(Kind::Sub), ack(0, 1), Act::TakeStream(0), Act::HandoverStream(0), inp(0, 0), inp(1, 1)]);
        directed.push(vec![Act::Start(Kind::Sub), ack(0, 1), Act::TakeStream(0), inp(0, 0), Act::HandoverStream(0), inp(1, 1), Act::HandoverStream(0), Act::HandoverStream(0), inp(0, 0)]);
        directed.push(vec![Act::Start(Kind::Sub), ack(0, 1), inp(1, 1), Act::TakeStream(0), Act::HandoverStream(0), Act::HandoverStream(0), inp(1, 1), inp(0, 0)]);
        // the run() future and operation futures change hands between events
        directed.push(vec![Act::HandoverCtx, Act::Start(Kind::Pub1), Act::HandoverCtx, ack(0, 1), Act::HandoverCtx, Act::InPub { qos: 1, id: 3, dup: false, sub: SubSel::Absent }]);
        directed.push(vec![Act::Start(Kind::Pub2), Act::HandoverOp(0), ack(0, 1), Act::HandoverOp(0), Act::HandoverOp(0), ack(0, 2)]);
        directed.push(vec![Act::Start(Kind::Sub), Act::HandoverOp(0), Act::HandoverCtx, ack(0, 1), Act::Start(Kind::Ping), Act::HandoverOp(1), Act::PingResp]);
        directed.push(vec![Act::Start(Kind::Ping), Act::DropOp(0), Act::PingResp]);
        directed.push(vec![Act::Start(Kind::Ping), Act::Start(Kind::Ping), Act::DropOp(0), Act::PingResp, Act::PingResp]);
        rep.note(&format!("{} directed scripts (an operation of every kind given up while the context is idle, its acknowledgement(s) arriving afterwards, alone and next to a live operation), each replayed under all {} variants", directed.len(), variants.len()));
        for (k, acts) in directed.iter().enumerate() {
            let id = format!("given-up:{k}");
            if !rep.take(90_000_000 + k as u64, &id) {
                continue;
            }
            let seed = rep.seed.wrapping_mul(77).wrapping_add(k as u64);
            let base = Variant { discipline: 0, reader: 0, writer: 0, order: 0 };
            let (mut w0, ref_obs, div0) = replay(seed, base, &a, acts);
            rep.add("evaluations", 1);
            if div0.is_some() || w0.blind {
                rep.add("directed_scripts_not_applicable", 1);
                harvest(rep, &mut w0, &id);
                continue;
            }
            rep.add("directed_given_up_scripts", 1);
            harvest(rep, &mut w0, &id);
            for (vi, v) in variants.iter().enumerate() {
                let vid = format!("{id}:v{vi}");
                let (mut w, obs, diverged) = replay(seed, *v, &a, acts);
                rep.add("evaluations", 1);
                rep.add("variant_runs", 1);
                rep.distinct(&("given-up", k, vi));
                let which = match v.discipline {
                    0 => "wake-only",
                    1 => "sweep-after-every-event",
                    _ => "spurious-polls",
                };
                if let Some(step) = diverged {
                    w.viol(&["C16"], format!("C16/script-diverges/{which}"), format!("variant {v:?}: action {step} ({:?}) of the wake-only reference script is not applicable any more - an earlier step behaved differently", acts[step]));
                } else if let Some((field, d)) = diff_obs(&ref_obs, &obs) {
                    w.viol(&["C16"], format!("C16/observation-differs/{which}/{field}"), format!("variant {v:?} vs wake-only reference with whole-packet reads: {d}\nscript: {:?}", acts));
                } else {
                    rep.add("identical_observations", 1);
                }
                harvest(rep, &mut w, &vid);
                add_counters(rep, &w);
            }
        }
    }
    // one packet arriving in two instalments through a transport that hands out 1 or 2 bytes per read, the run() future changing
    // hands in between (and being polled once by its new owner): the second instalment is consumed under the new waker
    {
        rep.note("handover inside a packet: PUBLISH of 100 / 200 / 1000 / 20 000 bytes delivered in two instalments (cut after 1 .. 150 bytes) with 1- and 2-byte reads, the run() future handed to another task between them: nothing left unread, the PUBACK written");
        let mut hidx = 91_000_000u64;
        for size in [100usize, 200, 1000, 20_000] {
            for cut in [1usize, 2, 3, 40, 70, 150] {
                for cap in [1usize, 2] {
                    let id = format!("handover-inside:{size}:{cut}:{cap}");
                    hidx += 1;
                    if !rep.take(hidx, &id) {
                        continue;
                    }
                    let mut w = World::boot(WorldCfg { seed: rep.seed, ..Default::default() });
                    w.sim.capture = Some(Vec::new());
                    w.in_publish_sized(1, 7, false, &[], size);
                    let bytes = w.sim.capture.take().unwrap_or_default();
                    let cut = cut.min(bytes.len() - 1);
                    w.sim.reader.0.borrow_mut().default_cap = cap;
                    w.sim.feed(&bytes[..cut]);
                    w.sim.settle();
                    w.sim.handover_ctx();
                    w.sim.settle();
                    w.sim.feed(&bytes[cut..]);
                    w.settle_check();
                    if let Some(sdesc) = w.sim.stalled() {
                        w.viol(&["C16"], "C16/lost-wakeup/handover-inside-a-packet".into(), format!("{size}-byte PUBLISH cut after {cut} bytes, {cap}-byte reads, run() handed over between the instalments: {sdesc}"));
                    }
                    finish(&mut w);
                    rep.add("evaluations", 1);
                    rep.add("handovers_inside_a_packet", 1);
                    rep.distinct(&("handover-inside", size, cut, cap));
                    for v in w.viols.iter_mut() {
                        if !v.props.contains(&"C16") && !v.props.contains(&"*") {
                            v.sig = format!("C16/handover-inside-a-packet/{}", v.sig);
                            v.props = &["C16"];
                        }
                    }
                    harvest(rep, &mut w, &id);
                    add_counters(rep, &w);
                }
            }
        }
    }
    for k in 0..scripts {
        let id = format!("script:{k}");
        if !rep.take(k, &id) {
            continue;
        }
        let seed = rep.seed.wrapping_mul(1_000_003).wrapping_add(k);
        // reference run: D0, whole packets
        let base = Variant { discipline: 0, reader: 0, writer: 0, order: 0 };
        let mut w0 = world_for(seed, base);
        let mut rng = Rng::new(seed ^ 0x16);
        let acts = run_walk(&mut w0, &a, &mut rng, steps);
        let ref_obs = observe(&mut w0);
        rep.add("evaluations", 1);
        rep.add("scripts", 1);
        rep.add("script_actions", acts.len() as i64);
        rep.distinct(&(0u8, w0.shape()));
        let mut nv = harvest(rep, &mut w0, &id);
        add_counters(rep, &w0);
        if w0.blind {
            continue;
        }
        // a subset of variants per script in quick mode, all in thorough
        let stride = if rep.quick() { 4 } else { 1 };
        for (vi, v) in variants.iter().enumerate() {
            if (vi as u64 + k) % stride != 0 {
                continue;
            }
            let vid = format!("{id}:v{vi}");
            let (mut w, obs, diverged) = replay(seed, *v, &a, &acts);
            rep.add("evaluations", 1);
            rep.add("variant_runs", 1);
            rep.add(&format!("variant_runs_discipline_{}", v.discipline.min(2)), 1);
            rep.distinct(&(vi, w.shape()));
            let which = match v.discipline {
                0 => "wake-only",
                1 => "sweep-after-every-event",
                _ => "spurious-polls",
            };
            if let Some(step) = diverged {
                w.viol(&["C16"], format!("C16/script-diverges/{which}"), format!("variant {v:?}: action {step} ({:?}) of the wake-only reference script is not applicable any more - an earlier step behaved differently", acts[step]));
            } else if let Some((field, d)) = diff_obs(&ref_obs, &obs) {
                w.viol(&["C16"], format!("C16/observation-differs/{which}/{field}"), format!("variant {v:?} vs wake-only reference with whole-packet reads: {d}\nscript: {:?}", acts));
            } else {
                rep.add("identical_observations", 1);
            }
            nv += harvest(rep, &mut w, &vid);
            add_counters(rep, &w);
        }
        if nv == 0 {
            rep.sample(|| format!("{id}: {} actions {:?}... -> {} requests, {} acks, {} results, identical under all replayed variants", acts.len(), &acts[..acts.len().min(8)], ref_obs.requests.len(), ref_obs.acks.len(), ref_obs.results.iter().filter(|r| r.is_some()).count()));
        }
    }
}
