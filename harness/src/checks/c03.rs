//! C03 — framing is independent of how the byte stream is chunked; no lost wakeups.

use super::script::finish;
use super::{add_counters, harvest};
use crate::report::Rep;
use crate::sim::Rng;
use crate::world::*;

#[derive(Clone, Debug, Hash, PartialEq, Eq)]
pub enum Plan {
    /// chunk k arrives, everything settles, chunk k+1 arrives ... (sizes; the rest in one piece)
    Trickle(Vec<usize>),
    /// all bytes are available at once, successive reads return at most these sizes (then unlimited)
    Caps(Vec<usize>),
    /// all bytes available, every read returns at most k bytes
    FixedCap(usize),
    /// chunks of k bytes arrive one after the other
    FixedTrickle(usize),
}

#[derive(Clone, Debug, Hash, PartialEq, Eq)]
pub enum Item {
    /// inbound PUBLISH to the stream: qos, payload size
    Pub(u8, usize),
    Rel(u16),
    PingResp,
    /// PUBACK for the k-th prepared QoS 1 publish
    Puback,
    Suback,
}

pub struct Obs {
    pub items: Vec<(u8, String, usize)>,
    pub wire: Vec<u8>,
    pub results: Vec<String>,
}

fn build(seed: u64, seq: &[Item]) -> (World, Vec<u8>, usize) {
    // the long runs of small packets are received by a client whose CONNECT announced a Maximum Packet Size of 2048 bytes:
    // every packet is far below it, however many of them share a read or the receive buffer
    // ... and every second sequence by a client that announced a limit just above its largest packet (the broker keeps to it)
    let largest = seq.iter().map(|x| if let Item::Pub(_, n) = x { *n } else { 0 }).max().unwrap_or(0);
    let own = if seq.len() >= 1000 { Some(2048) } else if seq.len() % 2 == 0 { Some(largest as u32 + 400) } else { None };
    let w = World::boot(WorldCfg { seed, own_max_packet: own, ..Default::default() });
    build_on(w, seq)
}

fn build_on(mut w: World, seq: &[Item]) -> (World, Vec<u8>, usize) {
    let a = w.start(0, Kind::Sub);
    w.settle_check();
    if w.m[a].pkt_id.is_none() {
        // the client is not serving (only possible after an earlier connection): nothing can be delivered
        let r = w.sim.run_result();
        w.viol(&["C03"], "C03/client-not-serving-on-new-connection".into(), format!("the SUBSCRIBE was not written on the new connection; run() = {:?}", r));
        w.blind = true;
        return (w, Vec::new(), 0);
    }
    w.deliver_ack(a, 1, 0, 0);
    w.settle_check();
    w.take_stream(a);
    let sid = w.sub_id_of(a).unwrap_or(1);
    let npings = seq.iter().filter(|x| **x == Item::PingResp).count();
    let npub = seq.iter().filter(|x| **x == Item::Puback).count();
    let nsub = seq.iter().filter(|x| **x == Item::Suback).count();
    for _ in 0..npings {
        w.start(0, Kind::Ping);
    }
    let mut pubs = Vec::new();
    for _ in 0..npub {
        pubs.push(w.start(1, Kind::Pub1));
    }
    let mut subs = Vec::new();
    for _ in 0..nsub {
        subs.push(w.start(1, Kind::Sub));
    }
    w.settle_check();
    let base = w.sim.written_len();
    w.sim.capture = Some(Vec::new());
    let mut next_id = 1u16;
    for it in seq {
        match it {
            Item::Pub(q, size) => {
                let id = next_id;
                if *q > 0 {
                    next_id += 1;
                }
                w.in_publish_sized(*q, id, false, &[sid], *size);
            }
            Item::Rel(id) => w.in_pubrel(*id),
            Item::PingResp => w.pingresp(),
            Item::Puback => {
                let i = pubs.remove(0);
                w.deliver_ack(i, 1, 0, 1);
            }
            Item::Suback => {
                let i = subs.remove(0);
                w.deliver_ack(i, 1, 0, 1);
            }
        }
    }
    let bytes = w.sim.capture.take().unwrap();
    (w, bytes, base)
}

fn deliver(w: &mut World, bytes: &[u8], plan: &Plan) -> Option<String> {
    let mut stall = None;
    match plan {
        Plan::Trickle(sizes) => {
            let mut off = 0;
            for &s in sizes {
                if off >= bytes.len() {
                    break;
                }
                let e = (off + s.max(1)).min(bytes.len());
                w.sim.feed(&bytes[off..e]);
                w.sim.settle();
                if stall.is_none() {
                    stall = w.sim.stalled();
                }
                off = e;
            }
            if off < bytes.len() {
                w.sim.feed(&bytes[off..]);
                w.sim.settle();
            }
        }
        Plan::Caps(sizes) => {
            {
                let mut r = w.sim.reader.0.borrow_mut();
                r.caps = sizes.iter().copied().collect();
            }
            w.sim.feed(bytes);
            w.sim.settle();
        }
        Plan::FixedCap(k) => {
            w.sim.reader.0.borrow_mut().default_cap = *k;
            w.sim.feed(bytes);
            w.sim.settle();
            w.sim.reader.0.borrow_mut().default_cap = usize::MAX;
        }
        Plan::FixedTrickle(k) => {
            let mut off = 0;
            while off < bytes.len() {
                let e = (off + k).min(bytes.len());
                w.sim.feed(&bytes[off..e]);
                w.sim.settle();
                if stall.is_none() {
                    stall = w.sim.stalled();
                }
                off = e;
            }
        }
    }
    if stall.is_none() {
        stall = w.sim.stalled();
    }
    stall
}

fn observe(w: &World, base: usize) -> Obs {
    let items = w.sim.streams.iter().flat_map(|s| s.items.iter().map(|m| (m.qos, m.topic.clone(), m.payload.len()))).collect();
    let wire = w.sim.writer.0.borrow().written[base..].to_vec();
    let results = w.sim.ops.iter().map(|o| o.out.as_ref().map(|x| x.brief()).unwrap_or_else(|| "pending".into())).collect();
    Obs { items, wire, results }
}

/// Runs one (sequence, plan) case; returns number of violations reported.
fn case(rep: &mut Rep, id: &str, seq: &[Item], plan: &Plan, reference: &Obs) -> usize {
    let (w, bytes, base) = build(rep.seed, seq);
    case_on(rep, id, seq, plan, reference, w, bytes, base)
}

/// The same Context served an earlier connection that ended (end-of-stream) after `cut` bytes of `prior`, i.e. possibly
/// in the middle of a packet; the bytes of the new connection must be framed as on a fresh client.
fn case_after_previous_connection(rep: &mut Rep, id: &str, seq: &[Item], plan: &Plan, reference: &Obs, prior_sizes: &[usize], cut: usize, one_read: bool) -> usize {
    let mut w = World::boot(WorldCfg { seed: rep.seed, ..Default::default() });
    w.sim.capture = Some(Vec::new());
    for (j, sz) in prior_sizes.iter().enumerate() {
        // QoS 0 without a subscription identifier: nothing observable is owed for it
        w.in_publish_sized(0, 0, false, &[], *sz + j);
    }
    let prior = w.sim.capture.take().unwrap();
    let cut = cut.min(prior.len());
    if one_read {
        w.sim.feed(&prior[..cut]);
    } else {
        for b in &prior[..cut] {
            w.sim.feed(&[*b]);
            w.sim.settle();
        }
    }
    w.settle_check();
    w.eof();
    w.settle_check();
    if w.sim.run_result().is_none() {
        w.viol(&["C03"], "C03/previous-connection-did-not-end".into(), "run() still pending after end-of-stream".into());
        return harvest(rep, &mut w, id);
    }
    // every second case records the disconnection first (hook H1; no session expiry interval was asked for, so the session has
    // expired) and has two messages arrive in the same transport read as the CONNACK of the new connection: what connect()
    // leaves in the receive buffer belongs to run()
    let recorded = (cut + prior_sizes.len() + one_read as usize) % 2 == 1;
    if recorded {
        rep.add("second_connections_with_packets_behind_the_connack", 1);
        w.resume_full(ResumeOpts { plain: false, secs_ago: 1, expect_expired: true, trailing: 2, ..Default::default() });
        w.settle_check();
    } else {
        w.resume_full(ResumeOpts { plain: true, ..Default::default() });
    }
    if w.blind {
        for v in w.viols.iter_mut() {
            if !v.props.contains(&"*") {
                v.props = &["C03"];
                v.sig = format!("C03/second-connection/{}", v.sig);
            }
        }
        rep.add("evaluations", 1);
        return harvest(rep, &mut w, id);
    }
    rep.add("second_connection_cases", 1);
    // inbound messages are numbered per World; restart the numbering so that topics and payloads equal the reference's
    w.inbound_seq = 0;
    let (w, bytes, base) = build_on(w, seq);
    case_on(rep, id, seq, plan, reference, w, bytes, base)
}

fn case_on(rep: &mut Rep, id: &str, seq: &[Item], plan: &Plan, reference: &Obs, mut w: World, bytes: Vec<u8>, base: usize) -> usize {
    let stall = deliver(&mut w, &bytes, plan);
    let mut n = 0;
    if let Some(s) = stall {
        w.viol(&["C03", "C16"], "C03/lost-wakeup".into(), format!("plan {}: {s}", brief_plan(plan)));
        w.blind = true;
    }
    if w.sim.run_result().is_some() && w.term.is_none() {
        let r = w.sim.run_result();
        let eof_seen = w.sim.reader.0.borrow().eof_signalled;
        w.viol(&["C03"], format!("C03/premature-end-of-stream/{}", match &r { Some(Err(e)) => e.kind(), _ => "Ok" }), format!("plan {}: run() returned {:?} although the transport never signalled end-of-stream (eof signalled: {eof_seen}); zero-length reads issued by the client: {}", brief_plan(plan), r, w.sim.reader.0.borrow().zero_len_reads));
        w.blind = true;
    }
    w.settle_check();
    finish(&mut w);
    let obs = observe(&w, base);
    if w.viols.is_empty() {
        if obs.items != reference.items {
            w.viol(&["C03"], "C03/stream-items-differ-from-reference-framing".into(), format!("plan {}: items {:?} vs reference {:?}", brief_plan(plan), obs.items, reference.items));
        } else if obs.wire != reference.wire {
            w.viol(&["C03"], "C03/acknowledgements-differ-from-reference-framing".into(), format!("plan {}: wire {:02x?} vs reference {:02x?}", brief_plan(plan), &obs.wire[..obs.wire.len().min(64)], &reference.wire[..reference.wire.len().min(64)]));
        } else if obs.results != reference.results {
            w.viol(&["C03"], "C03/completions-differ-from-reference-framing".into(), format!("plan {}: {:?} vs reference {:?}", brief_plan(plan), obs.results, reference.results));
        }
    }
    rep.add("evaluations", 1);
    rep.add("bytes_delivered", bytes.len() as i64);
    rep.add("transport_reads", w.sim.reader.0.borrow().reads as i64);
    rep.add("transport_pending_returns", w.sim.reader.0.borrow().pendings as i64);
    rep.add("packets_reassembled", seq.len() as i64);
    rep.distinct(&(seq, plan));
    // the World tags stall/other-property rules with several ids; C03 owns the framing consequences of chunking
    for v in w.viols.iter_mut() {
        if !v.props.contains(&"C03") && !v.props.contains(&"*") {
            v.props = &["C03"];
            v.sig = format!("C03/wrong-behaviour-under-chunking/{}", v.sig);
        }
    }
    n += harvest(rep, &mut w, id);
    add_counters(rep, &w);
    n
}

fn brief_plan(p: &Plan) -> String {
    match p {
        Plan::Trickle(v) if v.len() > 12 => format!("Trickle({:?}.. {} chunks)", &v[..12], v.len()),
        Plan::Caps(v) if v.len() > 12 => format!("Caps({:?}.. {} reads)", &v[..12], v.len()),
        x => format!("{x:?}"),
    }
}

fn reference(rep: &Rep, seq: &[Item]) -> Obs {
    // canonical: one read per packet, everything settles in between
    let (mut w, bytes, base) = build(rep.seed, seq);
    let mut off = 0;
    while off < bytes.len() {
        let n = crate::refcodec::frame(&bytes[off..]).ok().flatten().expect("harness: reference stream must split");
        w.sim.feed(&bytes[off..off + n]);
        w.sim.settle();
        off += n;
    }
    w.settle_check();
    finish(&mut w);
    observe(&w, base)
}

fn run_miri(rep: &mut Rep) {
    // Miri tier: a few chunkings per shard through the real reassembly code (BytesMut resize / split_to / freeze paths)
    rep.note("miri: per shard 6 PRNG compositions of a short stream and 3 cuts / read sizes of a 3 KiB stream");
    let mut rng = Rng::new(rep.seed.wrapping_mul(97).wrapping_add(rep.shard));
    let seq = vec![Item::Pub(1, 0), Item::PingResp, Item::Pub(2, 3), Item::Rel(2), Item::Puback];
    let (_, bytes, _) = build(rep.seed, &seq);
    let r = reference(rep, &seq);
    for k in 0..6 {
        let mut sizes = Vec::new();
        let mut left = bytes.len();
        while left > 0 {
            let s = 1 + rng.below(4);
            sizes.push(s);
            left = left.saturating_sub(s);
        }
        let plan = if k % 2 == 0 { Plan::Trickle(sizes) } else { Plan::Caps(sizes) };
        case(rep, &format!("miri-comp:{}:{k}", rep.shard), &seq, &plan, &r);
        rep.add("compositions", 1);
    }
    let seq2 = vec![Item::PingResp, Item::Pub(0, 600), Item::Pub(1, 1500), Item::PingResp];
    let (_, b2, _) = build(rep.seed, &seq2);
    let r2 = reference(rep, &seq2);
    for k in 0..3 {
        let plan = match k {
            0 => Plan::Trickle(vec![1 + rng.below(b2.len() - 1)]),
            1 => Plan::FixedCap(200 + rng.below(400)),
            _ => Plan::Caps(vec![510 + rng.below(5), 1, 2]),
        };
        case(rep, &format!("miri-long:{}:{k}", rep.shard), &seq2, &plan, &r2);
        rep.add("single_cuts", 1);
    }
}

pub fn run(rep: &mut Rep) {
    if rep.profile == "miri" {
        return run_miri(rep);
    }
    let mut idx = 0u64;
    // ---- exhaustive compositions of short streams
    let short: Vec<Vec<Item>> = vec![
        vec![Item::PingResp, Item::Puback, Item::PingResp, Item::Rel(9)],
        vec![Item::Pub(0, 1), Item::PingResp, Item::Rel(7)],
        vec![Item::Pub(1, 0), Item::PingResp, Item::PingResp],
        vec![Item::PingResp, Item::Pub(2, 1)],
        vec![Item::Suback, Item::PingResp],
    ];
    let maxn = if rep.quick() { 14 } else { 19 };
    for (si, seq) in short.iter().enumerate() {
        let (_, bytes, _) = build(rep.seed, seq);
        let n = bytes.len().min(maxn + 1);
        let refobs = reference(rep, seq);
        rep.note(&format!("short stream {si}: {:?} = {} bytes, all 2^{} compositions x {{trickle, read caps}}", seq, bytes.len(), n - 1));
        for mask in 0u64..(1u64 << (n - 1)) {
            // bit k set = cut after byte k
            let mut sizes = Vec::new();
            let mut run = 1;
            for k in 0..n - 1 {
                if mask >> k & 1 == 1 {
                    sizes.push(run);
                    run = 1;
                } else {
                    run += 1;
                }
            }
            sizes.push(run);
            for mode in 0..2 {
                let id = format!("comp:{si}:{mask}:{mode}");
                idx += 1;
                if !rep.take(idx, &id) {
                    continue;
                }
                let plan = if mode == 0 { Plan::Trickle(sizes.clone()) } else { Plan::Caps(sizes.clone()) };
                if case(rep, &id, seq, &plan, &refobs) == 0 {
                    rep.sample(|| format!("{id}: {:?} under {}", seq, brief_plan(&plan)));
                }
                rep.add("compositions", 1);
            }
        }
    }
    // ---- long streams: 1-, 2- and 3-byte remaining lengths
    let long: Vec<Item> = vec![
        Item::Pub(1, 100),
        Item::PingResp,
        Item::Pub(0, 300),
        Item::Pub(2, 700),
        Item::Rel(2),
        Item::Pub(1, 1500),
        Item::Puback,
        Item::Pub(0, 17000),
        Item::PingResp,
        Item::Pub(2, 20),
    ];
    let (_, lbytes, _) = build(rep.seed, &long);
    let lref = reference(rep, &long);
    let total = lbytes.len();
    rep.note(&format!("long stream: {} bytes, packets with 1-, 2- and 3-byte remaining length; every single cut position (step {}), every fixed read size 1..=1100 (step {}), as caps and as trickled chunks", total, if rep.quick() { 7 } else { 1 }, if rep.quick() { 3 } else { 1 }));
    let step = if rep.quick() { 7 } else { 1 };
    let mut cut = 1;
    while cut < total {
        for mode in 0..2 {
            let id = format!("cut:{cut}:{mode}");
            idx += 1;
            if rep.take(idx, &id) {
                let plan = if mode == 0 { Plan::Trickle(vec![cut]) } else { Plan::Caps(vec![cut]) };
                case(rep, &id, &long, &plan, &lref);
                rep.add("single_cuts", 1);
            }
        }
        cut += step;
    }
    let kstep = if rep.quick() { 3 } else { 1 };
    let mut k = 1;
    while k <= 1100 {
        for mode in 0..2 {
            let id = format!("fixed:{k}:{mode}");
            idx += 1;
            if rep.take(idx, &id) {
                let plan = if mode == 0 { Plan::FixedCap(k) } else { Plan::FixedTrickle(k) };
                if case(rep, &id, &long, &plan, &lref) == 0 {
                    rep.sample(|| format!("{id}: long stream under {plan:?}"));
                }
                rep.add("fixed_read_sizes", 1);
            }
        }
        k += kstep;
    }
    // ---- packet boundaries on / next to the client's own 512 / 1024 byte buffer steps:
    // everything available, reads limited only by the buffer the client offers
    for first in (480..=540).chain(990..=1050).chain(1500..=1560) {
        for follow in 0..3 {
            let id = format!("align:{first}:{follow}");
            idx += 1;
            if !rep.take(idx, &id) {
                continue;
            }
            let tail = match follow {
                0 => vec![Item::PingResp, Item::Pub(1, 10)],
                1 => vec![Item::Pub(0, 200), Item::PingResp],
                _ => vec![Item::Pub(2, 17000), Item::PingResp, Item::Pub(0, 0)],
            };
            let mut seq = vec![Item::Pub(0, first)];
            seq.extend(tail);
            let r = reference(rep, &seq);
            case(rep, &id, &seq, &Plan::Caps(vec![]), &r);
            case(rep, &format!("{id}:t"), &seq, &Plan::FixedTrickle(512), &r);
            rep.add("buffer_alignment_cases", 2);
        }
    }
    // ---- pairs of cuts in windows around the buffer steps, and PRNG compositions
    let nrand = if rep.quick() { 1500 } else { 40000 };
    for k in 0..nrand {
        let id = format!("rand:{k}");
        idx += 1;
        if !rep.take(idx, &id) {
            continue;
        }
        let mut rng = Rng::new(rep.seed.wrapping_mul(977).wrapping_add(k));
        let mut sizes = Vec::new();
        let style = rng.below(4);
        let mut left = total;
        while left > 0 {
            let s = match style {
                0 => 1 + rng.below(3),
                1 => 500 + rng.below(30),
                2 => *rng.pick(&[1usize, 2, 3, 510, 511, 512, 513, 1023, 1024, 1025, 2048, 5000]),
                _ => 1 + rng.below(2000),
            };
            sizes.push(s);
            left = left.saturating_sub(s);
            if sizes.len() > 30000 {
                break;
            }
        }
        let plan = if rng.chance(1, 2) { Plan::Trickle(sizes) } else { Plan::Caps(sizes) };
        case(rep, &id, &long, &plan, &lref);
        rep.add("random_compositions", 1);
    }
    // ---- a packet needing a 4-byte remaining length: cuts inside its fixed header (after 1..=6 bytes), and its
    // header straddling the client's own 512-byte read step (fillers of 500..=515 bytes in front, everything available)
    {
        let big = vec![Item::PingResp, Item::Pub(1, 2_100_000), Item::PingResp];
        let (_, bbytes, _) = build(rep.seed, &big);
        let bref = reference(rep, &big);
        // offset of the big packet inside the stream = length of the PINGRESP
        for cut in 1..=8usize {
            for mode in 0..2 {
                let id = format!("hdr4:{cut}:{mode}");
                idx += 1;
                if rep.take(idx, &id) {
                    let plan = if mode == 0 { Plan::Trickle(vec![2 + cut]) } else { Plan::Caps(vec![2 + cut]) };
                    case(rep, &id, &big, &plan, &bref);
                    rep.add("four_byte_remaining_length_cases", 1);
                }
            }
        }
        let fillers: Vec<usize> = if rep.quick() { (500..=515).collect() } else { (480..=540).chain(1000..=1040).collect() };
        for filler in fillers {
            let id = format!("hdr4-align:{filler}");
            idx += 1;
            if rep.take(idx, &id) {
                // PUBLISH QoS 0 with topic "i/0": 2 (fixed header) + 5 (topic) + 1 (property length) + 2 (sub id) = 10 bytes of overhead
                let seq = vec![Item::Pub(0, filler.saturating_sub(10)), Item::Pub(2, 2_100_000), Item::PingResp];
                let r = reference(rep, &seq);
                case(rep, &id, &seq, &Plan::Caps(vec![]), &r);
                rep.add("four_byte_remaining_length_cases", 1);
            }
        }
    }
    // ---- a backlog that is already there when the client starts reading: CONNACK and > 1 KiB of packets in one piece (a
    // broker flushing the queue of a resumed session), packet boundaries swept across the 1024-byte receive allocation
    {
        use crate::refcodec::{self as rc, CPacket, SPacket};
        let pads: Vec<usize> = if rep.quick() { (960..1040).collect() } else { (400..1100).chain(1900..2100).collect() };
        rep.note(&format!("backlog from the start: CONNACK + one QoS 1 PUBLISH of {}..{} bytes + 14 small QoS 1 PUBLISH packets fed in one piece before connect() reads anything (also: after 512 bytes consumed packet by packet), run() must acknowledge all of them in order and keep serving", pads[0], pads[pads.len() - 1]));
        for &pad in &pads {
            for variant in 0..2u8 {
                let id = format!("backlog:{pad}:{variant}");
                idx += 1;
                if !rep.take(idx, &id) {
                    continue;
                }
                let mut sim = crate::sim::Sim::new(rep.seed);
                sim.log_enabled = true;
                sim.cmd(crate::sim::Cmd::Connect(crate::spec::ConnSpec::default()));
                sim.settle();
                let mut bytes = Vec::new();
                let connack = SPacket::Connack { session_present: true, reason: 0, props: vec![] }.encode();
                let mk = |idp: u16, size: usize| SPacket::Publish(rc::Publish { dup: false, qos: 1, retain: false, topic: "t".into(), id: Some(idp), props: vec![], payload: vec![b'x'; size] }).encode();
                let mut want_ids: Vec<u16> = Vec::new();
                if variant == 0 {
                    bytes.extend_from_slice(&connack);
                } else {
                    // the CONNACK and then exactly 512 - 5 bytes of packets, each in a read of its own
                    sim.feed(&connack);
                    sim.settle();
                    sim.cmd(crate::sim::Cmd::Run);
                    sim.settle();
                    let p = mk(100, 507 - 7);
                    sim.feed(&p);
                    sim.settle();
                    want_ids.push(100);
                }
                bytes.extend_from_slice(&mk(1, pad));
                want_ids.push(1);
                for j in 0..14u16 {
                    bytes.extend_from_slice(&mk(2 + j, (j as usize * 3) % 11));
                    want_ids.push(2 + j);
                }
                sim.feed(&bytes);
                sim.settle();
                if variant == 0 {
                    sim.cmd(crate::sim::Cmd::Run);
                    sim.settle();
                }
                sim.parse_wire();
                let acks: Vec<u16> = sim.wire.iter().filter_map(|w| match &w.pkt { Ok(CPacket::Ack(a)) if a.kind == rc::AckKind::Puback => Some(a.id), _ => None }).collect();
                rep.add("evaluations", 1);
                rep.add("backlog_from_the_start_cases", 1);
                rep.add("bytes_delivered", bytes.len() as i64);
                rep.distinct(&("backlog", pad, variant));
                for p in sim.panics.clone() {
                    rep.violation(&format!("C03/panic/{p}"), &id, &format!("{p}\n{}", sim.tail_log(20)));
                }
                if let Some(r) = sim.run_result() {
                    rep.violation(&format!("C03/premature-end-of-stream/{}", match &r { Err(e) => e.kind(), _ => "Ok" }), &id, &format!("run() returned {:?} although the transport never signalled end-of-stream; {} of {} PUBLISH packets acknowledged, {} bytes unread; zero-length reads issued by the client: {}\n{}", r, acks.len(), want_ids.len(), sim.unread(), sim.reader.0.borrow().zero_len_reads, sim.tail_log(12)));
                } else if let Some(st) = sim.stalled() {
                    rep.violation("C03/lost-wakeup", &id, &format!("{st}\n{}", sim.tail_log(12)));
                } else if acks != want_ids {
                    rep.violation("C03/acknowledgements-differ-from-reference-framing", &id, &format!("PUBACKs written {:?}, expected {:?}\n{}", acks, want_ids, sim.tail_log(12)));
                }
            }
        }
    }
    // ---- the shortest packets (2-4 bytes), every byte value in their last position, each in a read of its own with
    // nothing behind it: a complete packet in the buffer is handed out whatever its bytes look like
    {
        rep.note("shortest packets alone: PUBACK / PUBREC / PUBCOMP (remaining length 2) for packet identifiers whose low byte sweeps 0x00..0xff (hook H2), PUBREL likewise, server DISCONNECT with a 1-byte reason >= 0x80, each delivered in a read of its own and, for comparison, followed by a PINGRESP in the same read");
        for hi in [0u16, 0x80] {
            for lo_base in (0..256u16).step_by(8) {
                for follow in [false, true] {
                    let id = format!("tiny:{hi}:{lo_base}:{}", follow as u8);
                    idx += 1;
                    if !rep.take(idx, &id) {
                        continue;
                    }
                    let first = ((hi << 8) | lo_base).max(1);
                    let mut w = World::boot(WorldCfg { seed: rep.seed, seed_ids: Some((first, 1)), ..Default::default() });
                    let mut ops = Vec::new();
                    for j in 0..8usize {
                        ops.push(w.start(j % 2, if j % 2 == 0 { Kind::Pub1 } else { Kind::Pub2 }));
                        w.settle_check();
                    }
                    for &i in &ops {
                        if !w.ackable().contains(&(i, 1)) {
                            continue;
                        }
                        if follow {
                            w.start(0, Kind::Ping);
                            w.settle_check();
                            w.sim.capture = Some(Vec::new());
                            w.deliver_ack(i, 1, 0, 0);
                            w.pingresp();
                            let b = w.sim.capture.take().unwrap();
                            w.sim.feed(&b);
                        } else {
                            w.deliver_ack(i, 1, 0, 0);
                        }
                        w.settle_check();
                        if w.ackable().contains(&(i, 2)) {
                            w.deliver_ack(i, 2, 0, 0);
                            w.settle_check();
                        }
                    }
                    for j in 0..8u16 {
                        w.in_pubrel(first.wrapping_add(j).max(1));
                        w.settle_check();
                    }
                    if lo_base % 16 == 0 {
                        w.server_disconnect(0x8b, 1, false);
                        w.settle_check();
                    }
                    finish(&mut w);
                    rep.add("evaluations", 1);
                    rep.add("shortest_packet_cases", 1);
                    rep.distinct(&("tiny", hi, lo_base, follow));
                    for v in w.viols.iter_mut() {
                        if !v.props.contains(&"C03") && !v.props.contains(&"*") {
                            v.props = &["C03"];
                            v.sig = format!("C03/wrong-behaviour-under-chunking/{}", v.sig);
                        }
                    }
                    harvest(rep, &mut w, &id);
                    add_counters(rep, &w);
                }
            }
        }
    }
    // ---- long runs of small packets: hundreds of packets consumed back to back without the transport ever running dry
    {
        let ns: Vec<usize> = if rep.quick() { vec![100, 129, 300, 1100, 7000] } else { vec![64, 65, 127, 128, 129, 130, 255, 256, 257, 300, 513, 1025, 5000, 7000, 20_000, 70_000] };
        rep.note(&format!("long runs of small packets: {:?} packets (QoS 0/1 PUBLISH of 2-9 bytes payload, PINGRESP every 10th) available at once / in reads of <= 512, 64, 7 bytes / arriving in chunks of 100 bytes, compared with one packet per read", ns));
        for &n in &ns {
            let mut seq = Vec::with_capacity(n);
            for j in 0..n {
                seq.push(if j % 10 == 9 { Item::PingResp } else if j % 3 == 1 { Item::Pub(1, 2 + j % 8) } else { Item::Pub(0, 2 + j % 8) });
            }
            let r = reference(rep, &seq);
            for (pi, plan) in [Plan::Caps(vec![]), Plan::FixedCap(512), Plan::FixedCap(64), Plan::FixedCap(7), Plan::FixedTrickle(100)].iter().enumerate() {
                let id = format!("run:{n}:{pi}");
                idx += 1;
                if rep.take(idx, &id) {
                    case(rep, &id, &seq, plan, &r);
                    rep.add("long_runs_of_small_packets", 1);
                }
            }
        }
    }
    // ---- the same Context after an earlier connection that ended inside a packet (or with whole packets unread behind the cut)
    {
        let seq = vec![Item::PingResp, Item::Pub(1, 30), Item::Pub(0, 600), Item::PingResp];
        let r = reference(rep, &seq);
        let prior = [20usize, 40];
        // the two prior packets are 2+5+1+20 = 28+ and 2+5+1+41 bytes long
        let total_prior = 28 + 49;
        rep.note(&format!("second connection: the same Context first serves a connection that ends (end-of-stream) after each of the first {total_prior} bytes of two small packets - delivered in one read or byte by byte - then is connected again on a fresh transport: the new connection's bytes are framed as on a fresh client (CONNACK accepted, same items / acknowledgements / completions as the reference)"));
        for cut in 0..=total_prior {
            for one_read in [true, false] {
                let id = format!("prev:{cut}:{}", one_read as u8);
                idx += 1;
                if !rep.take(idx, &id) {
                    continue;
                }
                let plan = if cut % 2 == 0 { Plan::Caps(vec![]) } else { Plan::FixedTrickle(3) };
                case_after_previous_connection(rep, &id, &seq, &plan, &r, &prior, cut, one_read);
            }
        }
    }
    // ---- thorough: one packet needing a 4-byte remaining length under more plans
    if !rep.quick() {
        let seq = vec![Item::PingResp, Item::Pub(1, 2_100_000), Item::PingResp, Item::Pub(0, 5)];
        let r = reference(rep, &seq);
        for (k, plan) in [Plan::Caps(vec![]), Plan::FixedCap(1000), Plan::FixedTrickle(65536), Plan::Trickle(vec![1, 1, 1, 1, 1, 1]), Plan::Caps(vec![3, 1, 1, 2_000_000])].iter().enumerate() {
            let id = format!("huge:{k}");
            idx += 1;
            if rep.take(idx, &id) {
                case(rep, &id, &seq, plan, &r);
                rep.add("four_byte_remaining_length_cases", 1);
            }
        }
    }
}
