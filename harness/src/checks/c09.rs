//! C09 — an inbound QoS 2 message is delivered to the application exactly once.

use super::script::*;
use super::{add_counters, harvest, walk_world};
use crate::report::Rep;
use crate::world::*;

#[derive(Clone, Copy, Debug, Hash, PartialEq, Eq)]
enum Q2 {
    Pub(u16, bool),
    Rel(u16),
}

/// Many inbound QoS 2 exchanges open at once: N messages delivered, all re-delivered (DUP=1), released in PRNG order,
/// the identifiers reused for new messages. Used by C09 (exactly-once on the stream) and C08 (acknowledgements).
pub fn wide(rep: &mut Rep, base_idx: u64) {
    let ns: Vec<usize> = if rep.quick() { vec![9, 17, 33, 65, 129, 300] } else { vec![7, 8, 9, 15, 16, 17, 31, 32, 33, 63, 64, 65, 127, 128, 129, 255, 256, 257, 1000, 4000] };
    rep.note(&format!("wide: {:?} inbound QoS 2 exchanges open at once (identifiers spread over the 16-bit range), each message re-delivered with DUP=1 once or twice, PUBRELs in PRNG order (some twice), then the identifiers reused for new messages", ns));
    let mut idx = base_idx;
    for (ni, &n) in ns.iter().enumerate() {
        for variant in 0..2u64 {
            let id = format!("wide:{n}:{variant}");
            idx += 1;
            if !rep.take(idx, &id) {
                continue;
            }
            let mut rng = crate::sim::Rng::new(rep.seed.wrapping_mul(313).wrapping_add(ni as u64 * 2 + variant));
            let mut w = World::boot(WorldCfg { seed: rep.seed.wrapping_add(ni as u64), receive_max: if variant == 1 { Some(3) } else { None }, ..Default::default() });
            w.sim.log_enabled = n <= 40;
            let a = w.start(0, Kind::Sub);
            w.settle_check();
            w.deliver_ack(a, 1, 0, 0);
            w.settle_check();
            w.take_stream(a);
            let sid = w.sub_id_of(a).unwrap_or(1);
            let stride = if variant == 0 { 1usize } else { 65535 / n.max(1) };
            let ids: Vec<u16> = (0..n).map(|j| (1 + j * stride.max(1)).min(65535) as u16).collect();
            for &p in &ids {
                w.in_publish(2, p, false, &[sid], false);
                w.settle();
            }
            w.settle_check();
            for (j, &p) in ids.iter().enumerate() {
                w.in_publish(2, p, true, &[sid], false);
                if j % 5 == 0 {
                    w.in_publish(2, p, true, &[sid], false);
                }
                w.settle();
            }
            w.settle_check();
            let mut order = ids.clone();
            for j in (1..order.len()).rev() {
                order.swap(j, rng.below(j + 1));
            }
            for (j, &p) in order.iter().enumerate() {
                w.in_pubrel(p);
                if j % 7 == 0 {
                    w.in_pubrel(p);
                }
                w.settle();
                if j % 64 == 0 {
                    w.settle_check();
                }
            }
            w.settle_check();
            for &p in ids.iter().take(40) {
                w.in_publish(2, p, false, &[sid], false);
                w.settle();
            }
            w.settle_check();
            finish(&mut w);
            rep.add("evaluations", 1);
            rep.add("wide_cases", 1);
            rep.max("max_inbound_qos2_exchanges_open_at_once", n as i64);
            rep.distinct(&("wide", n, variant));
            if harvest(rep, &mut w, &id) == 0 {
                rep.sample(|| format!("{id}: {} stream items, {} re-deliveries suppressed, {} acknowledgements matched", w.m[a].expected_items.len(), w.counters.redeliveries, w.counters.inbound_acks_matched));
            }
            add_counters(rep, &w);
        }
    }
}

/// The two directions number their packets independently: the client's own QoS 2 (or QoS 1) publish may carry the identifier
/// of an inbound QoS 2 message that still waits for its PUBREL. Completing the one must not touch the other: a re-delivery
/// of the inbound message stays a re-delivery. Also the other way round: an inbound QoS 1 message under identifier N says
/// nothing about a later inbound QoS 2 message under N.
pub fn shared_identifiers(rep: &mut Rep, base_idx: u64, prop: &'static str) {
    rep.note("identifier used in both directions: an inbound QoS 2 message under identifier N in {2, 3, 4} waiting for PUBREL, the client's own QoS 2 / QoS 1 publish under the same N carried to completion (or refused), then the re-delivery (not yielded again), PUBREL, and a new message under N (yielded); and inbound QoS 1 under N followed by a first QoS 2 delivery under N");
    let mut idx = base_idx;
    for n in [2u16, 3, 4] {
        for own_q2 in [true, false] {
            for outcome in 0..3u8 {
                let id = format!("shared-id:{n}:{}:{outcome}", own_q2 as u8);
                idx += 1;
                if !rep.take(idx, &id) {
                    continue;
                }
                let mut w = World::boot(WorldCfg { seed: rep.seed, sei: Some(3600), ..Default::default() });
                let a = w.start(0, Kind::Sub);
                w.settle_check();
                w.deliver_ack(a, 1, 0, 0);
                w.settle_check();
                w.take_stream(a);
                let sid = w.sub_id_of(a).unwrap_or(1);
                // inbound QoS 1 under N first: acknowledged and done with
                w.in_publish(1, n, false, &[sid], false);
                w.settle_check();
                // first QoS 2 delivery under N
                w.in_publish(2, n, false, &[sid], false);
                w.settle_check();
                // the client's own publishes until one carries N
                let mut hit = false;
                for _ in 0..6 {
                    let b = w.start(1, if own_q2 { Kind::Pub2 } else { Kind::Pub1 });
                    w.settle_check();
                    let mine = w.m[b].pkt_id == Some(n);
                    // outcome 0: success, 1: refused at the first acknowledgement, 2: success with full-form acknowledgements
                    let ridx = if mine && outcome == 1 { 2 } else { 0 };
                    w.deliver_ack(b, 1, ridx, if outcome == 2 { 1 } else { 0 });
                    w.settle_check();
                    if own_q2 && ridx == 0 {
                        w.deliver_ack(b, 2, 0, if outcome == 2 { 1 } else { 0 });
                        w.settle_check();
                    }
                    if mine {
                        hit = true;
                        break;
                    }
                }
                if hit {
                    rep.add("identifier_shared_between_directions_cases", 1);
                }
                // the broker has not seen our PUBREC / sends the message again
                w.in_publish(2, n, true, &[sid], false);
                w.settle_check();
                w.in_pubrel(n);
                w.settle_check();
                w.in_publish(2, n, false, &[sid], false);
                w.settle_check();
                w.in_publish(1, n, false, &[sid], false);
                w.settle_check();
                w.in_publish(2, n, true, &[sid], false);
                w.settle_check();
                w.in_pubrel(n);
                w.settle_check();
                finish(&mut w);
                rep.add("evaluations", 1);
                rep.distinct(&("shared-id", n, own_q2, outcome));
                for v in w.viols.iter_mut() {
                    if v.sig.starts_with("stream/") && !v.props.contains(&prop) {
                        v.props = if prop == "C07" { &["C07"] } else { &["C09"] };
                    }
                }
                if harvest(rep, &mut w, &id) == 0 {
                    rep.sample(|| format!("{id}: own publish under the identifier of an unreleased inbound message: {hit}; {} items checked", w.counters.stream_items_checked));
                }
                add_counters(rep, &w);
            }
        }
    }
}

/// A broker may list a subscription identifier more than once in one PUBLISH (overlapping filters of one SUBSCRIBE), in any
/// order with other identifiers in between: the stream still yields the message once.
pub fn repeated_identifiers(rep: &mut Rep, base_idx: u64, prop: &'static str) {
    let patterns: [&[usize]; 7] = [&[0, 1, 0], &[0, 0, 1], &[1, 0, 1, 0], &[0, 1, 1, 0], &[0, 1, 0, 1, 0], &[0, 2, 1, 2, 0], &[2, 2, 0, 2]];
    rep.note(&format!("repeated identifiers: three subscriptions (one of them with its stream dropped in half of the cases), QoS 0/1/2 messages whose subscription identifiers follow the patterns {:?}, QoS 2 ones delivered again before PUBREL: each live stream yields each message once", patterns));
    let mut idx = base_idx;
    for (pi, pat) in patterns.iter().enumerate() {
        for qos in 0..3u8 {
            for drop_one in [false, true] {
                let id = format!("repeated-ids:{pi}:{qos}:{}", drop_one as u8);
                idx += 1;
                if !rep.take(idx, &id) {
                    continue;
                }
                let mut w = World::boot(WorldCfg { seed: rep.seed, ..Default::default() });
                let mut sids = Vec::new();
                let mut subs = Vec::new();
                for j in 0..3usize {
                    let a = w.start(j % 2, Kind::Sub);
                    w.settle_check();
                    w.deliver_ack(a, 1, 0, 0);
                    w.settle_check();
                    w.take_stream(a);
                    sids.push(w.sub_id_of(a).unwrap_or(1 + j as u32));
                    subs.push(a);
                }
                if drop_one {
                    w.drop_stream(subs[2]);
                    w.settle_check();
                }
                let ids: Vec<u32> = pat.iter().map(|&k| sids[k]).collect();
                for round in 0..2u16 {
                    w.in_publish(qos, 20 + round, false, &ids, false);
                    w.settle_check();
                    if qos == 2 {
                        w.in_publish(2, 20 + round, true, &ids, false);
                        w.settle_check();
                        w.in_pubrel(20 + round);
                        w.settle_check();
                    }
                }
                finish(&mut w);
                rep.add("evaluations", 1);
                rep.add("repeated_identifier_cases", 1);
                rep.distinct(&("repeated-ids", pi, qos, drop_one));
                for v in w.viols.iter_mut() {
                    if v.sig.starts_with("stream/") && !v.props.contains(&prop) {
                        v.props = if prop == "C07" { &["C07"] } else { &["C09"] };
                    }
                }
                if harvest(rep, &mut w, &id) == 0 {
                    rep.sample(|| format!("{id}: {} items checked", w.counters.stream_items_checked));
                }
                add_counters(rep, &w);
            }
        }
    }
}

/// The application gives up on run() (drops its future) while the acknowledgement of a first QoS 2 delivery is waiting for
/// the transport to take it, and calls run() again; the broker, having seen no PUBREC, delivers the message again. Whatever
/// the client had done with the first delivery before it was interrupted, the stream ends up with the message exactly once.
fn run_given_up_while_acknowledging(rep: &mut Rep) {
    use crate::sim::Cmd;
    rep.note("run() given up while acknowledging: the transport accepts nothing (or 1-3 bytes) of the PUBREC for a first QoS 2 delivery, the run() future is dropped there, the transport recovers, run() is called again, the broker re-delivers (DUP), releases, and reuses the identifier: each message once in the stream");
    let mut idx = 8_950_000u64;
    for accept in 0..4usize {
        for before in 0..2usize {
            for redeliveries in 1..=2usize {
                let id = format!("rerun-while-acking:{accept}:{before}:{redeliveries}");
                idx += 1;
                if !rep.take(idx, &id) {
                    continue;
                }
                let mut w = World::boot(WorldCfg { seed: rep.seed, ..Default::default() });
                let a = w.start(0, Kind::Sub);
                w.settle_check();
                w.deliver_ack(a, 1, 0, 0);
                w.settle_check();
                w.take_stream(a);
                let sid = w.sub_id_of(a).unwrap_or(1);
                for j in 0..before {
                    w.in_publish(2, 30 + j as u16, false, &[sid], false);
                    w.settle_check();
                }
                let at = w.sim.written_len() + accept;
                w.sim.writer.0.borrow_mut().stall_at = Some(at);
                w.in_publish(2, 5, false, &[sid], false);
                w.sim.settle();
                let stuck = w.sim.ctx_in_call() == Some("run") && w.sim.written_len() == at;
                w.sim.cancel_run();
                w.sim.settle();
                w.sim.writer.0.borrow_mut().stall_at = None;
                // (with some bytes of the PUBREC accepted the wire is torn; a broker would drop the connection - only the
                // untorn case goes on)
                if accept == 0 && stuck {
                    w.sim.cmd(Cmd::Run);
                    w.sim.settle();
                    // the model had counted on a PUBREC for the first delivery; none was written, none is owed any more
                    w.expected_acks.clear();
                    for _ in 0..redeliveries {
                        w.in_publish(2, 5, true, &[sid], false);
                        w.settle_check();
                    }
                    w.in_pubrel(5);
                    w.settle_check();
                    w.in_publish(2, 5, false, &[sid], false);
                    w.settle_check();
                    w.in_pubrel(5);
                    w.settle_check();
                    rep.add("run_given_up_while_acknowledging_cases", 1);
                } else {
                    w.blind = true;
                }
                finish(&mut w);
                rep.add("evaluations", 1);
                rep.distinct(&("rerun-while-acking", accept, before, redeliveries));
                for v in w.viols.iter_mut() {
                    if v.sig.starts_with("stream/") && !v.props.contains(&"C09") {
                        v.props = &["C09"];
                    }
                }
                if harvest(rep, &mut w, &id) == 0 {
                    rep.sample(|| format!("{id}: stuck in the PUBREC write = {stuck}; {} items checked", w.counters.stream_items_checked));
                }
                add_counters(rep, &w);
            }
        }
    }
}

pub fn run(rep: &mut Rep) {
    run_given_up_while_acknowledging(rep);
    shared_identifiers(rep, 8_800_000, "C09");
    repeated_identifiers(rep, 8_900_000, "C09");
    wide(rep, 700_000_000);
    let mut alpha = Vec::new();
    for id in [1u16, 2, 3] {
        alpha.push(Q2::Pub(id, false));
        alpha.push(Q2::Pub(id, true));
        alpha.push(Q2::Rel(id));
    }
    let n = alpha.len() as u64;
    let len = if rep.quick() { 5 } else { 8 };
    let total = n.pow(len);
    rep.note(&format!("exhaustive: all {total} sequences of length {len} over {{PUBLISH(QoS 2, three identifiers, DUP 0/1), PUBREL}} (identifier triples rotating through 1/2/3, 5/0x105/0x205, 0xff/0xff00/0xffff, 7/2/0x702) delivered to a client with one live stream (CONNACK limits rotating through none / Receive Maximum 1 / Receive Maximum 2 + Maximum Packet Size 200); stream items compared with the model's set of distinct QoS 2 messages after every packet"));
    for idx in 0..total {
        let id = format!("exh:{len}:{idx}");
        if !rep.take(idx, &id) {
            continue;
        }
        let mut seq = Vec::new();
        let mut k = idx;
        for _ in 0..len {
            seq.push(alpha[(k % n) as usize]);
            k /= n;
        }
        // the broker's own limits (Receive Maximum 1 / 2, a Maximum Packet Size) bind what the client sends, not what it receives
        let (rmax, mps) = [(None, None), (Some(1u16), None), (Some(2), Some(200u32)), (None, None)][(idx % 4) as usize];
        let mut w = World::boot(WorldCfg { seed: rep.seed, receive_max: rmax, max_packet: mps, ..Default::default() });
        let a = w.start(0, Kind::Sub);
        w.settle_check();
        w.deliver_ack(a, 1, 0, 0);
        w.settle_check();
        w.take_stream(a);
        let sid = w.sub_id_of(a).unwrap_or(1);
        // the three identifiers are 1,2,3 or values that agree in their low byte / are byte-swapped / sit at the top of the range
        let idset: [u16; 3] = [[1, 2, 3], [5, 0x0105, 0x0205], [0x00ff, 0xff00, 0xffff], [7, 2, 0x0702]][((idx / 4) % 4) as usize];
        for s in &seq {
            match *s {
                Q2::Pub(id, dup) => w.in_publish(2, idset[(id - 1) as usize], dup, &[sid], false),
                Q2::Rel(id) => w.in_pubrel(idset[(id - 1) as usize]),
            }
            w.settle_check();
        }
        finish(&mut w);
        rep.add("evaluations", 1);
        rep.distinct(&(&seq, w.shape()));
        if harvest(rep, &mut w, &id) == 0 {
            rep.sample(|| format!("{:?} -> {} stream items, {} redeliveries suppressed", seq, w.m[a].expected_items.len(), w.counters.redeliveries));
        }
        add_counters(rep, &w);
    }
    // the connection is cut and the session resumed (hook H1) in the middle of the sequence: the set of unreleased
    // identifiers is session state and survives
    let rlen = if rep.quick() { 4 } else { 6 };
    let rtotal = n.pow(rlen);
    rep.note(&format!("resumption: all {rtotal} sequences of length {rlen}, each with the connection cut and the (unexpired) session resumed after every prefix"));
    for idx in 0..rtotal {
        for cut in 0..=rlen as usize {
            let id = format!("res:{rlen}:{idx}:{cut}");
            if !rep.take(total + idx * 8 + cut as u64, &id) {
                continue;
            }
            let mut seq = Vec::new();
            let mut k = idx;
            for _ in 0..rlen {
                seq.push(alpha[(k % n) as usize]);
                k /= n;
            }
            let mut w = World::boot(WorldCfg { seed: rep.seed, sei: Some(3600), ..Default::default() });
            let a = w.start(0, Kind::Sub);
            w.settle_check();
            w.deliver_ack(a, 1, 0, 0);
            w.settle_check();
            w.take_stream(a);
            let sid = w.sub_id_of(a).unwrap_or(1);
            for (pos, s) in seq.iter().enumerate() {
                if pos == cut {
                    w.eof();
                    w.settle_check();
                    w.resume(1, Some(3600), false);
                }
                match *s {
                    Q2::Pub(id, dup) => w.in_publish(2, id, dup, &[sid], false),
                    Q2::Rel(id) => w.in_pubrel(id),
                }
                w.settle_check();
            }
            if cut == seq.len() {
                w.eof();
                w.settle_check();
                w.resume(1, Some(3600), false);
                w.in_publish(2, 1, true, &[sid], false);
                w.settle_check();
            }
            finish(&mut w);
            rep.add("evaluations", 1);
            rep.add("sequences_with_resumption", 1);
            rep.distinct(&(&seq, cut, w.shape()));
            // only the exactly-once delivery is C09's business here
            for v in w.viols.iter_mut() {
                if v.sig.starts_with("stream/") && !v.props.contains(&"C09") {
                    v.props = &["C09"];
                }
            }
            harvest(rep, &mut w, &id);
            add_counters(rep, &w);
        }
    }
    // the PUBREC cannot be written (transport write error 0-3 bytes into it, or into the PUBCOMP of an earlier exchange):
    // run() ends, the session is resumed, the broker re-delivers with DUP=1 - still exactly once in total
    rep.note("acknowledgement write failure: the write of the PUBREC (or of a PUBCOMP) fails after 0-3 bytes, run() ends, the session is resumed, the broker re-delivers the unacknowledged messages with DUP=1 (once or twice) and releases them: every message on the stream exactly once across both connections");
    let mut fidx = total + 40_000_000;
    for fail_at in 0..4usize {
        for before in 0..3usize {
            for target in 0..2u8 {
                let id = format!("ackfail:{fail_at}:{before}:{target}");
                fidx += 1;
                if !rep.take(fidx, &id) {
                    continue;
                }
                let mut w = World::boot(WorldCfg { seed: rep.seed, sei: Some(3600), ..Default::default() });
                let a = w.start(0, Kind::Sub);
                w.settle_check();
                w.deliver_ack(a, 1, 0, 0);
                w.settle_check();
                w.take_stream(a);
                let sid = w.sub_id_of(a).unwrap_or(1);
                for j in 0..before {
                    w.in_publish(2, 10 + j as u16, false, &[sid], false);
                    w.settle_check();
                }
                let at = w.sim.written_len() + fail_at;
                w.sim.writer.0.borrow_mut().err_at = Some(at);
                w.sim.note(|| format!("transport: writes fail from offset {at}"));
                w.term = Some(Term::WriteErr);
                let pubcomp_fails = target == 1 && before > 0;
                if !pubcomp_fails {
                    w.in_publish(2, 5, false, &[sid], false);
                } else {
                    // the failing write is the PUBCOMP of an earlier exchange
                    w.in_pubrel(10);
                }
                w.settle_check();
                let resumed = w.resume(1, Some(3600), false);
                w.settle_check();
                if resumed && !w.blind {
                    if pubcomp_fails {
                        // the broker saw no PUBCOMP: it releases again; then a first delivery of message 5
                        w.in_pubrel(10);
                        w.settle_check();
                        w.in_publish(2, 5, false, &[sid], false);
                        w.settle_check();
                    }
                    // what the broker re-delivers: everything it has no PUBREC for
                    w.in_publish(2, 5, true, &[sid], false);
                    w.settle_check();
                    if fail_at % 2 == 1 {
                        w.in_publish(2, 5, true, &[sid], false);
                        w.settle_check();
                    }
                    w.in_pubrel(5);
                    w.settle_check();
                    for j in 0..before {
                        w.in_pubrel(10 + j as u16);
                        w.settle_check();
                    }
                    w.in_publish(2, 5, false, &[sid], false);
                    w.settle_check();
                }
                finish(&mut w);
                rep.add("evaluations", 1);
                rep.add("ack_write_failure_cases", 1);
                rep.distinct(&("ackfail", fail_at, before, target));
                for v in w.viols.iter_mut() {
                    if v.sig.starts_with("stream/") && !v.props.contains(&"C09") {
                        v.props = &["C09"];
                    }
                }
                harvest(rep, &mut w, &id);
                add_counters(rep, &w);
            }
        }
    }
    // a message carrying several subscription identifiers, some of whose streams were dropped (the client notices a
    // dropped stream only when it next routes to it): exactly once on every live stream, also across re-deliveries
    rep.note("several identifiers: QoS 2 PUBLISH carrying the identifiers of 2-3 subscriptions of which any subset has a dropped (not yet noticed) stream, in every order, re-delivered before PUBREL, released, identifier reused");
    let mut midx = total + 48_000_000;
    for nsubs in 2..=3usize {
        for dropped_mask in 0..(1u32 << nsubs) {
            for perm in 0..(if nsubs == 2 { 2 } else { 6 }) {
                let id = format!("multi:{nsubs}:{dropped_mask}:{perm}");
                midx += 1;
                if !rep.take(midx, &id) {
                    continue;
                }
                let mut w = World::boot(WorldCfg { seed: rep.seed, ..Default::default() });
                let mut subs = Vec::new();
                for j in 0..nsubs {
                    let a = w.start(j % 2, Kind::Sub);
                    w.settle_check();
                    w.deliver_ack(a, 1, 0, 0);
                    w.settle_check();
                    w.take_stream(a);
                    subs.push(a);
                }
                for (j, &a) in subs.iter().enumerate() {
                    if dropped_mask >> j & 1 == 1 {
                        w.drop_stream(a);
                    }
                }
                w.settle_check();
                let orders2 = [[0usize, 1, 0], [1, 0, 0]];
                let orders3 = [[0usize, 1, 2], [0, 2, 1], [1, 0, 2], [1, 2, 0], [2, 0, 1], [2, 1, 0]];
                let ord: Vec<usize> = if nsubs == 2 { orders2[perm][..2].to_vec() } else { orders3[perm].to_vec() };
                let sids: Vec<u32> = ord.iter().map(|&j| w.sub_id_of(subs[j]).unwrap_or(1)).collect();
                for round in 0..2u16 {
                    w.in_publish(2, 10, false, &sids, false);
                    w.settle_check();
                    w.in_publish(2, 10, true, &sids, false);
                    w.settle_check();
                    if round == 0 {
                        w.in_publish(2, 10, false, &sids, false);
                        w.settle_check();
                    }
                    w.in_pubrel(10);
                    w.settle_check();
                }
                finish(&mut w);
                rep.add("evaluations", 1);
                rep.add("several_identifier_cases", 1);
                rep.distinct(&("multi", nsubs, dropped_mask, perm));
                for v in w.viols.iter_mut() {
                    if v.sig.starts_with("stream/") && !v.props.contains(&"C09") {
                        v.props = &["C09"];
                    }
                }
                harvest(rep, &mut w, &id);
                add_counters(rep, &w);
            }
        }
    }
    // a session that has expired takes its unreleased identifiers with it: in the new session the same numbers belong to
    // new messages (DUP=0), each of which is delivered exactly once again
    rep.note("expired session: 1-3 inbound QoS 2 exchanges left unreleased, connection lost, session expired at reconnection (interval 0 / absent / elapsed), new subscription, the same identifiers reused for new messages, re-delivered once with DUP=1, released");
    let mut eidx = total + 45_000_000;
    for unreleased in 1..=3u16 {
        for (vi, (sei, ago)) in [(None, 1u64), (Some(0u32), 1), (Some(100), 1000)].iter().enumerate() {
            let id = format!("expired:{unreleased}:{vi}");
            eidx += 1;
            if !rep.take(eidx, &id) {
                continue;
            }
            let mut w = World::boot(WorldCfg { seed: rep.seed, sei: *sei, ..Default::default() });
            let s0 = w.start(0, Kind::Sub);
            w.settle_check();
            w.deliver_ack(s0, 1, 0, 0);
            w.settle_check();
            w.take_stream(s0);
            let sid0 = w.sub_id_of(s0).unwrap_or(1);
            for p in 1..=unreleased {
                w.in_publish(2, p, false, &[sid0], false);
                w.settle_check();
            }
            w.eof();
            w.settle_check();
            w.resume_full(ResumeOpts { secs_ago: *ago, sei: *sei, expect_expired: true, ..Default::default() });
            w.settle_check();
            if !w.blind {
                let s1 = w.start(0, Kind::Sub);
                w.settle_check();
                if w.m[s1].pkt_id.is_some() {
                    w.deliver_ack(s1, 1, 0, 0);
                    w.settle_check();
                    w.take_stream(s1);
                    let sid1 = w.sub_id_of(s1).unwrap_or(2);
                    for p in 1..=unreleased + 1 {
                        w.in_publish(2, p, false, &[sid1], false);
                        w.settle_check();
                        w.in_publish(2, p, true, &[sid1], false);
                        w.settle_check();
                    }
                    for p in 1..=unreleased + 1 {
                        w.in_pubrel(p);
                        w.settle_check();
                    }
                }
            }
            finish(&mut w);
            rep.add("evaluations", 1);
            rep.add("expired_session_cases", 1);
            rep.distinct(&("expired", unreleased, vi));
            for v in w.viols.iter_mut() {
                if v.sig.starts_with("stream/") && !v.props.contains(&"C09") {
                    v.props = &["C09"];
                }
            }
            harvest(rep, &mut w, &id);
            add_counters(rep, &w);
        }
    }
    // interleaved with QoS 0/1 traffic and client operations
    let a = Alpha {
        kinds: vec![Kind::Sub, Kind::Pub1, Kind::Pub2, Kind::Ping],
        max_ops: 200,
        max_conc: 4,
        inbound: vec![
            (2, 1, false, SubSel::Op(0)),
            (2, 1, true, SubSel::Op(0)),
            (2, 2, false, SubSel::Op(0)),
            (2, 2, true, SubSel::Op(1)),
            (2, 65535, true, SubSel::Op(0)),
            (2, 256, false, SubSel::Both),
            (1, 1, false, SubSel::Op(0)),
            (0, 0, false, SubSel::Op(0)),
            (2, 3, false, SubSel::Absent),
        ],
        pubrels: vec![1, 2, 3, 256, 65535],
        max_inbound: 500,
        streams: true,
        ..Default::default()
    };
    let walks = if rep.quick() { 200 } else { 4000 };
    walk_world(rep, "walk", walks, if rep.quick() { 250 } else { 600 }, &|s| World::boot(WorldCfg { seed: s, order: (s % 4) as u8, ..Default::default() }), &a);
    let mut wr = a.clone();
    wr.terms = vec![TermAct::Eof, TermAct::ReadErr, TermAct::ServerDisconnect { reason: 0x8b, form: 2, props: false }];
    wr.reconnect = true;
    rep.note("walks across connections: the same alphabet plus connection loss and reconnection of the same Context at PRNG points (session kept: the unreleased identifiers survive; session expired: they are forgotten, a re-delivery is a new message)");
    walk_world(rep, "walkrc", walks, if rep.quick() { 250 } else { 600 }, &|s| World::boot(WorldCfg { seed: s, sei: if s % 4 == 0 { None } else { Some(3600) }, order: (s % 4) as u8, ..Default::default() }), &wr);
}
