//! C12 — the server's Maximum Packet Size is honoured exactly.

use crate::refcodec::{self as rc, AckForm, AckKind, CPacket, Prop, SPacket};
use crate::report::Rep;
use crate::sim::*;
use crate::spec::*;

fn session(seed: u64, m: Option<u32>, r: Option<u16>) -> Sim {
    session_with(seed, m, r, None)
}

/// `own_limit`: the client's own Maximum Packet Size sent in CONNECT (limits what the *server* may send; must not limit the client)
fn session_with(seed: u64, m: Option<u32>, r: Option<u16>, own_limit: Option<u32>) -> Sim {
    session_via(seed, m, r, own_limit, false)
}

/// `via_auth`: the CONNACK arrives at the end of an extended authentication exchange (inside authorize(), not connect())
fn session_via(seed: u64, m: Option<u32>, r: Option<u16>, own_limit: Option<u32>, via_auth: bool) -> Sim {
    let mut sim = Sim::new(seed);
    if via_auth {
        sim.cmd(Cmd::Connect(ConnSpec { max_packet_size: own_limit, auth_method: Some("m".into()), auth_data: Some(vec![1]), ..Default::default() }));
        sim.settle();
        sim.feed_packet(&SPacket::Auth { reason: Some(0x18), props: vec![Prop::str(21, "m"), Prop::bin(22, b"c")] });
        sim.settle();
        sim.cmd(Cmd::Authorize(AuthSpec { reason: Some(0x18), method: Some("m".into()), data: Some(vec![2]), user_props: vec![] }));
        sim.settle();
    } else {
        sim.cmd(Cmd::Connect(ConnSpec { max_packet_size: own_limit, ..Default::default() }));
        sim.settle();
    }
    let mut props = Vec::new();
    // the CONNACK says more than the limit: a Session Expiry Interval in front of it or behind it (by the parity of M), an
    // assigned client identifier and a user property around the Receive Maximum
    let chatty = m.map(|m| m % 3).unwrap_or(1);
    if chatty == 1 {
        props.push(Prop::u32(17, 120));
        props.push(Prop::str(18, "assigned"));
    }
    if let Some(m) = m {
        props.push(Prop::u32(39, m));
    }
    if chatty == 2 {
        props.push(Prop::u32(17, 0));
    }
    if let Some(r) = r {
        props.push(Prop::u16(33, r));
    }
    if chatty != 0 {
        props.push(Prop::pair("ck", "cv"));
    }
    sim.feed_packet(&SPacket::Connack { session_present: false, reason: 0, props });
    sim.settle();
    sim.cmd(Cmd::Run);
    sim.settle();
    sim
}

fn requests(rep: &Rep) -> Vec<(String, OpSpec)> {
    let mut v: Vec<(String, OpSpec)> = Vec::new();
    v.push(("ping".into(), OpSpec::Ping));
    v.push(("disconnect".into(), OpSpec::Disconnect(DiscSpec::default())));
    v.push(("disconnect-props".into(), OpSpec::Disconnect(DiscSpec { reason: Some(0x04), sei: Some(9), reason_string: Some("x".repeat(120)), user_props: vec![("k".into(), "v".into())] })));
    for q in 0..3u8 {
        for sz in [0usize, 1, 100, 117, 118, 119, 120, 121, 125, 126, 127, 128, 129, 130, 131, 300, 16_370, 16_380, 16_384, 16_390, 70_000] {
            v.push((format!("pub{q}-{sz}"), OpSpec::Publish(PubSpec::simple(q, "topic/x", &vec![b'p'; sz]))));
        }
        v.push((format!("pub{q}-props"), OpSpec::Publish(PubSpec { qos: Some(q), topic: Some("t".into()), payload: Some(vec![1; 40]), content_type: Some("c".repeat(90)), user_props: vec![("a".into(), "b".repeat(30))], correlation: Some(vec![0; 10]), ..Default::default() })));
    }
    for n in [1usize, 2, 10, 100] {
        v.push((format!("sub-{n}"), OpSpec::Subscribe(SubSpec { filters: (0..n).map(|i| (format!("filter/number/{i}"), SubOptSpec::default())).collect(), user_props: vec![] })));
        v.push((format!("unsub-{n}"), OpSpec::Unsubscribe(UnsubSpec { filters: (0..n).map(|i| format!("filter/number/{i}")).collect(), user_props: vec![] })));
    }
    v.push(("sub-up".into(), OpSpec::Subscribe(SubSpec { filters: vec![("f".into(), SubOptSpec::default())], user_props: vec![("k".into(), "v".repeat(200))] })));
    if !rep.quick() {
        for sz in (0..2100usize).chain((2100..40000).step_by(7)) {
            let q = (sz % 3) as u8;
            v.push((format!("pubsweep{q}-{sz}"), OpSpec::Publish(PubSpec::simple(q, "s", &vec![b'q'; sz]))));
        }
    } else {
        for sz in (0..2100usize).step_by(37) {
            let q = (sz % 3) as u8;
            v.push((format!("pubsweep{q}-{sz}"), OpSpec::Publish(PubSpec::simple(q, "s", &vec![b'q'; sz]))));
        }
    }
    v
}

fn viol(rep: &mut Rep, sig: String, case: &str, detail: String, sim: &Sim) {
    rep.violation(&sig, case, &format!("{detail}\n--- trace ---\n{}", sim.tail_log(30)));
}

pub fn run(rep: &mut Rep) {
    let reqs = requests(rep);
    rep.note(&format!("{} requests (publish QoS 0/1/2, subscribe, unsubscribe, ping, disconnect; encoded length L from 2 to ~70 000, every L around 127/128 and 16383/16384) x M in {{L-1, L, L+1, 1, 2^32-1, absent}} x Receive Maximum {{1, 2}} x the client's own CONNECT Maximum Packet Size {{absent, 16, L/2, L-1}} (irrelevant for outgoing packets) x CONNACK received by connect() or, every third case, by authorize() at the end of an AUTH exchange; L measured by running the identical request on a twin session without a limit", reqs.len()));
    let mut idx = 0u64;
    for (name, spec) in &reqs {
        // twin run: measure L and learn which packet identifier the request uses
        let mut twin = session(rep.seed, None, Some(2));
        poster::verif::enable(false);
        let w0 = twin.written_len();
        let top = twin.start_op(0, spec.clone());
        twin.settle();
        let l = (twin.written_len() - w0) as u32;
        twin.parse_wire();
        let twin_bytes: Vec<u8> = twin.writer.0.borrow().written[w0..].to_vec();
        let twin_id: Option<u16> = twin.wire.last().and_then(|w| match &w.pkt {
            Ok(CPacket::Publish(p)) => p.id,
            Ok(CPacket::Subscribe(s)) => Some(s.id),
            Ok(CPacket::Unsubscribe(s)) => Some(s.id),
            _ => None,
        });
        if l == 0 {
            viol(rep, "C12/harness/twin-wrote-nothing".into(), name, format!("twin run without limit wrote nothing for {}; result {:?}", brief_spec(spec), twin.ops[top].out.as_ref().map(|o| o.brief())), &twin);
            continue;
        }
        let mut ms: Vec<Option<u32>> = vec![Some(l), Some(l + 1), Some(1), Some(u32::MAX), None];
        if l > 1 {
            ms.push(Some(l - 1));
        }
        if l > 2 {
            ms.push(Some(l / 2));
        }
        for m in ms {
            for r in [1u16, 2] {
                let id = format!("{name}:M{:?}:R{r}", m);
                idx += 1;
                if !rep.take(idx, &id) {
                    continue;
                }
                poster::verif::enable(true);
                let _ = poster::verif::drain();
                // the client's own limit announced in CONNECT rotates through absent / tiny / around L: it must make no difference
                let own_limit = match (idx + r as u64) % 4 {
                    0 => None,
                    1 => Some(16),
                    2 => Some((l / 2).max(1)),
                    _ => Some(l.saturating_sub(1).max(1)),
                };
                // every third case reaches its CONNACK through an extended authentication exchange
                let via_auth = idx % 3 == 0;
                if via_auth {
                    rep.add("sessions_established_through_authorize", 1);
                }
                let mut sim = session_via(rep.seed, m, Some(r), own_limit, via_auth);
                // three cases in five run over a transport that takes a packet in many pieces (1 byte / 16 bytes per call, or
                // 5 bytes with Pending in between): "written in full" and "not one byte" are judged all the same
                let plan = match idx % 5 {
                    1 => WritePlan::Max(1),
                    2 => WritePlan::Max(16),
                    3 => WritePlan::MaxPendingAlt(5),
                    _ => WritePlan::All,
                };
                if plan != WritePlan::All {
                    rep.add("cases_over_a_transport_taking_packets_in_pieces", 1);
                }
                sim.writer.0.borrow_mut().plan = plan;
                // a message is processed first so that a "before" snapshot exists
                let warm = sim.start_op(0, OpSpec::Publish(PubSpec::simple(0, "w", b"")));
                sim.settle();
                let warm_ok = sim.ops[warm].out.as_ref().map(|o| o.is_ok()).unwrap_or(false);
                // every second oversized case with Receive Maximum 2 has a QoS 1 publish in flight already: the refusal must
                // neither take nor hand back a slot (one further publish fits, not two)
                // ... and every third one with Receive Maximum 1 finds the window used up: for an oversized request C12 still
                // names the outcome - MaximumPacketSizeExceeded (C10's "QuotaExceeded at a full window" speaks of publishes that could
                // be sent at all; C10's own check accepts either answer in this corner, C12's holds the library to C12's text)
                let inflight_first = m.map(|m| l > m && m >= 16).unwrap_or(false) && ((r == 2 && (idx / 2) % 2 == 1) || (r == 1 && (idx / 2) % 3 == 1));
                if inflight_first && r == 1 {
                    rep.add("oversized_requests_at_a_full_window", 1);
                }
                if inflight_first {
                    sim.start_op(0, OpSpec::Publish(PubSpec::simple(1, "q", b"")));
                    sim.settle();
                    rep.add("oversized_requests_with_a_publish_in_flight", 1);
                }
                // every other oversized case has a subscription with a live stream established beforehand: the refusal must
                // leave that registration (and its stream) alone
                let established = m.map(|m| l > m && m >= 16).unwrap_or(false) && (idx / 4) % 2 == 1;
                let mut est_stream = None;
                if established {
                    let s = sim.start_op(0, OpSpec::Subscribe(SubSpec::simple("e")));
                    sim.settle();
                    sim.parse_wire();
                    let sub_pid = sim.wire.iter().rev().find_map(|w| match &w.pkt {
                        Ok(CPacket::Subscribe(x)) => Some((x.id, x.props.iter().find_map(|p| match (&p.id, &p.val) { (11, rc::PVal::Var(v)) => Some(*v), _ => None }))),
                        _ => None,
                    });
                    if let Some((pid, Some(sid))) = sub_pid {
                        sim.feed_packet(&SPacket::Suback { id: pid, props: vec![], reasons: vec![0] });
                        sim.settle();
                        if let Some(st) = sim.take_stream(s) {
                            est_stream = Some((st, sid));
                            rep.add("oversized_requests_with_an_established_subscription", 1);
                        }
                    }
                    let _ = poster::verif::drain();
                    let z = sim.start_op(0, OpSpec::Publish(PubSpec::simple(0, "w", b"")));
                    sim.settle();
                    let _ = z;
                }
                let before_snap = poster::verif::drain().last().cloned();
                let w0 = sim.written_len();
                // keep identifier allocation aligned with the twin
                let op = sim.start_op(0, spec.clone());
                sim.settle();
                let snaps = poster::verif::drain();
                let after_snap = snaps.last().cloned();
                let wrote = sim.written_len() - w0;
                let out = sim.ops[op].out.clone();
                let must_refuse = m.map(|m| l > m).unwrap_or(false);
                rep.add("evaluations", 1);
                rep.distinct(&(name, m, r));
                for p in sim.panics.clone() {
                    viol(rep, format!("C12/panic/{p}"), &id, format!("panic: {p}"), &sim);
                }
                let kind = spec.kind();
                if must_refuse {
                    rep.add("oversized_requests", 1);
                    let refused = matches!(out.as_ref().and_then(|o| o.err()), Some(ErrSum::MaximumPacketSizeExceeded));
                    if wrote != 0 {
                        viol(rep, format!("C12/oversized-packet-written/{kind}"), &id, format!("L = {l} > M = {:?} but {wrote} bytes were written", m), &sim);
                    }
                    if !refused {
                        viol(rep, format!("C12/oversized-not-refused/{kind}"), &id, format!("L = {l} > M = {:?}: result {:?}, expected MaximumPacketSizeExceeded", m, out.as_ref().map(|o| o.brief())), &sim);
                    }
                    if sim.run_result().is_some() {
                        viol(rep, format!("C12/run-ended-on-oversized/{kind}"), &id, format!("run() returned {:?}", sim.run_result()), &sim);
                        continue;
                    }
                    // nothing left behind (hook H3)
                    if let (Some(b), Some(a), true) = (&before_snap, &after_snap, warm_ok) {
                        rep.add("h3_state_comparisons", 1);
                        if a.send_quota != b.send_quota {
                            viol(rep, format!("C12/h3/quota-slot-left-behind/{kind}"), &id, format!("send quota {} -> {} across a refused request", b.send_quota, a.send_quota), &sim);
                        }
                        if a.awaiting_ack != b.awaiting_ack {
                            viol(rep, format!("C12/h3/pending-ack-left-behind/{kind}"), &id, format!("awaiting_ack {:?} -> {:?}", b.awaiting_ack, a.awaiting_ack), &sim);
                        }
                        if a.subscriptions != b.subscriptions {
                            viol(rep, format!("C12/h3/stream-registration-left-behind/{kind}"), &id, format!("subscriptions {:?} -> {:?}", b.subscriptions, a.subscriptions), &sim);
                        }
                        if a.retransmit != b.retransmit {
                            viol(rep, format!("C12/h3/retransmit-entry-left-behind/{kind}"), &id, format!("retransmit {:?} -> {:?}", b.retransmit, a.retransmit), &sim);
                        }
                    }
                    // the established subscription still gets its messages
                    if let Some((st, sid)) = est_stream {
                        sim.feed_packet(&SPacket::Publish(rc::Publish { dup: false, qos: 0, retain: false, topic: "e".into(), id: None, props: vec![Prop::var(11, sid)], payload: b"still here".to_vec() }));
                        sim.settle();
                        sim.drain_stream(st);
                        if sim.streams[st].items.len() != 1 || sim.streams[st].ended {
                            viol(rep, format!("C12/stream-registration-disturbed/{kind}"), &id, format!("after the refused request the stream of a subscription established before it yielded {} items (ended: {}) for one PUBLISH carrying its identifier", sim.streams[st].items.len(), sim.streams[st].ended), &sim);
                        }
                    }
                    // black box: the quota is untouched (R small publishes are still accepted) ...
                    if m.map(|m| m >= 16).unwrap_or(true) {
                        let mut accepted = 0;
                        for _ in 0..r + 1 {
                            let w1 = sim.written_len();
                            let p = sim.start_op(0, OpSpec::Publish(PubSpec::simple(1, "q", b"")));
                            sim.settle();
                            if sim.written_len() > w1 {
                                accepted += 1;
                            } else if !matches!(sim.ops[p].out.as_ref().and_then(|o| o.err()), Some(ErrSum::QuotaExceeded)) {
                                break;
                            }
                        }
                        rep.add("quota_probes", 1);
                        let free = if inflight_first { r - 1 } else { r };
                        if accepted != free {
                            viol(rep, format!("C12/quota-{}/{kind}", if accepted < free { "slot-left-behind" } else { "slot-handed-back" }), &id, format!("after the refused request {accepted} further QoS 1 publishes were accepted; Receive Maximum {r}, {} in flight before the request, so exactly {free} fit", r - free), &sim);
                        }
                    }
                    // ... and an acknowledgement bearing the identifier the request would have used completes nothing
                    if let Some(pid) = twin_id {
                        let done_before: Vec<bool> = sim.ops.iter().map(|o| o.out.is_some()).collect();
                        let pkt = match kind {
                            "sub" => SPacket::Suback { id: pid, props: vec![], reasons: vec![0] },
                            "unsub" => SPacket::Unsuback { id: pid, props: vec![], reasons: vec![0] },
                            "pub2" => SPacket::Ack { kind: AckKind::Pubrec, id: pid, reason: 0, props: vec![], form: AckForm::Short2 },
                            _ => SPacket::Ack { kind: AckKind::Puback, id: pid, reason: 0, props: vec![], form: AckForm::Short2 },
                        };
                        // only meaningful if no live operation uses that identifier
                        sim.parse_wire();
                        let in_use = sim.wire.iter().any(|w| matches!(&w.pkt, Ok(CPacket::Publish(p)) if p.id == Some(pid)));
                        if !in_use {
                            let w1 = sim.written_len();
                            sim.feed_packet(&pkt);
                            sim.settle();
                            let done_after: Vec<bool> = sim.ops.iter().map(|o| o.out.is_some()).collect();
                            rep.add("stray_ack_probes", 1);
                            if done_after != done_before || sim.written_len() != w1 || sim.run_result().is_some() {
                                viol(rep, format!("C12/pending-ack-left-behind/{kind}"), &id, format!("an acknowledgement for identifier {pid} (never sent) changed something: completions {:?} -> {:?}, {} bytes written, run() = {:?}", done_before, done_after, sim.written_len() - w1, sim.run_result()), &sim);
                            }
                        }
                    }
                } else {
                    rep.add("fitting_requests", 1);
                    let got: Vec<u8> = sim.writer.0.borrow().written[w0..].to_vec();
                    if wrote as u32 != l || got != twin_bytes {
                        viol(rep, format!("C12/fitting-packet-not-written-in-full/{kind}"), &id, format!("L = {l} <= M = {:?}: {wrote} bytes written (result {:?}); expected the same {l} bytes as without a limit", m, out.as_ref().map(|o| o.brief())), &sim);
                    } else {
                        rep.sample(|| format!("{id}: L = {l}, M = {:?} -> written in full", m));
                    }
                }
            }
        }
    }
    poster::verif::enable(false);
    let _ = rc::varint_len(1);
    second_connection(rep, &reqs, idx);
    largest_packets(rep);
    abandoned_oversized(rep, &reqs);
    identical_requests(rep);
}

/// Requests that encode to the same bytes (pings; the same unsubscribe / subscribe / QoS 0 publish twice) are still one request
/// each: every one that fits is written in full, also while its twin is waiting for the answer.
fn identical_requests(rep: &mut Rep) {
    rep.note("identical requests: 2-3 pings / identical QoS 0 publishes / subscribes / unsubscribes for the same filter outstanding at once (queued while the context is held, or one after the other without an answer), M in {absent, L, L+1, 2^32-1}: each is written in full; M = L-1: each refused, nothing written");
    let mut idx = 9_700_000u64;
    let kinds: Vec<(&str, OpSpec)> = vec![
        ("ping", OpSpec::Ping),
        ("pub0", OpSpec::Publish(PubSpec::simple(0, "same", b"same"))),
        ("sub", OpSpec::Subscribe(SubSpec::simple("same/filter"))),
        ("unsub", OpSpec::Unsubscribe(UnsubSpec::simple("same/filter"))),
    ];
    for (name, spec) in &kinds {
        let mut twin = session(rep.seed, None, None);
        let t0 = twin.written_len();
        twin.start_op(0, spec.clone());
        twin.settle();
        let l = (twin.written_len() - t0) as u32;
        for m in [None, Some(l), Some(l + 1), Some(u32::MAX), Some(l - 1)] {
            for n in [2usize, 3] {
                for queued in [true, false] {
                    let id = format!("identical:{name}:{:?}:{n}:{}", m, queued as u8);
                    idx += 1;
                    if !rep.take(idx, &id) {
                        continue;
                    }
                    let mut sim = session(rep.seed, m, None);
                    let w0 = sim.written_len();
                    if queued {
                        sim.hold_ctx = true;
                    }
                    let mut ops = Vec::new();
                    for _ in 0..n {
                        ops.push(sim.start_op(0, spec.clone()));
                        sim.settle();
                    }
                    if queued {
                        sim.hold_ctx = false;
                        sim.settle();
                    }
                    let wrote = sim.written_len() - w0;
                    rep.add("evaluations", 1);
                    rep.add("identical_request_cases", 1);
                    rep.distinct(&("identical", name, m, n, queued));
                    for p in sim.panics.clone() {
                        viol(rep, format!("C12/panic/{p}"), &id, format!("panic: {p}"), &sim);
                    }
                    let must_refuse = m.map(|m| l > m).unwrap_or(false);
                    if must_refuse {
                        let all_refused = ops.iter().all(|&o| matches!(sim.ops[o].out.as_ref().and_then(|x| x.err()), Some(ErrSum::MaximumPacketSizeExceeded)));
                        if wrote != 0 || !all_refused {
                            viol(rep, format!("C12/oversized-not-refused/{name}/identical"), &id, format!("L = {l} > M = {:?}, {n} identical requests: {wrote} bytes written, results {:?}", m, ops.iter().map(|&o| sim.ops[o].out.as_ref().map(|x| x.brief())).collect::<Vec<_>>()), &sim);
                        }
                    } else if wrote as u32 != l * n as u32 {
                        viol(rep, format!("C12/fitting-packet-not-written-in-full/{name}/identical"), &id, format!("L = {l} <= M = {:?}: {n} identical requests outstanding at once must put {} bytes on the wire, {wrote} were written", m, l * n as u32), &sim);
                    } else {
                        if *name == "ping" {
                            for _ in 0..n {
                                sim.feed_packet(&SPacket::Pingresp);
                                sim.settle();
                            }
                            if !ops.iter().all(|&o| sim.ops[o].out.as_ref().map(|x| x.is_ok()).unwrap_or(false)) {
                                viol(rep, "C12/pending-ack-left-behind/ping/identical".into(), &id, format!("{n} pings written, {n} PINGRESP delivered: results {:?}", ops.iter().map(|&o| sim.ops[o].out.as_ref().map(|x| x.brief())).collect::<Vec<_>>()), &sim);
                            }
                        }
                        rep.sample(|| format!("{id}: {n} x {l} bytes written"));
                    }
                }
            }
        }
    }
}

/// The caller gives up on an oversized request (drops its future: a timeout around the call) after it has been queued and
/// before the context gets to refuse it. The refusal then has nobody to go to - and must still be nothing but a refusal:
/// not a byte written, run() still serving, the next fitting request written in full.
fn abandoned_oversized(rep: &mut Rep, reqs: &[(String, OpSpec)]) {
    let names = ["disconnect-props", "pub0-100", "pub1-100", "pub2-100", "pub1-300", "pub2-16384", "pub1-props", "sub-2", "unsub-2", "unsub-10", "sub-up"];
    let chosen: Vec<&(String, OpSpec)> = reqs.iter().filter(|(n, _)| names.contains(&n.as_str())).collect();
    rep.note(&format!("abandoned oversized requests: {} requests (every kind) x M in {{L-1, L/2, 16}} (M < L) queued while the context is busy elsewhere, their futures dropped, then the context runs: nothing written, run() pending, a ping afterwards is written and completes", chosen.len()));
    let mut idx = 9_600_000u64;
    for (name, spec) in chosen {
        let mut twin = session(rep.seed, None, Some(2));
        let w0 = twin.written_len();
        twin.start_op(0, spec.clone());
        twin.settle();
        let l = (twin.written_len() - w0) as u32;
        if l < 4 {
            continue;
        }
        for m in [l - 1, (l / 2).max(2), 16u32.min(l - 1)] {
            for with_live in [false, true] {
                let id = format!("abandoned:{name}:M{m}:{}", with_live as u8);
                idx += 1;
                if !rep.take(idx, &id) {
                    continue;
                }
                let mut sim = session(rep.seed, Some(m), Some(2));
                // optionally a second, live request of the same kind queued behind the abandoned one (refused as well)
                sim.hold_ctx = true;
                let op = sim.start_op(0, spec.clone());
                sim.settle();
                let live = if with_live { Some(sim.start_op(0, spec.clone())) } else { None };
                sim.settle();
                sim.drop_op(op);
                let w1 = sim.written_len();
                sim.hold_ctx = false;
                sim.settle();
                rep.add("evaluations", 1);
                rep.add("abandoned_oversized_requests", 1);
                rep.distinct(&("abandoned", name, m, with_live));
                let kind = spec.kind();
                for p in sim.panics.clone() {
                    viol(rep, format!("C12/panic/{p}"), &id, format!("panic: {p}"), &sim);
                }
                if sim.written_len() != w1 {
                    viol(rep, format!("C12/oversized-packet-written/{kind}/abandoned"), &id, format!("L = {l} > M = {m}: {} bytes written for a request whose future had been dropped", sim.written_len() - w1), &sim);
                }
                if let Some(r) = sim.run_result() {
                    viol(rep, format!("C12/run-ended-on-oversized/{kind}/abandoned"), &id, format!("L = {l} > M = {m}, the request's future dropped before the refusal: run() returned {:?}", r), &sim);
                    continue;
                }
                if let Some(lv) = live {
                    if !matches!(sim.ops[lv].out.as_ref().and_then(|o| o.err()), Some(ErrSum::MaximumPacketSizeExceeded)) {
                        viol(rep, format!("C12/oversized-not-refused/{kind}/behind-abandoned"), &id, format!("the live request queued behind the abandoned one: {:?}", sim.ops[lv].out.as_ref().map(|o| o.brief())), &sim);
                    }
                }
                // still serving: a ping (2 bytes, fits any M >= 2) goes out and completes
                let w2 = sim.written_len();
                let p = sim.start_op(0, OpSpec::Ping);
                sim.settle();
                let wrote: Vec<u8> = sim.writer.0.borrow().written[w2..].to_vec();
                sim.feed_packet(&SPacket::Pingresp);
                sim.settle();
                let done = sim.ops[p].out.as_ref().map(|o| o.is_ok()).unwrap_or(false);
                if wrote != [0xc0, 0x00] || !done {
                    viol(rep, format!("C12/fitting-packet-not-written-in-full/ping/after-abandoned-{kind}"), &id, format!("after the refused, abandoned request a ping wrote {:02x?} and completed: {done}; run() = {:?}", wrote, sim.run_result()), &sim);
                } else {
                    rep.sample(|| format!("{id}: refused without a trace, run() serving"));
                }
            }
        }
    }
}

/// The largest packets MQTT can carry (remaining length 268 435 455, 268 435 456 to 268 435 460 bytes in all): no limit
/// announced, or one they fit, means written in full; a limit one byte short means refused without a byte.
/// Only in the plain builds (a sanitizer or interpreter would spend minutes copying the payload).
fn largest_packets(rep: &mut Rep) {
    if rep.profile != "checked" && rep.profile != "fast" {
        return;
    }
    // (remaining length, M)
    let mut cases: Vec<(usize, Option<u32>)> = vec![(268_435_455, None)];
    if !rep.quick() {
        cases.extend([(268_435_455, Some(u32::MAX)), (268_435_455, Some(268_435_460)), (268_435_455, Some(268_435_459)), (268_435_451, None), (268_435_452, Some(268_435_456))]);
    }
    rep.note(&format!("largest packets: {} QoS 0 publishes whose remaining length is 268 435 455 (or a few bytes less), so that the packet is 268 435 456 .. 268 435 460 bytes long, with no Maximum Packet Size announced, 2^32-1, exactly L, and L-1", cases.len()));
    for (k, (rl, m)) in cases.iter().enumerate() {
        let id = format!("largest:{k}");
        if !rep.take(9_500_000 + k as u64, &id) {
            continue;
        }
        let mut sim = session(rep.seed, *m, None);
        sim.log_enabled = false;
        let l = 1 + 4 + *rl;
        // topic "t" (3 bytes), empty properties (1 byte)
        let spec = PubSpec { topic: Some("t".into()), payload: Some(vec![0x5a; *rl - 4]), ..Default::default() };
        let w0 = sim.written_len();
        let op = sim.start_op(0, OpSpec::Publish(spec));
        sim.settle();
        let wrote = sim.written_len() - w0;
        let out = sim.ops[op].out.clone();
        rep.add("evaluations", 1);
        rep.add("largest_packet_cases", 1);
        rep.distinct(&("largest", k));
        for p in sim.panics.clone() {
            viol(rep, format!("C12/panic/{p}"), &id, format!("panic: {p}"), &sim);
        }
        let must_refuse = m.map(|m| l > m as usize).unwrap_or(false);
        if must_refuse {
            if wrote != 0 {
                viol(rep, "C12/oversized-packet-written/publish0/largest".into(), &id, format!("M = {:?}, L = {l}: {wrote} bytes written", m), &sim);
            }
            if !matches!(out.as_ref().and_then(|o| o.err()), Some(ErrSum::MaximumPacketSizeExceeded)) {
                viol(rep, "C12/oversized-not-refused/publish0/largest".into(), &id, format!("M = {:?}, L = {l}: result {:?}", m, out.as_ref().map(|o| o.brief())), &sim);
            }
        } else {
            let head_ok = {
                let wr = sim.writer.0.borrow();
                let b = &wr.written[w0..];
                let mut want = vec![0x30u8];
                let mut v = *rl;
                loop {
                    let mut byte = (v % 128) as u8;
                    v /= 128;
                    if v > 0 {
                        byte |= 0x80;
                    }
                    want.push(byte);
                    if v == 0 {
                        break;
                    }
                }
                want.extend([0, 1, b't', 0]);
                b.len() == l && b[..want.len()] == want[..] && b[want.len()..].iter().all(|x| *x == 0x5a)
            };
            if !head_ok || !out.as_ref().map(|o| o.is_ok()).unwrap_or(false) {
                viol(rep, "C12/fitting-packet-not-written-in-full/publish0/largest".into(), &id, format!("M = {:?}, L = {l} (remaining length {rl}): {wrote} bytes written, result {:?}", m, out.as_ref().map(|o| o.brief())), &sim);
            } else {
                rep.add("largest_packets_written_in_full", 1);
                rep.sample(|| format!("{id}: L = {l}, M = {:?} -> written in full", m));
            }
        }
    }
}

/// The limit that counts is the one announced in the CONNACK of the *current* connection: the same Context is connected
/// a second time (after end-of-stream; as a plain new connection, as an expired session, as a resumed session) and the
/// CONNACK of the second connection announces another Maximum Packet Size, or none.
fn second_connection(rep: &mut Rep, reqs: &[(String, OpSpec)], mut idx: u64) {
    let chosen: Vec<&(String, OpSpec)> = reqs
        .iter()
        .filter(|(n, _)| ["ping", "disconnect", "disconnect-props", "pub0-100", "pub1-117", "pub2-130", "pub1-props", "sub-1", "unsub-2", "sub-up", "pub0-16384"].contains(&n.as_str()))
        .collect();
    rep.note(&format!("second connection of the same Context: {} requests x (M on the first connection, M on the second) in {{(L, L-1), (L-1, L), (L+7, L), (absent, L-1), (L-1, absent), (1, L), (L, absent)}} x reconnect mode {{plain, expired session, resumed session}}: the request on the second connection is judged by the second CONNACK alone", chosen.len()));
    for (name, spec) in chosen {
        let mut twin = session(rep.seed, None, Some(2));
        let warm = twin.start_op(0, OpSpec::Publish(PubSpec::simple(0, "w", b"")));
        twin.settle();
        let _ = warm;
        let w0 = twin.written_len();
        twin.start_op(0, spec.clone());
        twin.settle();
        let twin_bytes: Vec<u8> = twin.writer.0.borrow().written[w0..].to_vec();
        let l = twin_bytes.len() as u32;
        if l < 2 {
            continue;
        }
        let pairs: Vec<(Option<u32>, Option<u32>)> = vec![(Some(l), Some(l - 1)), (Some(l - 1), Some(l)), (Some(l + 7), Some(l)), (None, Some(l - 1)), (Some(l - 1), None), (Some(1), Some(l)), (Some(l), None)];
        for (m1, m2) in pairs {
            for mode in 0..3u8 {
                let id = format!("second:{name}:{:?}:{:?}:{mode}", m1, m2);
                idx += 1;
                if !rep.take(idx, &id) {
                    continue;
                }
                let mut sim = Sim::new(rep.seed);
                let sei = if mode == 2 { Some(3600) } else { None };
                sim.cmd(Cmd::Connect(ConnSpec { sei, ..Default::default() }));
                sim.settle();
                let props1: Vec<Prop> = m1.map(|m| vec![Prop::u32(39, m)]).unwrap_or_default();
                sim.feed_packet(&SPacket::Connack { session_present: false, reason: 0, props: props1 });
                sim.settle();
                sim.cmd(Cmd::Run);
                sim.settle();
                sim.start_op(0, OpSpec::Publish(PubSpec::simple(0, "w", b"")));
                sim.settle();
                sim.set_eof();
                sim.settle();
                if sim.run_result().is_none() {
                    viol(rep, "C12/harness/first-run-did-not-end".into(), &id, "run() still pending after end-of-stream".into(), &sim);
                    continue;
                }
                if mode >= 1 {
                    sim.cmd(Cmd::MarkDisconnected(5));
                }
                sim.new_transport();
                sim.cmd(Cmd::Connect(ConnSpec { sei, ..Default::default() }));
                sim.settle();
                let props2: Vec<Prop> = m2.map(|m| vec![Prop::u32(39, m)]).unwrap_or_default();
                sim.feed_packet(&SPacket::Connack { session_present: mode == 2, reason: 0, props: props2 });
                sim.settle();
                sim.cmd(Cmd::Run);
                sim.settle();
                let w0 = sim.written_len();
                let op = sim.start_op(0, spec.clone());
                sim.settle();
                let wrote = sim.written_len() - w0;
                let out = sim.ops[op].out.clone();
                let kind = spec.kind();
                rep.add("evaluations", 1);
                rep.add("second_connection_cases", 1);
                rep.distinct(&("second", name, m1, m2, mode));
                for p in sim.panics.clone() {
                    viol(rep, format!("C12/panic/{p}"), &id, format!("panic: {p}"), &sim);
                }
                let must_refuse = m2.map(|m| l > m).unwrap_or(false);
                if must_refuse {
                    let refused = matches!(out.as_ref().and_then(|o| o.err()), Some(ErrSum::MaximumPacketSizeExceeded));
                    if wrote != 0 {
                        viol(rep, format!("C12/second-connection/oversized-packet-written/{kind}"), &id, format!("second CONNACK announced M = {:?} (the first {:?}); L = {l} but {wrote} bytes were written", m2, m1), &sim);
                    }
                    if !refused {
                        viol(rep, format!("C12/second-connection/oversized-not-refused/{kind}"), &id, format!("second CONNACK announced M = {:?} (the first {:?}); L = {l}: result {:?}", m2, m1, out.as_ref().map(|o| o.brief())), &sim);
                    }
                } else {
                    let got: Vec<u8> = sim.writer.0.borrow().written[w0..].to_vec();
                    if got != twin_bytes {
                        viol(rep, format!("C12/second-connection/fitting-packet-not-written-in-full/{kind}"), &id, format!("second CONNACK announced M = {:?} (the first {:?}); L = {l}: {wrote} bytes written, result {:?}", m2, m1, out.as_ref().map(|o| o.brief())), &sim);
                    } else {
                        rep.sample(|| format!("{id}: judged by the second CONNACK, written in full"));
                    }
                }
            }
        }
    }
}
