//! Real-thread stress driver shared by C11 (identifier uniqueness) and C05 (each operation gets its own acknowledgement):
//! T client threads with handle clones issue batches of concurrent operations (block_on + join_all), one thread runs the
//! context, one thread plays the broker: it checks identifier uniqueness in wire order and acknowledges with random delay and
//! reordering. With `content` checks on, every acknowledgement carries the request's own topic / filter as reason string and a
//! reason code derived from it, and every client verifies that the result it got is the one addressed to it.

use crate::refcodec::{self as rc, AckForm, AckKind, CPacket, Prop, SPacket};
use crate::report::Rep;
use crate::sim::Rng;
use futures::io::{AsyncRead, AsyncWrite};
use poster::{ConnectOpts, Context, PublishOpts, QoS, SubscribeOpts, SubscriptionOpts, UnsubscribeOpts};
use std::collections::{HashMap, HashSet, VecDeque};
use std::io;
use std::pin::Pin;
use std::sync::{Arc, Condvar, Mutex};
use std::task::{Context as TaskCx, Poll, Waker};

// ------------------------------------------------------------------ multi-thread stress

struct PipeState {
    buf: VecDeque<u8>,
    waker: Option<Waker>,
    closed: bool,
}

struct Pipe {
    st: Mutex<PipeState>,
    cv: Condvar,
}

impl Pipe {
    fn new() -> Arc<Pipe> {
        Arc::new(Pipe { st: Mutex::new(PipeState { buf: VecDeque::new(), waker: None, closed: false }), cv: Condvar::new() })
    }
    fn push(&self, b: &[u8]) {
        let w = {
            let mut s = self.st.lock().unwrap();
            s.buf.extend(b.iter().copied());
            s.waker.take()
        };
        self.cv.notify_all();
        if let Some(w) = w {
            w.wake();
        }
    }
    fn close(&self) {
        let w = {
            let mut s = self.st.lock().unwrap();
            s.closed = true;
            s.waker.take()
        };
        self.cv.notify_all();
        if let Some(w) = w {
            w.wake();
        }
    }
    /// blocking read of whatever is available (up to 64 KiB); None at close
    fn pull(&self, timeout_ms: u64) -> Option<Vec<u8>> {
        let mut s = self.st.lock().unwrap();
        if s.buf.is_empty() && !s.closed {
            let (g, _) = self.cv.wait_timeout(s, std::time::Duration::from_millis(timeout_ms)).unwrap();
            s = g;
        }
        if s.buf.is_empty() {
            return if s.closed { None } else { Some(Vec::new()) };
        }
        let n = s.buf.len().min(65536);
        Some(s.buf.drain(..n).collect())
    }
}

struct PipeReader(Arc<Pipe>);
struct PipeWriter(Arc<Pipe>);

impl AsyncRead for PipeReader {
    fn poll_read(self: Pin<&mut Self>, cx: &mut TaskCx<'_>, out: &mut [u8]) -> Poll<io::Result<usize>> {
        let mut s = self.0.st.lock().unwrap();
        if !s.buf.is_empty() {
            let n = out.len().min(s.buf.len());
            for b in out.iter_mut().take(n) {
                *b = s.buf.pop_front().unwrap();
            }
            return Poll::Ready(Ok(n));
        }
        if s.closed {
            return Poll::Ready(Ok(0));
        }
        s.waker = Some(cx.waker().clone());
        Poll::Pending
    }
}

impl AsyncWrite for PipeWriter {
    fn poll_write(self: Pin<&mut Self>, _cx: &mut TaskCx<'_>, b: &[u8]) -> Poll<io::Result<usize>> {
        self.0.push(b);
        Poll::Ready(Ok(b.len()))
    }
    fn poll_flush(self: Pin<&mut Self>, _cx: &mut TaskCx<'_>) -> Poll<io::Result<()>> {
        Poll::Ready(Ok(()))
    }
    fn poll_close(self: Pin<&mut Self>, _cx: &mut TaskCx<'_>) -> Poll<io::Result<()>> {
        Poll::Ready(Ok(()))
    }
}

#[derive(Default)]
struct BrokerReport {
    violations: Vec<(String, String)>,
    requests: u64,
    max_outstanding: usize,
    distinct_ids: usize,
    sub_ids: usize,
    decode_errors: u64,
    /// no client traffic for a long time although every request seen has been answered
    stuck: bool,
}

/// whether the broker refuses the request carrying this topic (decided from the topic text alone, so that both the
/// broker thread and the client thread know it without talking to each other)
fn refuses(topic: &str) -> u32 {
    topic.bytes().map(|b| b as u32).sum::<u32>() % 4
}

fn broker(c2s: Arc<Pipe>, s2c: Arc<Pipe>, seed: u64, content: bool, prop: &str) -> BrokerReport {
    let mut rng = Rng::new(seed);
    let mut rep = BrokerReport::default();
    let mut buf: Vec<u8> = Vec::new();
    let mut outstanding: HashSet<u16> = HashSet::new();
    let mut pending: Vec<(SPacket, Option<u16>)> = Vec::new(); // ack to send, id it finishes
    let mut ids: HashSet<u16> = HashSet::new();
    let mut sub_ids: HashMap<u32, u64> = HashMap::new();
    let mut qos2_topics: HashMap<u16, String> = HashMap::new();
    let mut done = false;
    let mut idle = 0;
    let tag = |t: &str| -> Vec<Prop> {
        if content {
            vec![Prop::str(31, t)]
        } else {
            vec![]
        }
    };
    while !done {
        match c2s.pull(1) {
            None => break,
            Some(b) => {
                if b.is_empty() {
                    idle += 1;
                } else {
                    idle = 0;
                }
                buf.extend(b)
            }
        }
        // watchdog: every request answered, nothing arrives any more, yet the clients have not said goodbye.
        // (each idle iteration waits 1 ms; the limit is far beyond any scheduling hiccup)
        if idle > 30_000 && pending.is_empty() {
            rep.stuck = true;
            break;
        }
        loop {
            let n = match rc::frame(&buf) {
                Ok(Some(n)) => n,
                Ok(None) => break,
                Err(e) => {
                    rep.violations.push((format!("{prop}/mt/wire-unsplittable"), e.0));
                    done = true;
                    break;
                }
            };
            let pkt: Vec<u8> = buf.drain(..n).collect();
            match rc::decode_client_packet(&pkt) {
                Err(e) => {
                    rep.decode_errors += 1;
                    if rep.decode_errors < 3 {
                        rep.violations.push((format!("{prop}/mt/malformed-packet"), format!("{e}: {:02x?}", &pkt[..pkt.len().min(32)])));
                    }
                }
                Ok(CPacket::Connect(_)) => s2c.push(&SPacket::Connack { session_present: false, reason: 0, props: vec![] }.encode()),
                Ok(CPacket::Publish(p)) => {
                    if let Some(id) = p.id {
                        rep.requests += 1;
                        ids.insert(id);
                        if !outstanding.insert(id) {
                            rep.violations.push(("C11/duplicate-packet-id".into(), format!("PUBLISH uses packet identifier {id} while the acknowledgement of another operation with that identifier has not been sent yet ({} outstanding)", outstanding.len())));
                        }
                        let r = if content { refuses(&p.topic) } else { 0 };
                        if p.qos == 1 {
                            let reason = if r % 2 == 1 { 0x80 } else { 0 };
                            pending.push((SPacket::Ack { kind: AckKind::Puback, id, reason, props: tag(&p.topic), form: AckForm::Full }, Some(id)));
                        } else if r == 3 {
                            pending.push((SPacket::Ack { kind: AckKind::Pubrec, id, reason: 0x97, props: tag(&p.topic), form: AckForm::Full }, Some(id)));
                        } else {
                            qos2_topics.insert(id, p.topic.clone());
                            pending.push((SPacket::Ack { kind: AckKind::Pubrec, id, reason: 0, props: tag("not the final word"), form: AckForm::Full }, None));
                        }
                    }
                }
                Ok(CPacket::Ack(a)) if a.kind == AckKind::Pubrel => {
                    let topic = qos2_topics.remove(&a.id).unwrap_or_default();
                    let reason = if content && refuses(&topic) == 1 { 0x92 } else { 0 };
                    pending.push((SPacket::Ack { kind: AckKind::Pubcomp, id: a.id, reason, props: tag(&topic), form: AckForm::Full }, Some(a.id)));
                }
                Ok(CPacket::Subscribe(s)) => {
                    rep.requests += 1;
                    ids.insert(s.id);
                    if !outstanding.insert(s.id) {
                        rep.violations.push(("C11/duplicate-packet-id".into(), format!("SUBSCRIBE uses packet identifier {} still outstanding", s.id)));
                    }
                    match rc::find(&s.props, 11) {
                        Some(rc::PVal::Var(v)) => {
                            let c = sub_ids.entry(*v).or_insert(0);
                            *c += 1;
                            if *c > 1 {
                                rep.violations.push(("C11/duplicate-subscription-id".into(), format!("subscription identifier {v} used by two subscribe() calls")));
                            }
                        }
                        _ => rep.violations.push(("C11/subscribe-without-subscription-id".into(), "SUBSCRIBE without subscription identifier".into())),
                    }
                    let f = s.filters[0].filter.clone();
                    pending.push((SPacket::Suback { id: s.id, props: tag(&f), reasons: vec![if content { 1 } else { 0 }; s.filters.len()] }, Some(s.id)));
                }
                Ok(CPacket::Unsubscribe(s)) => {
                    rep.requests += 1;
                    ids.insert(s.id);
                    if !outstanding.insert(s.id) {
                        rep.violations.push(("C11/duplicate-packet-id".into(), format!("UNSUBSCRIBE uses packet identifier {} still outstanding", s.id)));
                    }
                    let f = s.filters[0].clone();
                    pending.push((SPacket::Unsuback { id: s.id, props: tag(&f), reasons: vec![if content { 0x11 } else { 0 }; s.filters.len()] }, Some(s.id)));
                }
                Ok(CPacket::Pingreq) => pending.push((SPacket::Pingresp, None)),
                Ok(CPacket::Disconnect(_)) => {
                    done = true;
                }
                Ok(_) => {}
            }
            if outstanding.len() > rep.max_outstanding {
                rep.max_outstanding = outstanding.len();
            }
        }
        // release acknowledgements with random delay and reordering
        let keep = if idle >= 1 { 0 } else { rng.below(48) };
        while pending.len() > keep {
            let k = rng.below(pending.len());
            let (pkt, fin) = pending.swap_remove(k);
            if let Some(id) = fin {
                outstanding.remove(&id);
            }
            s2c.push(&pkt.encode());
        }
    }
    rep.distinct_ids = ids.len();
    rep.sub_ids = sub_ids.len();
    s2c.close();
    rep
}

/// `prop` = property on whose behalf violations are reported; `content` = verify that every result is the one addressed
/// to the operation (C05) in addition to identifier uniqueness (C11).
pub fn mt_stress(rep: &mut Rep, id: &str, threads: usize, ops_per_thread: usize, seed: u64, content: bool, prop: &'static str) {
    use poster::error::MqttError;
    let c2s = Pipe::new();
    let s2c = Pipe::new();
    let (mut ctx, handle) = Context::new();
    let (r, w) = (PipeReader(s2c.clone()), PipeWriter(c2s.clone()));
    let b = {
        let (c2s, s2c) = (c2s.clone(), s2c.clone());
        std::thread::spawn(move || broker(c2s, s2c, seed, content, prop))
    };
    let ctx_thread = std::thread::spawn(move || {
        futures::executor::block_on(async move {
            ctx.set_up((r, w));
            match ctx.connect(ConnectOpts::new().client_identifier("mt")).await {
                Ok(_) => {}
                Err(e) => return format!("connect failed: {e}"),
            }
            match ctx.run().await {
                Ok(()) => "Ok".to_string(),
                Err(e) => format!("{e}"),
            }
        })
    });
    let mut clients = Vec::new();
    for t in 0..threads {
        let mut h = handle.clone();
        let seed = seed.wrapping_add(t as u64 * 7919);
        clients.push(std::thread::spawn(move || {
            let mut rng = Rng::new(seed);
            let mut done = 0u64;
            let mut wrong: Vec<String> = Vec::new();
            let mut n = 0;
            while n < ops_per_thread {
                crate::sim::beat();
                // a batch of operations outstanding at once from this thread
                let batch = 1 + rng.below(12);
                let kinds: Vec<usize> = (0..batch).map(|_| rng.below(8)).collect();
                let res: Vec<Result<(), String>> = futures::executor::block_on(async {
                    let mut futs: Vec<Pin<Box<dyn std::future::Future<Output = Result<(), String>> + Send>>> = Vec::new();
                    for (k, kind) in kinds.iter().enumerate() {
                        let mut hh = h.clone();
                        let topic = format!("t{t}/n{}k{k}", n);
                        let kind = *kind;
                        futs.push(Box::pin(async move {
                            let r = if content { refuses(&topic) } else { 0 };
                            match kind {
                                0..=2 => match hh.publish(PublishOpts::new().topic_name(&topic).qos(QoS::AtLeastOnce).payload(b"x")).await {
                                    Ok(()) if r % 2 == 0 => Ok(()),
                                    Err(MqttError::PubackError(e)) if r % 2 == 1 && e.reason() as u8 == 0x80 && e.reason_string() == Some(topic.as_str()) => Ok(()),
                                    other => Err(format!("QoS 1 publish {topic} (broker answers {}): got {:?}", if r % 2 == 1 { "PUBACK 0x80 with its topic as reason string" } else { "PUBACK success" }, other.map_err(|e| format!("{e:?}")))),
                                },
                                3..=4 => match hh.publish(PublishOpts::new().topic_name(&topic).qos(QoS::ExactlyOnce).payload(b"y")).await {
                                    Ok(()) if r == 0 || r == 2 => Ok(()),
                                    Err(MqttError::PubrecError(e)) if r == 3 && e.reason() as u8 == 0x97 && e.reason_string() == Some(topic.as_str()) => Ok(()),
                                    Err(MqttError::PubcompError(e)) if r == 1 && e.reason() as u8 == 0x92 && e.reason_string() == Some(topic.as_str()) => Ok(()),
                                    other => Err(format!("QoS 2 publish {topic} (broker decision {r}): got {:?}", other.map_err(|e| format!("{e:?}")))),
                                },
                                5 => match hh.subscribe(SubscribeOpts::new().subscription(&topic, SubscriptionOpts::new())).await {
                                    Ok(rsp) if !content || (rsp.reason_string() == Some(topic.as_str()) && rsp.payload().len() == 1 && rsp.payload()[0] as u8 == 1) => Ok(()),
                                    Ok(rsp) => Err(format!("subscribe {topic}: SUBACK with reason string {:?} / reasons {:?}", rsp.reason_string(), rsp.payload())),
                                    Err(e) => Err(format!("subscribe {topic}: {e:?}")),
                                },
                                6 => match hh.unsubscribe(UnsubscribeOpts::new().topic_filter(&topic)).await {
                                    Ok(rsp) if !content || (rsp.reason_string() == Some(topic.as_str()) && rsp.payload().len() == 1 && rsp.payload()[0] as u8 == 0x11) => Ok(()),
                                    Ok(rsp) => Err(format!("unsubscribe {topic}: UNSUBACK with reason string {:?} / reasons {:?}", rsp.reason_string(), rsp.payload())),
                                    Err(e) => Err(format!("unsubscribe {topic}: {e:?}")),
                                },
                                _ => hh.ping().await.map_err(|e| format!("ping: {e:?}")),
                            }
                        }));
                    }
                    futures::future::join_all(futs).await
                });
                n += batch;
                for x in res {
                    match x {
                        Ok(()) => done += 1,
                        Err(e) => {
                            if wrong.len() < 5 {
                                wrong.push(e)
                            } else {
                                wrong.push(String::new())
                            }
                        }
                    }
                }
            }
            let _ = &mut h;
            (done, wrong)
        }));
    }
    let mut done = 0;
    let mut wrong: Vec<String> = Vec::new();
    let mut client_panics = 0;
    for c in clients {
        match c.join() {
            Ok((d, e)) => {
                done += d;
                wrong.extend(e);
            }
            Err(_) => client_panics += 1,
        }
    }
    let mut h = handle;
    let _ = futures::executor::block_on(h.disconnect(poster::DisconnectOpts::new()));
    drop(h);
    let run_res = ctx_thread.join().unwrap_or_else(|_| "context thread panicked".into());
    c2s.close();
    let br = b.join().expect("harness: broker thread");
    rep.add("evaluations", 1);
    rep.add("mt_operations_completed", done as i64);
    if content {
        rep.add("mt_results_matched_to_their_own_ack", done as i64);
    }
    rep.add("mt_requests_seen_by_broker", br.requests as i64);
    rep.add("id_consuming_operations", br.requests as i64);
    rep.add("identifier_wraps", (br.requests / 65535) as i64);
    rep.max("max_outstanding_reached", br.max_outstanding as i64);
    rep.max("max_distinct_packet_ids_in_one_run", br.distinct_ids as i64);
    rep.distinct(&(threads, ops_per_thread, seed, content));
    for (sig, d) in &br.violations {
        if sig.starts_with(prop) || prop == "C11" {
            rep.violation(sig, id, &format!("multi-thread stress ({threads} client threads x {ops_per_thread} ops): {d}"));
        } else {
            rep.add("violations_of_other_properties_seen", 1);
        }
    }
    if client_panics > 0 {
        rep.violation(&format!("{prop}/panic/client-thread"), id, &format!("{client_panics} client threads panicked"));
    }
    if br.stuck {
        // wall-clock watchdog: not a verdict
        rep.add("mt_watchdog_fired", 1);
        rep.inconclusive(&format!("{id}: multi-thread run made no progress for 30 s although every request seen by the broker had been acknowledged ({} operations completed before); the run was cut off", done));
        return;
    }
    if !wrong.is_empty() {
        let shown: Vec<&String> = wrong.iter().filter(|x| !x.is_empty()).collect();
        rep.violation(&format!("{prop}/mt/{}", if content { "result-is-not-the-operations-own-ack" } else { "operation-failed" }), id, &format!("{} operations did not get the outcome addressed to them; run() = {run_res}; first: {:?}", wrong.len(), shown));
    }
    if run_res != "Ok" {
        rep.violation(&format!("{prop}/mt/run-ended"), id, &format!("run() ended with {run_res}"));
    }
    rep.sample(|| format!("{id}: {done} operations from {threads} threads{}, broker saw {} identifier-consuming requests, {} distinct packet identifiers, {} subscription identifiers, max {} outstanding", if content { " each verified against its own acknowledgement" } else { "" }, br.requests, br.distinct_ids, br.sub_ids, br.max_outstanding));
}
