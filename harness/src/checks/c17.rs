//! C17 — resuming a session re-sends exactly the unfinished outbound handshakes.

use super::script::*;
use super::{add_counters, harvest};
use crate::enumerate::{self, Chooser};
use crate::report::Rep;
use crate::world::*;

const NEVER: u32 = u32::MAX;

fn expired(interval: u32, secs_ago: u64) -> bool {
    if interval == 0 {
        return true;
    }
    if interval == NEVER {
        return false;
    }
    // at least `secs_ago` whole seconds have passed when run() looks at the clock: from `interval` on, the interval has elapsed
    secs_ago >= interval as u64
}

pub fn run(rep: &mut Rep) {
    let a = Alpha {
        kinds: vec![Kind::Pub1, Kind::Pub2],
        max_ops: 4,
        max_conc: 4,
        pub_ack_variants: vec![(0, 0), (2, 1)],
        ..Default::default()
    };
    let depth = if rep.quick() { 6 } else { 9 };
    // (session expiry interval, seconds since disconnection): >= 6 s away from the boundary on the near side so that the wall clock cannot decide; exactly at the boundary (elapsed = interval) the session has expired however long the check itself takes; also elapsed times of 2^32 seconds and more, whose low 32 bits lie below the interval
    let configs: Vec<(u32, u64)> = vec![(0, 0), (0, 1000), (100, 0), (100, 50), (100, 94), (100, 106), (100, 1000), (100, 1_000_000_000), (NEVER, 0), (NEVER, 1000), (NEVER, 1_000_000_000), (5_000_000, 4_999_000), (100, 100), (1, 1), (5_000_000, 5_000_000), (3600, (1u64 << 32) + 10), (100, 1u64 << 32), (5_000_000, (1u64 << 33) + 5), (4_000_000_000, (1u64 << 32) + 100)];
    // (requested interval, CONNACK override, elapsed): the interval in force is the server's when it sends one
    let overrides: Vec<(u32, u32, u64)> = vec![(3600, 0, 1), (NEVER, 0, 1), (100, 1000, 500), (1000, 10, 100), (0, 500, 10), (100, NEVER, 100_000), (50, 50, 10)];
    rep.note(&format!("crash points: the connection is cut (EOF) after every path of <= {depth} actions over {{publish QoS 1/2, PUBACK, PUBREC ok/failing, PUBCOMP}}, then hook H1 backdates the disconnection and the context reconnects; x {} (expiry interval, elapsed) pairs incl. 0, finite before/after expiry (>= 6 s from the boundary), never, and 7 cases where the CONNACK of the resuming connection overrides the requested interval (to 0, shorter, longer, never); the second wire before any new request is compared with the model, then acknowledgements are delivered on the new connection", configs.len()));
    let mut all: Vec<(u32, Option<u32>, u64, Option<u16>, Option<u32>)> = configs.iter().map(|&(i, a)| (i, None, a, None, None)).collect();
    all.extend(overrides.iter().map(|&(i, o, a)| (i, Some(o), a, None, None)));
    // the CONNACK of the resuming connection announces its own Receive Maximum (below, at and above the number of
    // unfinished handshakes) and Maximum Packet Size: every unfinished handshake is re-sent all the same
    let limits: Vec<(u32, u64, Option<u16>, Option<u32>)> = vec![(NEVER, 10, Some(1), None), (3600, 10, Some(2), None), (3600, 100, Some(3), Some(1000)), (NEVER, 0, Some(65535), Some(u32::MAX)), (0, 10, Some(1), None)];
    rep.note(&format!("{} further configurations in which the CONNACK of the resuming connection announces Receive Maximum 1 / 2 / 3 / 65535 (up to 4 handshakes unfinished) and a Maximum Packet Size", limits.len()));
    all.extend(limits.iter().map(|&(i, a, r, m)| (i, None, a, r, m)));
    for (ci, &(interval, over, ago, rmax, mps)) in all.iter().enumerate() {
        let name = format!("exh-c{ci}");
        let seed = rep.seed;
        let d = if ci == 3 || ci == 5 || ci == 0 { depth } else { depth - 1 };
        let body = |rep: &mut Rep, ch: &mut Chooser| {
            // the first connection is established by connect() or, in every second configuration, through authorize()
            let mut w = World::boot(WorldCfg { seed, sei: Some(interval), via_auth: Some(ci % 2 == 1), ..Default::default() });
            // in two of three configurations every third publish has RETAIN set and carries a content type and a user
            // property (20 to 17 000 bytes): the copy that is re-sent must be the packet that was sent, DUP aside
            w.rich_pubs = ci % 3 != 1 && mps.is_none();
            w.rich_phase = (ci / 3) % 3;
            let acts = run_path_nofinish(&mut w, &a, ch);
            if ch.probe {
                return;
            }
            let id = format!("{name}:{}", ch.id());
            // cut the connection: end-of-stream, or a write error that hits the next packet the client writes - the PUBREL
            // answering a PUBREC if a QoS 2 publish is waiting for one, else a new QoS 1 PUBLISH (0-3 bytes of it get out)
            // ... or the application's own DISCONNECT: the session (expiry interval permitting) outlives that too
            let cut_mode = (acts.len() + ci + ch.id().len()) % 4;
            if cut_mode == 0 {
                w.eof();
            } else if cut_mode == 3 {
                apply(&mut w, Act::Term(TermAct::UserDisconnect));
                rep.add("connections_ended_by_the_users_disconnect", 1);
            } else {
                let at = w.sim.written_len() + if cut_mode == 2 { acts.len() % 4 } else { 0 };
                w.sim.writer.0.borrow_mut().err_at = Some(at);
                w.sim.note(|| format!("transport: writes fail from offset {at}"));
                w.term = Some(Term::WriteErr);
                let waiting = w.ackable().into_iter().find(|&(i, st)| st == 1 && w.m[i].kind == Kind::Pub2);
                match waiting {
                    Some((i, _)) => w.deliver_ack(i, 1, 0, 0),
                    None => {
                        let i = w.start(0, Kind::Pub1);
                        w.m[i].after_term = true;
                    }
                }
                rep.add("connections_cut_by_write_error", 1);
            }
            w.settle_check();
            let exp = expired(over.unwrap_or(interval), ago);
            let (pubs, rels) = w.unfinished();
            // every third case re-establishes the connection through an extended authentication exchange
            let via_auth = (acts.len() + ci) % 3 == 2;
            if via_auth {
                rep.add("resumptions_through_authorize", 1);
            }
            let resumed = w.resume_full(ResumeOpts { secs_ago: ago, sei: Some(interval), connack_sei: over, receive_max: rmax, max_packet: mps, expect_expired: exp, plain: false, via_auth, trailing: (acts.len() % 2) as u8 });
            if rmax.is_some() {
                rep.add("resumptions_with_connack_receive_maximum", 1);
                if !exp && (pubs.len() + rels.len()) as u32 > rmax.unwrap() as u32 {
                    rep.add("resumptions_with_more_unfinished_handshakes_than_receive_maximum", 1);
                }
            }
            if over.is_some() {
                rep.add("resumptions_with_connack_expiry_override", 1);
            }
            rep.add("resumptions", 1);
            if exp {
                rep.add("expired_sessions", 1);
            } else {
                rep.add("resumed_sessions", 1);
                rep.add("publishes_expected_resent", pubs.len() as i64);
                rep.add("pubrels_expected_resent", rels.len() as i64);
            }
            // half of the cases: more traffic on the resumed connection, a second connection loss and a second resumption
            let second = resumed && !w.blind && (acts.len() + ci) % 2 == 1;
            if second {
                w.start(0, Kind::Pub2);
                w.settle_check();
                w.start(1, Kind::Pub1);
                w.settle_check();
                if let Some(&(i, st)) = w.ackable().first() {
                    w.deliver_ack(i, st, 0, 0);
                    w.settle_check();
                }
                // with a Receive Maximum announced by the resuming CONNACK, every other case has the broker acknowledge
                // everything before the connection is lost again: none of it may come back on the third connection
                if rmax.is_some() {
                    rep.add("second_blocks_with_a_receive_maximum", 1);
                }
                if rmax.is_some() && (acts.len() / 2) % 2 == 0 {
                    for _ in 0..12 {
                        let Some(&(i, st)) = w.ackable().first() else { break };
                        w.deliver_ack(i, st, 0, 0);
                        w.settle_check();
                    }
                    rep.add("second_losses_with_everything_acknowledged", 1);
                }
                w.eof();
                w.settle_check();
                let (p2, r2) = w.unfinished();
                let again = w.resume_full(ResumeOpts { secs_ago: if interval == NEVER { 5 } else { 1 }, sei: Some(interval), connack_sei: over, receive_max: rmax, max_packet: mps, expect_expired: false, plain: false, via_auth: false, trailing: 0 });
                rep.add("second_resumptions", 1);
                rep.add("publishes_expected_resent", p2.len() as i64);
                rep.add("pubrels_expected_resent", r2.len() as i64);
                if !again {
                    w.blind = true;
                }
            }
            if resumed && !w.blind {
                // the original futures complete on the acknowledgements received on the new connection
                for _ in 0..4 {
                    let ackable = w.ackable();
                    if ackable.is_empty() {
                        break;
                    }
                    for (i, st) in ackable {
                        w.deliver_ack(i, st, 0, 0);
                        w.settle_check();
                        rep.add("acks_on_resumed_connection", 1);
                    }
                }
                for i in 0..w.m.len() {
                    if w.m[i].kind.is_qos_pub() && w.m[i].accepted == Some(true) && !w.m[i].dropped && w.sim.ops[i].out.is_none() {
                        let k = w.m[i].kind.name();
                        w.viol(&["C17"], format!("C17/original-future-not-completed/{k}"), format!("op{i}: still pending after its acknowledgement was delivered on the resumed connection"));
                    }
                }
            }
            finish(&mut w);
            // everything observed after the resumption belongs to C17
            for v in w.viols.iter_mut() {
                if !v.props.contains(&"C17") && !v.props.contains(&"*") && !v.props.contains(&"C10") {
                    v.sig = format!("C17/after-resume/{}", v.sig);
                    v.props = &["C17"];
                }
            }
            rep.add("evaluations", 1);
            rep.distinct(&(interval, ago, w.shape()));
            if harvest(rep, &mut w, &id) == 0 && !pubs.is_empty() && !rels.is_empty() {
                rep.sample(|| format!("{id} expiry={interval} elapsed={ago} expired={exp} history {:?} -> re-sent publishes of ops {:?}, pubrels of ops {:?}", acts, pubs, rels));
            }
            add_counters(rep, &w);
        };
        if let Some(only) = rep.only.clone() {
            if let Some(path) = only.strip_prefix(&format!("{name}:")) {
                let mut ch = Chooser::fixed(enumerate::parse_id(path));
                body(rep, &mut ch);
            }
            continue;
        }
        let (shard, nshards) = (rep.shard, rep.nshards);
        let cell = std::cell::RefCell::new(&mut *rep);
        enumerate::explore(d, 2, shard, nshards, |ch| body(&mut cell.borrow_mut(), ch));
    }
    // publishes whose futures were dropped - before the context had even looked at the request, while waiting for the
    // acknowledgement, between the QoS 2 phases - are unfinished handshakes like any other: what went onto the wire and was
    // not acknowledged is re-sent
    rep.note("cancelled publishes: 1-4 QoS 1/2 publishes queued while the context is held, every subset of their futures dropped before the context runs (and, in other cases, after the PUBLISH was written / after PUBREC), connection lost, session resumed: every PUBLISH on the first wire without acknowledgement is re-sent with DUP=1 in order, the surviving futures complete");
    let mut cidx = 83_000_000u64;
    for n in 1..=4usize {
        for mask in 0..(1u32 << n) {
            for when in 0..3u8 {
                let id = format!("cancelled:{n}:{mask}:{when}");
                cidx += 1;
                if !rep.take(cidx, &id) {
                    continue;
                }
                let mut w = World::boot(WorldCfg { seed: rep.seed, sei: Some(3600), ..Default::default() });
                if when == 0 {
                    w.sim.hold_ctx = true;
                }
                let mut ops = Vec::new();
                for j in 0..n {
                    ops.push(w.start(j % 2, if j % 2 == 0 { Kind::Pub1 } else { Kind::Pub2 }));
                    if when != 0 {
                        w.settle_check();
                    }
                }
                if when == 2 {
                    for &i in &ops {
                        if w.m[i].kind == Kind::Pub2 && w.ackable().contains(&(i, 1)) {
                            w.deliver_ack(i, 1, 0, 0);
                            w.settle_check();
                        }
                    }
                }
                for (j, &i) in ops.iter().enumerate() {
                    if mask >> j & 1 == 1 && w.sim.ops[i].task.alive() {
                        w.drop_op(i);
                    }
                }
                w.sim.hold_ctx = false;
                w.settle_check();
                w.eof();
                w.settle_check();
                let (pubs, rels) = w.unfinished();
                let resumed = w.resume_full(ResumeOpts { secs_ago: 1, sei: Some(3600), ..Default::default() });
                rep.add("resumptions", 1);
                rep.add("resumed_sessions", 1);
                rep.add("publishes_expected_resent", pubs.len() as i64);
                rep.add("pubrels_expected_resent", rels.len() as i64);
                if resumed && !w.blind {
                    for _ in 0..3 {
                        for (i, st) in w.ackable() {
                            w.deliver_ack(i, st, 0, 0);
                            w.settle_check();
                        }
                    }
                }
                finish(&mut w);
                for v in w.viols.iter_mut() {
                    if !v.props.contains(&"C17") && !v.props.contains(&"*") && !v.props.contains(&"C10") {
                        v.sig = format!("C17/after-resume/{}", v.sig);
                        v.props = &["C17"];
                    }
                }
                rep.add("evaluations", 1);
                rep.add("cancelled_publish_cases", 1);
                rep.distinct(&("cancelled", n, mask, when));
                if harvest(rep, &mut w, &id) == 0 {
                    rep.sample(|| format!("{id}: {} PUBLISH and {} PUBREL re-sent although {} of the futures had been dropped", pubs.len(), rels.len(), mask.count_ones()));
                }
                add_counters(rep, &w);
            }
        }
    }
    // a resumption that breaks down while re-sending (write error 0-40 bytes into what run() writes), followed by another
    // resumption: the session must still know every unfinished handshake
    rep.note("broken resumption: 1-5 unfinished handshakes; on the resumed connection the transport fails 0 / 2 / 4 / 5 / 9 / 13 / 20 / 40 bytes into the re-sending, run() ends; the session is resumed once more on a healthy connection: everything unfinished is re-sent in order and the original futures complete");
    let mut bidx = 85_000_000u64;
    for unfinished in 1..=5usize {
        for fail_after in [0usize, 2, 4, 5, 9, 13, 20, 40] {
            let id = format!("broken:{unfinished}:{fail_after}");
            bidx += 1;
            if !rep.take(bidx, &id) {
                continue;
            }
            let mut w = World::boot(WorldCfg { seed: rep.seed, sei: Some(3600), ..Default::default() });
            for j in 0..unfinished {
                let i = w.start(j % 2, if j % 2 == 1 { Kind::Pub2 } else { Kind::Pub1 });
                w.settle_check();
                if j == 1 {
                    w.deliver_ack(i, 1, 0, 0);
                    w.settle_check();
                }
            }
            w.eof();
            w.settle_check();
            // first resumption: breaks down
            w.sim.cmd(crate::sim::Cmd::MarkDisconnected(1));
            w.sim.new_transport();
            w.sim.cmd(crate::sim::Cmd::Connect(crate::spec::ConnSpec { sei: Some(3600), client_id: Some("c".into()), ..Default::default() }));
            w.sim.settle();
            w.sim.feed_packet(&crate::refcodec::SPacket::Connack { session_present: true, reason: 0, props: vec![] });
            w.sim.settle();
            let at = w.sim.written_len() + fail_after;
            w.sim.writer.0.borrow_mut().err_at = Some(at);
            w.sim.note(|| format!("transport: writes fail from offset {at} (during the re-sending)"));
            w.sim.cmd(crate::sim::Cmd::Run);
            w.sim.settle();
            if w.sim.run_result().is_none() {
                // the fault lay beyond everything that was re-sent: end this connection by end-of-stream instead
                w.sim.set_eof();
                w.sim.settle();
            }
            rep.add("resumptions_broken_while_resending", 1);
            for p in w.sim.panics.clone() {
                w.viol(&["C17"], format!("C17/panic/{p}"), format!("panic during the broken resumption: {p}"));
            }
            // second resumption: healthy
            let (pubs, rels) = w.unfinished();
            let resumed = w.resume_full(ResumeOpts { secs_ago: 1, sei: Some(3600), ..Default::default() });
            rep.add("resumptions", 1);
            rep.add("resumed_sessions", 1);
            rep.add("publishes_expected_resent", pubs.len() as i64);
            rep.add("pubrels_expected_resent", rels.len() as i64);
            if resumed && !w.blind {
                for _ in 0..3 {
                    for (i, st) in w.ackable() {
                        w.deliver_ack(i, st, 0, 0);
                        w.settle_check();
                        rep.add("acks_on_resumed_connection", 1);
                    }
                }
                for i in 0..w.m.len() {
                    if w.m[i].kind.is_qos_pub() && w.m[i].accepted == Some(true) && !w.m[i].dropped && w.sim.ops[i].out.is_none() {
                        let k = w.m[i].kind.name();
                        w.viol(&["C17"], format!("C17/original-future-not-completed/{k}"), format!("op{i}: still pending after its acknowledgement was delivered on the resumed connection"));
                    }
                }
            }
            finish(&mut w);
            for v in w.viols.iter_mut() {
                if !v.props.contains(&"C17") && !v.props.contains(&"*") && !v.props.contains(&"C10") {
                    v.sig = format!("C17/after-resume/{}", v.sig);
                    v.props = &["C17"];
                }
            }
            rep.add("evaluations", 1);
            rep.add("broken_resumption_cases", 1);
            rep.distinct(&("broken", unfinished, fail_after));
            if harvest(rep, &mut w, &id) == 0 {
                rep.sample(|| format!("{id}: after a resumption that failed {fail_after} bytes into the re-sending, {} PUBLISH and {} PUBREL were re-sent in order on the next one", pubs.len(), rels.len()));
            }
            add_counters(rep, &w);
        }
    }
    // many unfinished handshakes at once (the enumeration above keeps at most 4 in flight)
    let ns: Vec<usize> = if rep.quick() { vec![9, 17, 33, 65, 129, 300] } else { vec![7, 8, 9, 15, 16, 17, 31, 32, 33, 63, 64, 65, 127, 128, 129, 255, 256, 257, 1000, 3000] };
    rep.note(&format!("wide: {:?} QoS 1/2 publishes unfinished at once (a sixth of them already released by PUBREC, some acknowledged and finished in between), connection cut, session resumed: all of them re-sent in order, all futures complete on the new connection; also with the resuming CONNACK announcing Receive Maximum 10", ns));
    let mut widx = 80_000_000u64;
    for (ni, &n) in ns.iter().enumerate() {
        for variant in 0..3u8 {
            let id = format!("wide:{n}:{variant}");
            widx += 1;
            if !rep.take(widx, &id) {
                continue;
            }
            let mut w = World::boot(WorldCfg { seed: rep.seed.wrapping_add(ni as u64), sei: Some(3600), ..Default::default() });
            w.sim.log_enabled = n <= 40;
            for j in 0..n {
                let i = w.start(j % 2, if j % 3 == 2 { Kind::Pub2 } else { Kind::Pub1 });
                if j % 6 == 5 || j % 7 == 3 {
                    // (the model learns what is on the wire when it checks)
                    w.settle_check();
                } else {
                    w.settle();
                }
                if j % 6 == 5 && w.m[i].req_wire.is_some() {
                    w.deliver_ack(i, 1, 0, 0);
                    w.settle_check();
                }
                if j % 7 == 3 {
                    // one exchange finishes completely in between
                    if let Some(&(k, st)) = w.ackable().first() {
                        w.deliver_ack(k, st, 0, 0);
                        w.settle_check();
                        if let Some(&(k2, st2)) = w.ackable().iter().find(|(x, s2)| *x == k && *s2 == 2) {
                            w.deliver_ack(k2, st2, 0, 0);
                            w.settle_check();
                        }
                    }
                }
            }
            w.settle_check();
            if variant == 1 {
                w.read_err();
            } else {
                w.eof();
            }
            w.settle_check();
            let (pubs, rels) = w.unfinished();
            let resumed = w.resume_full(ResumeOpts { secs_ago: 1, sei: Some(3600), receive_max: if variant == 2 { Some(10) } else { None }, ..Default::default() });
            rep.add("resumptions", 1);
            rep.add("resumed_sessions", 1);
            rep.add("publishes_expected_resent", pubs.len() as i64);
            rep.add("pubrels_expected_resent", rels.len() as i64);
            rep.max("max_handshakes_resent_at_once", (pubs.len() + rels.len()) as i64);
            if resumed && !w.blind {
                for _ in 0..3 {
                    for (i, st) in w.ackable() {
                        w.deliver_ack(i, st, 0, 0);
                        w.settle();
                        rep.add("acks_on_resumed_connection", 1);
                    }
                    w.settle_check();
                }
                for i in 0..w.m.len() {
                    if w.m[i].kind.is_qos_pub() && w.m[i].accepted == Some(true) && !w.m[i].dropped && w.sim.ops[i].out.is_none() {
                        let k = w.m[i].kind.name();
                        w.viol(&["C17"], format!("C17/original-future-not-completed/{k}"), format!("op{i}: still pending after its acknowledgement was delivered on the resumed connection"));
                    }
                }
            }
            finish(&mut w);
            for v in w.viols.iter_mut() {
                if !v.props.contains(&"C17") && !v.props.contains(&"*") && !v.props.contains(&"C10") {
                    v.sig = format!("C17/after-resume/{}", v.sig);
                    v.props = &["C17"];
                }
            }
            rep.add("evaluations", 1);
            rep.add("wide_cases", 1);
            rep.distinct(&("wide", n, variant));
            if harvest(rep, &mut w, &id) == 0 {
                rep.sample(|| format!("{id}: {} PUBLISH and {} PUBREL re-sent in order, all futures completed", pubs.len(), rels.len()));
            }
            add_counters(rep, &w);
        }
    }
}
