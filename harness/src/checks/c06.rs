//! C06 — outbound QoS 1/2 publishes follow the MQTT handshake and report its outcome.

use super::script::*;
use super::{add_counters, explore_world, harvest, walk_world};
use crate::refcodec::AckKind;
use crate::report::Rep;
use crate::world::*;

pub fn run(rep: &mut Rep) {
    // QoS 1 / QoS 2 exchanges outstanding together under identifiers that a lossy correlation key would confuse
    super::c05::identifier_pairs(rep, &[Kind::Pub1, Kind::Pub2]);
    // 1. structured sweep: QoS x every legal reason code x form x delayed polling x companion traffic
    let mut idx = 0u64;
    for qos in [0u8, 1, 2] {
        let n1 = match qos {
            0 => 1,
            1 => AckKind::Puback.legal_reasons().len(),
            _ => AckKind::Pubrec.legal_reasons().len(),
        };
        for r1 in 0..n1 {
            let n2 = if qos == 2 { AckKind::Pubcomp.legal_reasons().len() } else { 1 };
            for r2 in 0..n2 {
                for form in [0u8, 1] {
                    for hold in [false, true] {
                        for companion in 0..4u8 {
                            for order in 0..2u8 {
                                let id = format!("sweep:q{qos}:r{r1}:{r2}:f{form}:h{}:c{companion}:o{order}", hold as u8);
                                idx += 1;
                                if !rep.take(idx, &id) {
                                    continue;
                                }
                                // packet identifiers across the byte / sign / wrap boundaries (hook H2)
                                let ids = [1u16, 255, 256, 0x7fff, 0x8000, 65534];
                                let pid = ids[(companion as usize + order as usize * 4 + r1 + hold as usize * 2) % ids.len()];
                                let mut w = World::boot(WorldCfg { seed: rep.seed, order, seed_ids: Some((pid, 1)), ..Default::default() });
                                let mut comp = None;
                                match companion {
                                    1 => comp = Some(w.start(1, Kind::Sub)),
                                    2 => comp = Some(w.start(1, Kind::Pub1)),
                                    3 => {
                                        w.in_publish(1, 9, false, &[], false);
                                    }
                                    _ => {}
                                }
                                w.settle_check();
                                let kind = [Kind::Pub0, Kind::Pub1, Kind::Pub2][qos as usize];
                                let op = w.start(0, kind);
                                w.settle_check();
                                if qos > 0 {
                                    if hold {
                                        w.sim.ops[op].held = true;
                                    }
                                    if companion == 3 {
                                        w.in_publish(2, 10, false, &[], false);
                                    }
                                    if w.ackable().contains(&(op, 1)) {
                                        w.deliver_ack(op, 1, r1, form);
                                    }
                                    w.settle_check();
                                    if hold {
                                        // the future is polled late: only now may the second phase start
                                        w.sim.ops[op].held = false;
                                        w.settle_check();
                                    }
                                    if let (Some(c), true) = (comp, companion == 2) {
                                        if w.ackable().contains(&(c, 1)) {
                                            w.deliver_ack(c, 1, 0, 0);
                                            w.settle_check();
                                        }
                                    }
                                    if qos == 2 && w.ackable().contains(&(op, 2)) {
                                        w.deliver_ack(op, 2, r2, form);
                                        w.settle_check();
                                    }
                                }
                                finish(&mut w);
                                rep.add("evaluations", 1);
                                rep.add("sweep_cases", 1);
                                rep.distinct(&(qos, r1, r2, form, hold, companion, w.shape()));
                                if harvest(rep, &mut w, &id) == 0 {
                                    rep.sample(|| format!("{id} -> result {:?}", w.sim.ops[op].out.as_ref().map(|o| o.brief())));
                                }
                                add_counters(rep, &w);
                            }
                        }
                    }
                }
            }
        }
    }
    rep.note("sweep: QoS 0/1/2 x every legal PUBACK(9)/PUBREC(9)/PUBCOMP(2) reason x short/full form x QoS 2 future polled promptly or late x companion {none, subscribe outstanding, QoS 1 publish outstanding, inbound QoS 1/2 traffic} x 2 poll orders x packet identifiers {1,255,256,0x7fff,0x8000,65534..} via hook H2");
    // 1b. the same handshakes for publishes carrying rarely used options whose encoded size crosses the length-field
    //     boundaries (the PUBLISH on the connection must be exactly one well-formed packet with the requested content)
    rep.note("options: QoS 0/1/2 publishes with a content type of 20 / 110 / 117-120 (property length 127 -> 128) / 300 / 17 000 bytes plus a user property, acknowledged with success and with a failure reason; QoS 2 through both phases");
    for qos in [0u8, 1, 2] {
        for v in 0..8usize {
            for fail in [false, true] {
                let id = format!("options:q{qos}:{v}:{}", fail as u8);
                idx += 1;
                if !rep.take(idx, &id) {
                    continue;
                }
                let mut w = World::boot(WorldCfg { seed: rep.seed, ..Default::default() });
                w.rich_pubs = true;
                // filler operations so that the publish is operation number 3v+2 (which selects the v-th option size)
                for _ in 0..(3 * v + 2) {
                    w.start(0, Kind::Ping);
                    w.settle();
                    w.pingresp();
                    w.settle();
                }
                w.settle_check();
                let kind = [Kind::Pub0, Kind::Pub1, Kind::Pub2][qos as usize];
                let op = w.start(1, kind);
                w.settle_check();
                if qos > 0 && w.ackable().contains(&(op, 1)) {
                    w.deliver_ack(op, 1, if fail && qos == 1 { 3 } else { 0 }, 1);
                    w.settle_check();
                    if qos == 2 && w.ackable().contains(&(op, 2)) {
                        w.deliver_ack(op, 2, if fail { 1 } else { 0 }, 0);
                        w.settle_check();
                    }
                }
                finish(&mut w);
                rep.add("evaluations", 1);
                rep.add("publishes_with_options", 1);
                rep.distinct(&("options", qos, v, fail));
                if harvest(rep, &mut w, &id) == 0 {
                    rep.sample(|| format!("{id} -> {:?}", w.sim.ops[op].out.as_ref().map(|o| o.brief())));
                }
                add_counters(rep, &w);
            }
        }
    }
    // 1b'. publishes whose Remaining Length sits exactly on, one below and one above every step of its variable byte
    //      integer (127/128, 16 383/16 384, 2 097 151/2 097 152)
    rep.note("length steps: QoS 0/1/2 publishes whose PUBLISH has a Remaining Length of 126..129, 16 382..16 385, 2 097 150..2 097 153 bytes, through the whole handshake");
    for target in [126usize, 127, 128, 129, 16_382, 16_383, 16_384, 16_385, 2_097_150, 2_097_151, 2_097_152, 2_097_153] {
        for qos in [0u8, 1, 2] {
            let id = format!("lenstep:{target}:q{qos}");
            idx += 1;
            if !rep.take(idx, &id) {
                continue;
            }
            let mut w = World::boot(WorldCfg { seed: rep.seed, ..Default::default() });
            w.sim.log_enabled = target < 100_000;
            // operation 0: topic "o/0" (2 + 3 bytes), packet identifier (2 bytes unless QoS 0), property length (1 byte)
            let overhead = 2 + 3 + if qos > 0 { 2 } else { 0 } + 1;
            w.payload_sizes.insert(0, target - overhead);
            let kind = [Kind::Pub0, Kind::Pub1, Kind::Pub2][qos as usize];
            let op = w.start(0, kind);
            w.settle_check();
            if qos > 0 && w.ackable().contains(&(op, 1)) {
                w.deliver_ack(op, 1, 0, 0);
                w.settle_check();
                if qos == 2 && w.ackable().contains(&(op, 2)) {
                    w.deliver_ack(op, 2, 0, 0);
                    w.settle_check();
                }
            }
            // the packet on the wire has exactly the intended Remaining Length
            w.sim.parse_wire();
            let on_wire = w.sim.wire.iter().find_map(|p| match &p.pkt {
                Ok(crate::refcodec::CPacket::Publish(_)) => Some(p.bytes.len()),
                _ => None,
            });
            let want_total = 1 + crate::refcodec::varint_len(target as u32) + target;
            if on_wire != Some(want_total) && w.viols.is_empty() {
                w.viol(&["C06"], "C06/publish-not-on-wire-as-requested/length-step".into(), format!("a publish whose PUBLISH needs Remaining Length {target} ({want_total} bytes in all) appears on the wire as {:?} bytes", on_wire));
            }
            finish(&mut w);
            rep.add("evaluations", 1);
            rep.add("length_step_publishes", 1);
            rep.distinct(&("lenstep", target, qos));
            if harvest(rep, &mut w, &id) == 0 {
                rep.sample(|| format!("{id} -> {:?}", w.sim.ops[op].out.as_ref().map(|o| o.brief())));
            }
            add_counters(rep, &w);
        }
    }
    // 1c. the handshakes of publishes carried into a resumed connection
    {
        let mut ridx = 30_000_000u64;
        super::c05::resumed_connection(rep, &mut ridx);
    }
    // 2. bounded-exhaustive interleavings
    let a = Alpha {
        kinds: vec![Kind::Pub0, Kind::Pub1, Kind::Pub2, Kind::Ping],
        max_ops: 3,
        max_conc: 3,
        pub_ack_variants: vec![(0, 0), (1, 1), (4, 1)],
        holds: true,
        inbound: vec![(1, 1, false, SubSel::Absent)],
        max_inbound: 1,
        writer_stall: true,
        ..Default::default()
    };
    let depth = if rep.quick() { 6 } else { 9 };
    rep.note(&format!("exhaustive: every path of <= {depth} actions over {{start pub0/pub1/pub2/ping (<=3 ops), deliver PUBACK/PUBREC/PUBCOMP with reason 0x00 / 0x10 / 0x87, hold/release the QoS 2 future, stall/release the writer (a publish may not report success before its bytes are accepted), one inbound QoS 1 PUBLISH}}"));
    let seed = rep.seed;
    explore_world(rep, "exh", depth, &move || World::boot(WorldCfg { seed, ..Default::default() }), &a);
    // the handshake rules do not depend on the caller still waiting: a QoS 2 exchange whose future was dropped goes on
    let mut ac = a.clone();
    ac.kinds = vec![Kind::Pub2, Kind::Pub1, Kind::Ping];
    ac.drops = true;
    ac.holds = false;
    ac.writer_stall = false;
    ac.inbound = vec![];
    ac.max_inbound = 0;
    rep.note("exhaustive with cancellation: the same paths over {pub2, pub1, ping} plus 'drop the future of any pending operation': PUBREC of an abandoned QoS 2 publish is still answered by exactly one PUBREL, PUBCOMP still ends the exchange");
    explore_world(rep, "exhc", depth, &move || World::boot(WorldCfg { seed, ..Default::default() }), &ac);
    let mut wa = a.clone();
    wa.max_ops = 300;
    wa.max_conc = 5;
    wa.max_inbound = 50;
    wa.pub_ack_variants = (0..9).map(|r| (r as u8, (r % 2) as u8)).collect();
    let walks = if rep.quick() { 150 } else { 3000 };
    walk_world(rep, "walk", walks, if rep.quick() { 300 } else { 800 }, &|s| World::boot(WorldCfg { seed: s, order: (s % 4) as u8, ..Default::default() }), &wa);
    // the handshake carried across connections of the same Context
    let mut wr = wa.clone();
    wr.terms = vec![TermAct::Eof, TermAct::ReadErr, TermAct::ServerDisconnect { reason: 0x8b, form: 2, props: false }];
    wr.reconnect = true;
    wr.drops = true;
    wr.writer_stall = false;
    rep.note("walks across connections: after EOF / read error / server DISCONNECT the same Context is connected again (session resumed, resumed under Receive Maximum 2, expired, or no disconnection recorded) and the walk goes on: re-sent handshakes finish with the acknowledgements of the new connection, new publishes follow the handshake rules");
    walk_world(rep, "walkrc", walks, if rep.quick() { 300 } else { 800 }, &|s| World::boot(WorldCfg { seed: s, sei: if s % 4 == 0 { None } else { Some(3600) }, order: (s % 4) as u8, ..Default::default() }), &wr);
}
