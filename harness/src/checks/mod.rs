//! One module per property. Each `run(rep)` executes the cases owned by this worker's shard.

use crate::report::Rep;
use crate::world::World;

pub mod c01;
pub mod c02;
pub mod c03;
pub mod c04;
pub mod c05;
pub mod c06;
pub mod c07;
pub mod c09;
pub mod c10;
pub mod c11;
pub mod c12;
pub mod c13;
pub mod c14;
pub mod c15;
pub mod c16;
pub mod c17;
pub mod mt;
pub mod c08;
pub mod script;

use crate::enumerate::{self, Chooser};
use script::{Act, Alpha};

pub fn dispatch(check: &str, rep: &mut Rep) -> bool {
    match check {
        "c01" => c01::run(rep),
        "c02" => c02::run(rep),
        "c03" => c03::run(rep),
        "c04" => c04::run(rep),
        "c05" => c05::run(rep),
        "c06" => c06::run(rep),
        "c07" => c07::run(rep),
        "c08" => c08::run(rep),
        "c09" => c09::run(rep),
        "c10" => c10::run(rep),
        "c11" => c11::run(rep),
        "c12" => c12::run(rep),
        "c13" => c13::run(rep),
        "c14" => c14::run(rep),
        "c15" => c15::run(rep),
        "c16" => c16::run(rep),
        "c17" => c17::run(rep),
        _ => return false,
    }
    true
}

/// Moves the world's violations into the report, keeping those that belong to `prop`
/// (or to every property: panics). Others are only counted.
pub fn harvest(rep: &mut Rep, w: &mut World, case: &str) -> usize {
    let prop = rep.prop.clone();
    let mut n = 0;
    for v in w.take_viols() {
        // run() giving up on a connection on which nothing terminating happened defeats whatever the property under test
        // promises for that connection (messages not delivered, acknowledgements not written, operations never completed)
        if v.sig.starts_with("run-returned-without-cause") && !v.props.contains(&prop.as_str()) && matches!(prop.as_str(), "C05" | "C06" | "C07" | "C08" | "C09" | "C10" | "C11" | "C16" | "C17") {
            rep.violation(&format!("{prop}/connection-given-up/{}", v.sig), case, &v.detail);
            n += 1;
            continue;
        }
        if v.props.contains(&prop.as_str()) || v.props.contains(&"*") {
            let sig = if v.props.contains(&"*") { format!("{}/{}", prop, v.sig) } else { v.sig.clone() };
            rep.violation(&sig, case, &v.detail);
            n += 1;
        } else {
            rep.add("violations_of_other_properties_seen", 1);
        }
    }
    n
}

pub fn add_counters(rep: &mut Rep, w: &World) {
    let c = &w.counters;
    rep.add("model_checks", c.checks as i64);
    rep.add("wire_packets_decoded", c.wire_packets as i64);
    rep.add("acks_delivered", c.acks_delivered as i64);
    rep.add("op_results_matched_to_their_ack", c.acks_matched as i64);
    rep.add("op_completions_checked", c.completions_checked as i64);
    rep.add("op_pending_checked", c.pending_checked as i64);
    rep.add("inbound_publishes", c.inbound_publishes as i64);
    rep.add("inbound_publishes_with_varied_size", c.sized_inbound as i64);
    rep.add("publishes_built_with_every_setter_called_twice", c.pubs_set_twice as i64);
    rep.add("resent_publishes_with_retain_and_properties", c.resent_with_options as i64);
    rep.add("inbound_publishes_with_every_forwardable_property", c.rich_inbound as i64);
    rep.add("inbound_publishes_with_topic_alias_in_place_of_the_topic", c.alias_only_inbound as i64);
    rep.add("publishes_with_multi_byte_characters_in_the_topic", c.utf8_topic_pubs as i64);
    rep.add("server_disconnects_ending_in_a_user_property_with_empty_value", c.disconnects_ending_in_empty_value as i64);
    rep.add("requests_over_the_maximum_packet_size", c.oversize_refusals_expected as i64);
    rep.add("packets_arriving_together_with_the_connack_of_a_later_connection", c.packets_arriving_with_connack as i64);
    rep.add("user_disconnects_with_options_compared", c.disconnects_with_options as i64);
    rep.add("inbound_pubrel_with_reason_0x92", c.pubrel_not_found as i64);
    rep.add("acks_with_property_section_over_110_bytes", c.long_ack_props as i64);
    rep.add("inbound_acks_matched", c.inbound_acks_matched as i64);
    rep.add("stream_items_checked", c.stream_items_checked as i64);
    rep.add("quota_refusals_seen", c.quota_refusals as i64);
    rep.add("quota_accepts_seen", c.quota_accepts as i64);
    rep.add("slot_releases", c.slot_releases as i64);
    rep.add("qos2_redeliveries", c.redeliveries as i64);
    rep.add("context_exited_results_seen", c.ctx_exited_seen as i64);
    rep.add("late_acks_for_cancelled_ops", c.late_acks as i64);
    rep.add("stray_acks", c.stray_acks as i64);
    rep.add("terminations_checked", c.term_checked as i64);
    rep.add("h3_snapshots", c.h3_snapshots as i64);
    rep.add("stream_handovers", w.sim.stream_handovers as i64);
    rep.add("task_handovers", w.sim.task_handovers as i64);
    rep.add("spurious_polls", w.sim.spurious_polls as i64);
    rep.add("sweeps", w.sim.sweeps as i64);
    rep.max("max_outstanding_reached", w.max_inflight_seen as i64);
    rep.max("max_transport_calls_in_one_poll", w.sim.max_io_calls_in_poll as i64);
}

/// Bounded-exhaustive exploration of every path of at most `depth` actions over `alpha`.
pub fn explore_world(rep: &mut Rep, name: &str, depth: usize, mk: &dyn Fn() -> World, alpha: &Alpha) {
    let body = |rep: &mut Rep, ch: &mut Chooser| {
        let mut w = mk();
        let acts = script::run_path(&mut w, alpha, ch);
        if ch.probe {
            return;
        }
        let id = format!("{name}:{}", ch.id());
        rep.add("evaluations", 1);
        rep.add("paths_enumerated", 1);
        rep.max("max_path_length", acts.len() as i64);
        rep.distinct(&w.shape());
        let nv = harvest(rep, &mut w, &id);
        if nv == 0 && acts.len() == depth {
            rep.sample(|| format!("{id} {:?}", acts));
        }
        add_counters(rep, &w);
    };
    if let Some(only) = rep.only.clone() {
        if let Some(path) = only.strip_prefix(&format!("{name}:")) {
            let mut ch = Chooser::fixed(enumerate::parse_id(path));
            body(rep, &mut ch);
        }
        return;
    }
    let (shard, nshards) = (rep.shard, rep.nshards);
    let mut rep_cell = std::cell::RefCell::new(rep);
    enumerate::explore(depth, 2, shard, nshards, |ch| {
        let mut r = rep_cell.borrow_mut();
        body(&mut r, ch)
    });
    let _ = &mut rep_cell;
}

/// Random walks over `alpha`.
pub fn walk_world(rep: &mut Rep, name: &str, walks: u64, steps: usize, mk: &dyn Fn(u64) -> World, alpha: &Alpha) {
    for k in 0..walks {
        let id = format!("{name}:{k}");
        if !rep.take(k, &id) {
            continue;
        }
        let seed = rep.seed.wrapping_mul(1_000_003).wrapping_add(k);
        let mut rng = crate::sim::Rng::new(seed);
        let mut w = mk(seed);
        // every second walk runs over a hostile transport: tiny reads, trickled arrival, partial or pending writes.
        // (the plan set by the caller, if any, is kept)
        if w.sim.writer.0.borrow().plan == crate::sim::WritePlan::All {
            apply_transport_variant(&mut w, k);
        }
        // every second walk varies the size of inbound messages across the client's buffer steps
        w.size_mix = k % 2 == 1;
        // ... and gives every third publish rarely used options of boundary sizes (only where no Maximum Packet Size limits them)
        w.rich_pubs = k % 4 >= 2 && w.max_packet.is_none();
        // ... and lets every second subscribe() carry three topic filters (only where no Maximum Packet Size limits them)
        w.multi_filter = k % 3 != 0 && w.max_packet.is_none();
        // ... and every eighth walk has publishes of 70 000 bytes and more among its requests
        w.huge_pubs = k % 8 == 3 && w.max_packet.is_none();
        // under a small Maximum Packet Size every third subscribe / unsubscribe is too large for it
        w.big_subs = w.max_packet.map(|m| m < 300).unwrap_or(false);
        // every third walk starts with the identifier counters at a boundary (hook H2); nothing has been allocated yet
        if k % 3 == 1 && w.m.is_empty() {
            let pids = [200u16, 250, 255, 256, 300, 0x7ff0, 0x7fff, 0xfff0, 65530, 65535];
            let sids = [100u32, 127, 128, 16380, 16384, 2_097_150, 2_097_152, 268_400_000];
            if let Some(h) = w.sim.handles[0].as_ref() {
                h.verif_seed_ids(pids[(k / 3) as usize % pids.len()], sids[(k / 7) as usize % sids.len()]);
            }
        }
        let acts = script::run_walk(&mut w, alpha, &mut rng, steps);
        rep.add("evaluations", 1);
        rep.add("random_walks", 1);
        rep.add(&format!("random_walks_transport_variant_{}", k % 8), 1);
        rep.add("random_walk_actions", acts.len() as i64);
        if w.reconnects > 0 {
            rep.add("walks_with_reconnection", 1);
            rep.add("reconnections_in_walks", w.reconnects as i64);
        }
        rep.distinct(&w.shape());
        let nv = harvest(rep, &mut w, &id);
        if nv == 0 {
            rep.sample(|| format!("{id} ({} actions) first 12: {:?}", acts.len(), &acts[..acts.len().min(12)]));
        }
        add_counters(rep, &w);
    }
}

/// Transport plans for random walks: 0-3 friendly, 4 = 1-byte read caps, 5 = 2-byte trickled arrival,
/// 6 = 1 byte per write call, 7 = Pending on every other write call + 1-byte read caps.
pub fn apply_transport_variant(w: &mut World, k: u64) {
    match k % 8 {
        4 => w.sim.reader.0.borrow_mut().default_cap = 1,
        5 => w.sim.trickle = Some(2),
        6 => w.sim.writer.0.borrow_mut().plan = crate::sim::WritePlan::Max(1),
        7 => {
            w.sim.writer.0.borrow_mut().plan = crate::sim::WritePlan::MaxPendingAlt(3);
            w.sim.reader.0.borrow_mut().default_cap = 1;
        }
        _ => {}
    }
}
