//! Stateless bounded-exhaustive exploration (CHESS style): a run consumes a choice vector;
//! after the run the vector is advanced like an odometer. Runs are re-executed from scratch.

pub struct Chooser {
    pub vec: Vec<u32>,
    pub arity: Vec<u32>,
    pub pos: usize,
    pub depth: usize,
    /// true while enumerating shard prefixes: the run must not report anything
    pub probe: bool,
}

impl Chooser {
    pub fn fixed(vec: Vec<u32>) -> Chooser {
        let depth = vec.len();
        Chooser { vec, arity: Vec::new(), pos: 0, depth, probe: false }
    }

    /// Picks one of `n` alternatives; None when the depth bound is reached (the script ends) or n == 0.
    pub fn choose(&mut self, n: usize) -> Option<usize> {
        if n == 0 || self.pos >= self.depth {
            return None;
        }
        if self.pos >= self.vec.len() {
            self.vec.push(0);
        }
        if self.pos >= self.arity.len() {
            self.arity.push(n as u32);
        } else {
            self.arity[self.pos] = n as u32;
        }
        let c = (self.vec[self.pos] as usize).min(n - 1);
        self.pos += 1;
        Some(c)
    }

    pub fn id(&self) -> String {
        self.vec[..self.pos.min(self.vec.len())].iter().map(|x| x.to_string()).collect::<Vec<_>>().join(".")
    }
}

pub fn parse_id(s: &str) -> Vec<u32> {
    if s.is_empty() {
        return vec![];
    }
    s.split('.').map(|x| x.parse().expect("harness: bad path id")).collect()
}

/// Advances positions >= `fixed` ; returns false when exhausted.
fn advance(vec: &mut Vec<u32>, arity: &[u32], used: usize, fixed: usize) -> bool {
    vec.truncate(used);
    let mut p = used;
    while p > fixed {
        p -= 1;
        if vec[p] + 1 < arity[p] {
            vec[p] += 1;
            vec.truncate(p + 1);
            return true;
        }
    }
    false
}

/// Explores every path up to `depth` choices. Work is split by the first `prefix_len` choices:
/// the prefixes are enumerated by short probe runs and dealt round-robin to the shards.
/// Returns the number of full paths executed by this shard.
pub fn explore(depth: usize, prefix_len: usize, shard: u64, nshards: u64, mut run: impl FnMut(&mut Chooser)) -> u64 {
    let prefix_len = prefix_len.min(depth);
    // 1. enumerate prefixes
    let mut prefixes: Vec<Vec<u32>> = Vec::new();
    {
        let mut vec: Vec<u32> = Vec::new();
        let mut arity: Vec<u32> = Vec::new();
        loop {
            let mut ch = Chooser { vec: std::mem::take(&mut vec), arity: std::mem::take(&mut arity), pos: 0, depth: prefix_len, probe: true };
            run(&mut ch);
            let used = ch.pos;
            vec = ch.vec;
            arity = ch.arity;
            prefixes.push(vec[..used].to_vec());
            if !advance(&mut vec, &arity, used, 0) {
                break;
            }
        }
    }
    // 2. full exploration below the owned prefixes
    let mut paths = 0;
    for (k, pre) in prefixes.iter().enumerate() {
        if k as u64 % nshards != shard {
            continue;
        }
        let mut vec = pre.clone();
        let mut arity: Vec<u32> = vec![0; pre.len()];
        loop {
            let mut ch = Chooser { vec: std::mem::take(&mut vec), arity: std::mem::take(&mut arity), pos: 0, depth, probe: false };
            run(&mut ch);
            paths += 1;
            let used = ch.pos;
            vec = ch.vec;
            arity = ch.arity;
            if used < pre.len() || !advance(&mut vec, &arity, used, pre.len()) {
                break;
            }
        }
    }
    paths
}
