//! Deterministic closed world around one client: scripted transport mocks, a waker-strict
//! executor, the context task, operation tasks and subscription streams.

use crate::refcodec::{self, CPacket, SPacket};
use crate::spec::*;
use futures::io::{AsyncRead, AsyncWrite};
use futures::Stream;
use poster::{Context, ContextHandle, SubscribeRsp};
use std::cell::RefCell;
use std::collections::VecDeque;
use std::future::Future;
use std::io;
use std::panic::{catch_unwind, AssertUnwindSafe};
use std::pin::Pin;
use std::rc::Rc;
use std::sync::atomic::{AtomicBool, AtomicU64, Ordering};
use std::sync::Arc;
use std::task::{Context as TaskCx, Poll, Wake, Waker};

// ---------------------------------------------------------------------- rng

#[derive(Clone)]
pub struct Rng(pub u64);

impl Rng {
    pub fn new(seed: u64) -> Rng {
        Rng(seed.wrapping_mul(0x9E37_79B9_7F4A_7C15) ^ 0xD1B5_4A32_D192_ED03)
    }
    pub fn next(&mut self) -> u64 {
        self.0 = self.0.wrapping_add(0x9E37_79B9_7F4A_7C15);
        let mut z = self.0;
        z = (z ^ (z >> 30)).wrapping_mul(0xBF58_476D_1CE4_E5B9);
        z = (z ^ (z >> 27)).wrapping_mul(0x94D0_49BB_1331_11EB);
        z ^ (z >> 31)
    }
    pub fn below(&mut self, n: usize) -> usize {
        if n == 0 {
            0
        } else {
            (self.next() % n as u64) as usize
        }
    }
    pub fn chance(&mut self, num: u64, den: u64) -> bool {
        self.next() % den < num
    }
    pub fn pick<'a, T>(&mut self, v: &'a [T]) -> &'a T {
        &v[self.below(v.len())]
    }
}

// -------------------------------------------------------------- panic capture

thread_local! {
    static PANIC_MSG: RefCell<Option<String>> = RefCell::new(None);
    static IN_LIB_POLL: std::cell::Cell<bool> = std::cell::Cell::new(false);
}

/// Progress heartbeat (bumped around every poll of library code and by the multi-thread drivers) and "the main thread is
/// inside library code right now", both read by the CPU-time watchdog.
pub static BEAT: AtomicU64 = AtomicU64::new(0);
pub static IN_LIB: AtomicBool = AtomicBool::new(false);
pub static CURRENT_CASE: std::sync::Mutex<String> = std::sync::Mutex::new(String::new());

pub fn beat() {
    BEAT.fetch_add(1, Ordering::Relaxed);
}

fn enter_lib() {
    BEAT.fetch_add(1, Ordering::Relaxed);
    IN_LIB.store(true, Ordering::Relaxed);
    IN_LIB_POLL.with(|f| f.set(true));
}

fn leave_lib() {
    IN_LIB_POLL.with(|f| f.set(false));
    IN_LIB.store(false, Ordering::Relaxed);
    BEAT.fetch_add(1, Ordering::Relaxed);
}

fn process_cpu_ticks() -> Option<u64> {
    let s = std::fs::read_to_string("/proc/self/stat").ok()?;
    // fields after the parenthesised command name: state is field 3; utime and stime are fields 14 and 15
    let rest = &s[s.rfind(')')? + 2..];
    let f: Vec<&str> = rest.split_whitespace().collect();
    Some(f.get(11)?.parse::<u64>().ok()? + f.get(12)?.parse::<u64>().ok()?)
}

/// A poll that does not return is the one thing the logical oracles cannot see. Wall-clock time says nothing on a loaded
/// machine; CPU time does: if the process burns `limit_s` seconds of CPU while the heartbeat stands still, one poll has been
/// spinning for that long (the longest legitimate poll, a 256 MiB packet, takes a few seconds). Exit code 97 if the spin is
/// inside library code (a violation, attributed to the running case), 98 if it is in the harness (inconclusive).
pub fn start_cpu_watchdog(limit_s: u64) {
    if limit_s == 0 || process_cpu_ticks().is_none() {
        return;
    }
    std::thread::spawn(move || {
        let mut last_beat = BEAT.load(Ordering::Relaxed);
        let mut base_cpu = process_cpu_ticks().unwrap_or(0);
        loop {
            std::thread::sleep(std::time::Duration::from_millis(500));
            let b = BEAT.load(Ordering::Relaxed);
            let cpu = process_cpu_ticks().unwrap_or(base_cpu);
            if b != last_beat {
                last_beat = b;
                base_cpu = cpu;
                continue;
            }
            if cpu.saturating_sub(base_cpu) > limit_s * 100 {
                let in_lib = IN_LIB.load(Ordering::Relaxed);
                let case = CURRENT_CASE.lock().map(|c| c.clone()).unwrap_or_default();
                println!("PVH WATCHDOG: {limit_s} s of CPU time spent without the current poll returning (inside library code: {in_lib}) case={case}");
                std::process::exit(if in_lib { 97 } else { 98 });
            }
        }
    });
}

pub fn install_panic_hook() {
    std::panic::set_hook(Box::new(|info| {
        let file = info
            .location()
            .map(|l| {
                let comps: Vec<&str> = l.file().split('/').collect();
                let n = comps.len();
                comps[n.saturating_sub(3)..].join("/")
            })
            .unwrap_or_default();
        let line = info.location().map(|l| l.line()).unwrap_or(0);
        let msg = if let Some(s) = info.payload().downcast_ref::<&str>() {
            s.to_string()
        } else if let Some(s) = info.payload().downcast_ref::<String>() {
            s.clone()
        } else {
            "<non-string panic>".to_string()
        };
        if IN_LIB_POLL.with(|f| f.get()) {
            PANIC_MSG.with(|p| *p.borrow_mut() = Some(format!("{msg} @ {file}")));
        } else {
            eprintln!("HARNESS PANIC: {msg} @ {file}:{line}");
        }
    }));
}

fn take_panic_msg() -> String {
    PANIC_MSG.with(|p| p.borrow_mut().take()).unwrap_or_else(|| "<unknown panic>".to_string())
}

// -------------------------------------------------------------------- mocks

pub struct ReaderState {
    pub data: VecDeque<u8>,
    /// caps for successive reads; when exhausted `default_cap` applies
    pub caps: VecDeque<usize>,
    pub default_cap: usize,
    pub eof: bool,
    pub err: bool,
    /// the next read fails once with this (transient) error kind although data may be readable behind it
    pub transient_err: Option<io::ErrorKind>,
    pub waker: Option<Waker>,
    pub reads: u64,
    pub pendings: u64,
    pub zero_len_reads: u64,
    pub total_read: u64,
    pub calls_in_poll: u64,
    pub eof_signalled: bool,
    pub err_signalled: bool,
}

#[derive(Clone)]
pub struct MockReader(pub Rc<RefCell<ReaderState>>);

pub const LIVELOCK_LIMIT: u64 = 4_000_000;

impl MockReader {
    pub fn new() -> MockReader {
        MockReader(Rc::new(RefCell::new(ReaderState {
            data: VecDeque::new(),
            caps: VecDeque::new(),
            default_cap: usize::MAX,
            eof: false,
            err: false,
            transient_err: None,
            waker: None,
            reads: 0,
            pendings: 0,
            zero_len_reads: 0,
            total_read: 0,
            calls_in_poll: 0,
            eof_signalled: false,
            err_signalled: false,
        })))
    }
}

impl AsyncRead for MockReader {
    fn poll_read(self: Pin<&mut Self>, cx: &mut TaskCx<'_>, buf: &mut [u8]) -> Poll<io::Result<usize>> {
        let mut s = self.0.borrow_mut();
        s.calls_in_poll += 1;
        if s.calls_in_poll > LIVELOCK_LIMIT {
            panic!("VERIF_LIVELOCK: transport polled more than {LIVELOCK_LIMIT} times within one poll");
        }
        if buf.is_empty() {
            s.zero_len_reads += 1;
            return Poll::Ready(Ok(0));
        }
        if let Some(kind) = s.transient_err.take() {
            s.err_signalled = true;
            return Poll::Ready(Err(io::Error::new(kind, "mock transient read error")));
        }
        if !s.data.is_empty() {
            let cap = s.caps.pop_front().unwrap_or(s.default_cap).max(1);
            let n = buf.len().min(cap).min(s.data.len());
            for b in buf.iter_mut().take(n) {
                *b = s.data.pop_front().unwrap();
            }
            // only buf[..n] is data: like a transport that decrypts or unmasks in place, the mock leaves something else in the
            // bytes right behind it (continuation-bit patterns and zero in turn)
            let fill = [0xffu8, 0x80, 0x7f, 0x00, 0xd0][(s.reads % 5) as usize];
            for b in buf.iter_mut().skip(n).take(64) {
                *b = fill;
            }
            s.reads += 1;
            s.total_read += n as u64;
            return Poll::Ready(Ok(n));
        }
        if s.err {
            s.err_signalled = true;
            return Poll::Ready(Err(io::Error::new(io::ErrorKind::ConnectionReset, "mock read error")));
        }
        if s.eof {
            s.eof_signalled = true;
            return Poll::Ready(Ok(0));
        }
        s.waker = Some(cx.waker().clone());
        s.pendings += 1;
        Poll::Pending
    }
}

#[derive(Clone, Debug, PartialEq)]
pub enum WritePlan {
    /// accept everything
    All,
    /// accept at most n bytes per call
    Max(usize),
    /// accept at most n bytes per call and return Pending (self-waking) on every other call
    MaxPendingAlt(usize),
}

pub struct WriterState {
    pub written: Vec<u8>,
    pub calls: u64,
    pub plan: WritePlan,
    pub alt: bool,
    pub stalled: bool,
    /// total offset at which writes start failing
    pub err_at: Option<usize>,
    /// one write call fails (TimedOut) once this many bytes have been accepted; afterwards the transport works again
    pub err_once_at: Option<usize>,
    /// total offset from which the sink accepts nothing more: poll_write returns Ok(0) (a full fixed-size sink, a closed pipe)
    pub zero_at: Option<usize>,
    /// total offset from which the writer stops accepting bytes for the time being (Pending, waker kept): back-pressure
    /// setting in in the middle of a packet
    pub stall_at: Option<usize>,
    pub waker: Option<Waker>,
    pub pendings: u64,
    pub calls_in_poll: u64,
    pub err_signalled: bool,
    /// total bytes the library has *attempted* to write counting from the start (max over calls of offset+buf.len())
    pub max_attempt_end: usize,
}

#[derive(Clone)]
pub struct MockWriter(pub Rc<RefCell<WriterState>>);

impl MockWriter {
    pub fn new() -> MockWriter {
        MockWriter(Rc::new(RefCell::new(WriterState {
            written: Vec::new(),
            calls: 0,
            plan: WritePlan::All,
            alt: false,
            stalled: false,
            err_at: None,
            err_once_at: None,
            zero_at: None,
            stall_at: None,
            waker: None,
            pendings: 0,
            calls_in_poll: 0,
            err_signalled: false,
            max_attempt_end: 0,
        })))
    }
}

impl AsyncWrite for MockWriter {
    fn poll_write(self: Pin<&mut Self>, cx: &mut TaskCx<'_>, buf: &[u8]) -> Poll<io::Result<usize>> {
        let mut s = self.0.borrow_mut();
        s.calls_in_poll += 1;
        if s.calls_in_poll > LIVELOCK_LIMIT {
            panic!("VERIF_LIVELOCK: transport polled more than {LIVELOCK_LIMIT} times within one poll");
        }
        s.calls += 1;
        if buf.is_empty() {
            return Poll::Ready(Ok(0));
        }
        if let Some(at) = s.err_at {
            if s.written.len() >= at {
                s.err_signalled = true;
                return Poll::Ready(Err(io::Error::new(io::ErrorKind::BrokenPipe, "mock write error")));
            }
        }
        if let Some(at) = s.err_once_at {
            if s.written.len() >= at {
                s.err_once_at = None;
                s.err_signalled = true;
                return Poll::Ready(Err(io::Error::new(io::ErrorKind::TimedOut, "mock write error (once)")));
            }
        }
        if let Some(at) = s.zero_at {
            if s.written.len() >= at {
                s.err_signalled = true;
                return Poll::Ready(Ok(0));
            }
        }
        if s.stalled || s.stall_at.map(|at| s.written.len() >= at).unwrap_or(false) {
            s.waker = Some(cx.waker().clone());
            s.pendings += 1;
            return Poll::Pending;
        }
        let end = s.written.len() + buf.len();
        if end > s.max_attempt_end {
            s.max_attempt_end = end;
        }
        let mut n = match s.plan {
            WritePlan::All => buf.len(),
            WritePlan::Max(k) => buf.len().min(k.max(1)),
            WritePlan::MaxPendingAlt(k) => {
                s.alt = !s.alt;
                if s.alt {
                    s.pendings += 1;
                    cx.waker().wake_by_ref();
                    return Poll::Pending;
                }
                buf.len().min(k.max(1))
            }
        };
        if let Some(at) = s.err_at {
            n = n.min(at - s.written.len());
        }
        if let Some(at) = s.err_once_at {
            n = n.min(at - s.written.len());
        }
        if let Some(at) = s.zero_at {
            n = n.min(at - s.written.len());
        }
        if let Some(at) = s.stall_at {
            n = n.min(at - s.written.len());
        }
        s.written.extend_from_slice(&buf[..n]);
        Poll::Ready(Ok(n))
    }
    fn poll_flush(self: Pin<&mut Self>, _cx: &mut TaskCx<'_>) -> Poll<io::Result<()>> {
        Poll::Ready(Ok(()))
    }
    fn poll_close(self: Pin<&mut Self>, _cx: &mut TaskCx<'_>) -> Poll<io::Result<()>> {
        Poll::Ready(Ok(()))
    }
}

// ----------------------------------------------------------------- executor

pub type RunQ = Arc<std::sync::Mutex<VecDeque<usize>>>;

pub struct TaskWaker {
    pub woken: AtomicBool,
    pub wakes: AtomicU64,
    pub id: usize,
    pub q: RunQ,
}

impl Wake for TaskWaker {
    fn wake(self: Arc<Self>) {
        self.wake_by_ref()
    }
    fn wake_by_ref(self: &Arc<Self>) {
        self.wakes.fetch_add(1, Ordering::SeqCst);
        if !self.woken.swap(true, Ordering::SeqCst) {
            self.q.lock().unwrap().push_back(self.id);
        }
    }
}

impl TaskWaker {
    pub fn new(id: usize, q: &RunQ) -> Arc<TaskWaker> {
        Arc::new(TaskWaker { woken: AtomicBool::new(false), wakes: AtomicU64::new(0), id, q: q.clone() })
    }
    pub fn is_woken(&self) -> bool {
        self.woken.load(Ordering::SeqCst)
    }
}

pub const CTX_ID: usize = 0;
pub fn op_id(i: usize) -> usize {
    1 + 2 * i
}
pub fn stream_id(i: usize) -> usize {
    2 + 2 * i
}

pub struct Task<T> {
    fut: Option<Pin<Box<dyn Future<Output = T>>>>,
    pub w: Arc<TaskWaker>,
    pub polls: u64,
    pub panic: Option<String>,
}

pub enum Polled<T> {
    Ready(T),
    Pending,
    Panicked(String),
    Gone,
}

impl<T> Task<T> {
    pub fn new(fut: Pin<Box<dyn Future<Output = T>>>, id: usize, q: &RunQ) -> Task<T> {
        Task { fut: Some(fut), w: TaskWaker::new(id, q), polls: 0, panic: None }
    }
    pub fn alive(&self) -> bool {
        self.fut.is_some()
    }
    pub fn woken(&self) -> bool {
        self.fut.is_some() && self.w.is_woken()
    }
    pub fn poll(&mut self) -> Polled<T> {
        let Some(fut) = self.fut.as_mut() else { return Polled::Gone };
        self.w.woken.store(false, Ordering::SeqCst);
        self.polls += 1;
        let waker = Waker::from(self.w.clone());
        let mut cx = TaskCx::from_waker(&waker);
        enter_lib();
        let r = catch_unwind(AssertUnwindSafe(|| fut.as_mut().poll(&mut cx)));
        leave_lib();
        match r {
            Ok(Poll::Ready(v)) => {
                self.fut = None;
                Polled::Ready(v)
            }
            Ok(Poll::Pending) => Polled::Pending,
            Err(_) => {
                let msg = take_panic_msg();
                self.panic = Some(msg.clone());
                self.drop_fut();
                Polled::Panicked(msg)
            }
        }
    }
    /// Drops the future (= cancels the task). A panic inside a destructor is recorded.
    pub fn drop_fut(&mut self) {
        if let Some(f) = self.fut.take() {
            enter_lib();
            let r = catch_unwind(AssertUnwindSafe(move || drop(f)));
            leave_lib();
            if r.is_err() {
                let msg = take_panic_msg();
                self.panic = Some(format!("in drop: {msg}"));
            }
        }
    }
}

// ------------------------------------------------------------- context task

pub type PCtx = Context<MockReader, MockWriter>;

pub enum Cmd {
    SetUp(MockReader, MockWriter),
    Connect(ConnSpec),
    Authorize(AuthSpec),
    Run,
    MarkDisconnected(u64),
    Exit,
}

pub struct CtxShared {
    pub cmds: VecDeque<Cmd>,
    pub results: Vec<(&'static str, CtxOut)>,
    pub in_call: Option<&'static str>,
    /// the application gives up on the run() call in progress: its future is dropped at its current suspension point
    pub cancel_run: bool,
    pub runs_cancelled: usize,
}

struct NextCmd(Rc<RefCell<CtxShared>>);

impl Future for NextCmd {
    type Output = Cmd;
    fn poll(self: Pin<&mut Self>, _cx: &mut TaskCx<'_>) -> Poll<Cmd> {
        match self.0.borrow_mut().cmds.pop_front() {
            Some(c) => Poll::Ready(c),
            None => Poll::Pending, // the harness flags the task woken whenever it queues a command
        }
    }
}

fn conn_out(r: Result<poster::prelude::Either<poster::ConnectRsp, poster::AuthRsp>, poster::error::MqttError>) -> ConnOut {
    match r {
        Ok(poster::prelude::Either::Left(c)) => ConnOut::Connack(sum_connack(&c)),
        Ok(poster::prelude::Either::Right(a)) => ConnOut::Auth(sum_auth(&a)),
        Err(e) => ConnOut::Err(sum_err(&e)),
    }
}

async fn ctx_main(mut ctx: PCtx, sh: Rc<RefCell<CtxShared>>) {
    loop {
        let cmd = NextCmd(sh.clone()).await;
        match cmd {
            Cmd::SetUp(r, w) => {
                ctx.set_up((r, w));
            }
            Cmd::Connect(spec) => {
                sh.borrow_mut().in_call = Some("connect");
                let r = ctx.connect(spec.opts()).await;
                let mut s = sh.borrow_mut();
                s.in_call = None;
                s.results.push(("connect", CtxOut::Conn(conn_out(r))));
            }
            Cmd::Authorize(spec) => {
                sh.borrow_mut().in_call = Some("authorize");
                let r = ctx.authorize(spec.opts()).await;
                let mut s = sh.borrow_mut();
                s.in_call = None;
                s.results.push(("authorize", CtxOut::Conn(conn_out(r))));
            }
            Cmd::Run => {
                sh.borrow_mut().in_call = Some("run");
                let r = {
                    let fut = ctx.run();
                    futures::pin_mut!(fut);
                    let shc = sh.clone();
                    futures::future::poll_fn(move |cx| {
                        if shc.borrow().cancel_run {
                            return Poll::Ready(None);
                        }
                        fut.as_mut().poll(cx).map(Some)
                    })
                    .await
                };
                let mut s = sh.borrow_mut();
                s.in_call = None;
                match r {
                    Some(r) => s.results.push(("run", CtxOut::Run(r.map_err(|e| sum_err(&e))))),
                    None => {
                        s.cancel_run = false;
                        s.runs_cancelled += 1;
                    }
                }
            }
            Cmd::MarkDisconnected(secs) => {
                ctx.verif_mark_disconnected(secs);
            }
            Cmd::Exit => return,
        }
    }
}

// --------------------------------------------------------------- op tasks

type OpTaskOut = (OpOut, Option<SubscribeRsp>);

fn make_op_future(mut h: ContextHandle, spec: OpSpec) -> Pin<Box<dyn Future<Output = OpTaskOut>>> {
    Box::pin(async move {
        match &spec {
            OpSpec::Publish(p) => {
                let r = h.publish(p.opts()).await;
                (OpOut::Unit(r.map_err(|e| sum_err(&e))), None)
            }
            OpSpec::Subscribe(s) => match h.subscribe(s.opts()).await {
                Ok(rsp) => (OpOut::Suback(Ok(sum_suback(&rsp))), Some(rsp)),
                Err(e) => (OpOut::Suback(Err(sum_err(&e))), None),
            },
            OpSpec::Unsubscribe(s) => match h.unsubscribe(s.opts()).await {
                Ok(rsp) => (OpOut::Unsuback(Ok(sum_unsuback(&rsp))), None),
                Err(e) => (OpOut::Unsuback(Err(sum_err(&e))), None),
            },
            OpSpec::Ping => {
                let r = h.ping().await;
                (OpOut::Unit(r.map_err(|e| sum_err(&e))), None)
            }
            OpSpec::Disconnect(d) => {
                let r = h.disconnect(d.opts()).await;
                (OpOut::Unit(r.map_err(|e| sum_err(&e))), None)
            }
        }
    })
}

pub struct OpSlot {
    pub spec: OpSpec,
    pub task: Task<OpTaskOut>,
    pub out: Option<OpOut>,
    pub rsp: Option<SubscribeRsp>,
    pub held: bool,
    pub dropped: bool,
    pub started: bool,
    pub panicked: bool,
    /// value of Sim::step when the result was observed
    pub done_step: u64,
    pub handle: usize,
}

impl OpSlot {
    pub fn pending(&self) -> bool {
        self.task.alive()
    }
}

pub struct StreamSlot {
    pub stream: Option<poster_stream::S>,
    pub w: Arc<TaskWaker>,
    pub items: Vec<MsgSum>,
    pub ended: bool,
    pub polls: u64,
    pub from_op: usize,
    pub held: bool,
}

pub mod poster_stream {
    /// The stream type is not nameable from outside the crate (its module is private), so it is
    /// kept behind a boxed trait object.
    pub type S = std::pin::Pin<Box<dyn futures::Stream<Item = poster::PublishData>>>;
}

#[derive(Debug, Clone)]
pub struct WirePkt {
    pub offset: usize,
    pub bytes: Vec<u8>,
    pub pkt: Result<CPacket, String>,
}

#[derive(Clone, Copy, Debug, PartialEq, Eq)]
pub enum Discipline {
    /// poll a task only when its waker fired
    D0,
    /// D0, plus a sweep polling every live task after each settle
    D1,
    /// D0, plus spurious polls at PRNG-chosen points
    D2,
}

pub struct Sim {
    pub reader: MockReader,
    pub writer: MockWriter,
    pub ctx: Option<Task<()>>,
    pub ctx_sh: Rc<RefCell<CtxShared>>,
    pub ctx_dropped: bool,
    pub hold_ctx: bool,
    pub stream_handovers: u64,
    pub task_handovers: u64,
    pub handles: Vec<Option<ContextHandle>>,
    pub ops: Vec<OpSlot>,
    pub streams: Vec<StreamSlot>,
    pub log: Vec<String>,
    pub panics: Vec<String>,
    pub discipline: Discipline,
    pub auto_streams: bool,
    pub rng: Rng,
    pub order: u8,
    pub step: u64,
    wire_parsed: usize,
    pub wire: Vec<WirePkt>,
    pub wire_split_error: Option<String>,
    /// wires of earlier transports (after resume with a new transport)
    pub old_wires: Vec<Vec<WirePkt>>,
    pub spurious_polls: u64,
    pub sweeps: u64,
    pub sweep_effects: Vec<String>,
    pub fed: u64,
    pub max_io_calls_in_poll: u64,
    pub log_enabled: bool,
    pub runq: RunQ,
    parked: Vec<usize>,
    /// when set, delivered bytes are collected here instead of being handed to the transport
    pub capture: Option<Vec<u8>>,
    pub run_epoch: usize,
    /// deliver inbound bytes in chunks of this size, settling after each chunk
    pub trickle: Option<usize>,
    /// deliver every fed piece in two parts, the first `k` bytes first (see `feed`)
    pub cut_after: Option<usize>,
}

impl Sim {
    pub fn new(seed: u64) -> Sim {
        let (ctx, handle) = PCtx::new();
        let sh = Rc::new(RefCell::new(CtxShared { cmds: VecDeque::new(), results: Vec::new(), in_call: None, cancel_run: false, runs_cancelled: 0 }));
        let reader = MockReader::new();
        let writer = MockWriter::new();
        let runq: RunQ = Arc::new(std::sync::Mutex::new(VecDeque::new()));
        let task = Task::new(Box::pin(ctx_main(ctx, sh.clone())), CTX_ID, &runq);
        let mut s = Sim {
            reader: reader.clone(),
            writer: writer.clone(),
            ctx: Some(task),
            ctx_sh: sh,
            ctx_dropped: false,
            hold_ctx: false,
            stream_handovers: 0,
            task_handovers: 0,
            handles: vec![Some(handle)],
            ops: Vec::new(),
            streams: Vec::new(),
            log: Vec::new(),
            panics: Vec::new(),
            discipline: Discipline::D0,
            auto_streams: true,
            rng: Rng::new(seed),
            order: 0,
            step: 0,
            wire_parsed: 0,
            wire: Vec::new(),
            wire_split_error: None,
            old_wires: Vec::new(),
            spurious_polls: 0,
            sweeps: 0,
            sweep_effects: Vec::new(),
            fed: 0,
            max_io_calls_in_poll: 0,
            log_enabled: true,
            runq,
            parked: Vec::new(),
            capture: None,
            run_epoch: 0,
            trickle: None,
            cut_after: None,
        };
        s.cmd(Cmd::SetUp(reader, writer));
        s
    }

    pub fn note(&mut self, s: impl FnOnce() -> String) {
        if self.log_enabled {
            let line = s();
            self.log.push(line);
        }
    }

    pub fn cmd(&mut self, c: Cmd) {
        self.ctx_sh.borrow_mut().cmds.push_back(c);
        if let Some(t) = &self.ctx {
            t.w.wake_by_ref();
        }
    }

    /// Drops the future of the run() call in progress at its current suspension point (an application that wraps run()
    /// in a timeout or a select). No effect when run() is not in progress.
    pub fn cancel_run(&mut self) {
        if self.ctx_sh.borrow().in_call != Some("run") {
            return;
        }
        self.ctx_sh.borrow_mut().cancel_run = true;
        self.note(|| "application drops the run() future".into());
        if let Some(t) = &self.ctx {
            t.w.wake_by_ref();
        }
    }

    /// Replaces the transport with a fresh pair (for session resumption) and hands it to the context.
    pub fn new_transport(&mut self) {
        self.parse_wire();
        let old = std::mem::take(&mut self.wire);
        self.old_wires.push(old);
        self.wire_parsed = 0;
        self.wire_split_error = None;
        // the new transport behaves like the old one (read caps, write plan)
        let plan = self.writer.0.borrow().plan.clone();
        let cap = self.reader.0.borrow().default_cap;
        self.reader = MockReader::new();
        self.writer = MockWriter::new();
        self.writer.0.borrow_mut().plan = plan;
        self.reader.0.borrow_mut().default_cap = cap;
        let (r, w) = (self.reader.clone(), self.writer.clone());
        self.run_epoch = self.run_results_count();
        self.note(|| "new transport".into());
        self.cmd(Cmd::SetUp(r, w));
    }

    // ---- context task

    pub fn ctx_alive(&self) -> bool {
        self.ctx.as_ref().map(|t| t.alive()).unwrap_or(false)
    }

    pub fn ctx_in_call(&self) -> Option<&'static str> {
        if self.ctx_alive() {
            self.ctx_sh.borrow().in_call
        } else {
            None
        }
    }

    pub fn ctx_results(&self) -> Vec<(&'static str, CtxOut)> {
        self.ctx_sh.borrow().results.clone()
    }

    pub fn last_ctx_result(&self, call: &str) -> Option<CtxOut> {
        self.ctx_sh.borrow().results.iter().rev().find(|(c, _)| *c == call).map(|(_, o)| o.clone())
    }

    /// Result of the current run() call (calls that ended before the last transport change are not counted).
    pub fn run_result(&self) -> Option<Result<(), ErrSum>> {
        let sh = self.ctx_sh.borrow();
        let runs: Vec<&CtxOut> = sh.results.iter().filter(|(c, _)| *c == "run").map(|(_, o)| o).collect();
        match runs.get(self.run_epoch..).and_then(|r| r.last()) {
            Some(CtxOut::Run(r)) => Some(r.clone()),
            _ => None,
        }
    }

    pub fn run_results_count(&self) -> usize {
        self.ctx_sh.borrow().results.iter().filter(|(c, _)| *c == "run").count()
    }

    fn reset_io_counters(&mut self) {
        self.reader.0.borrow_mut().calls_in_poll = 0;
        self.writer.0.borrow_mut().calls_in_poll = 0;
    }

    fn collect_io_counters(&mut self) {
        let c = self.reader.0.borrow().calls_in_poll + self.writer.0.borrow().calls_in_poll;
        if c > self.max_io_calls_in_poll {
            self.max_io_calls_in_poll = c;
        }
    }

    pub fn poll_ctx(&mut self) {
        self.reset_io_counters();
        let nres = self.ctx_sh.borrow().results.len();
        let Some(t) = self.ctx.as_mut() else { return };
        let r = t.poll();
        self.collect_io_counters();
        match r {
            Polled::Panicked(msg) => {
                self.note(|| format!("ctx PANIC: {msg}"));
                self.panics.push(format!("ctx: {msg}"));
                self.ctx_dropped = true;
            }
            Polled::Ready(()) => {
                self.note(|| "ctx task exited".into());
            }
            _ => {}
        }
        let res = self.ctx_sh.borrow().results.clone();
        for (c, o) in res.iter().skip(nres) {
            self.note(|| format!("ctx {c} -> {}", brief_ctx(o)));
        }
    }

    pub fn drop_ctx(&mut self) {
        if let Some(t) = self.ctx.as_mut() {
            t.drop_fut();
            if let Some(p) = t.panic.take() {
                self.panics.push(format!("ctx: {p}"));
            }
        }
        // commands still queued may hold clones of the transport; drop them with the context
        self.ctx_sh.borrow_mut().cmds.clear();
        self.ctx_dropped = true;
        self.note(|| "drop(context)".into());
    }

    // ---- handles / ops

    pub fn clone_handle(&mut self, from: usize) -> usize {
        let h = self.handles[from].as_ref().expect("harness: handle gone").clone();
        self.handles.push(Some(h));
        self.handles.len() - 1
    }

    pub fn drop_handle(&mut self, i: usize) {
        self.handles[i] = None;
        self.note(|| format!("drop(handle {i})"));
    }

    /// Creates the operation's future (from a fresh clone of handle `h`) without polling it.
    pub fn create_op(&mut self, h: usize, spec: OpSpec) -> usize {
        let handle = self.handles[h].as_ref().expect("harness: handle gone").clone();
        let idx = self.ops.len();
        let task = Task::new(make_op_future(handle, spec.clone()), op_id(idx), &self.runq);
        self.note(|| format!("op{idx} create {}", brief_spec(&spec)));
        self.ops.push(OpSlot {
            spec,
            task,
            out: None,
            rsp: None,
            held: false,
            dropped: false,
            started: false,
            panicked: false,
            done_step: 0,
            handle: h,
        });
        idx
    }

    /// create + first poll (the request is submitted during the first poll)
    pub fn start_op(&mut self, h: usize, spec: OpSpec) -> usize {
        let i = self.create_op(h, spec);
        self.poll_op(i);
        i
    }

    pub fn poll_op(&mut self, i: usize) {
        self.reset_io_counters();
        self.step += 1;
        let step = self.step;
        let slot = &mut self.ops[i];
        if !slot.task.alive() {
            return;
        }
        slot.started = true;
        let r = slot.task.poll();
        match r {
            Polled::Ready((out, rsp)) => {
                let b = out.brief();
                slot.out = Some(out);
                slot.rsp = rsp;
                slot.done_step = step;
                self.note(|| format!("op{i} -> {b}"));
            }
            Polled::Panicked(msg) => {
                slot.panicked = true;
                self.note(|| format!("op{i} PANIC: {msg}"));
                self.panics.push(format!("op: {msg}"));
            }
            _ => {}
        }
    }

    pub fn drop_op(&mut self, i: usize) {
        let slot = &mut self.ops[i];
        if slot.task.alive() {
            slot.task.drop_fut();
            slot.dropped = true;
            if let Some(p) = slot.task.panic.take() {
                self.panics.push(format!("op: {p}"));
            }
            self.note(|| format!("op{i} dropped (future cancelled)"));
        }
    }

    // ---- streams

    pub fn take_stream(&mut self, op: usize) -> Option<usize> {
        let rsp = self.ops[op].rsp.take()?;
        let s: poster_stream::S = Box::pin(rsp.stream());
        let w = TaskWaker::new(stream_id(self.streams.len()), &self.runq);
        w.wake_by_ref(); // a new stream is polled once without having been woken
        self.streams.push(StreamSlot {
            stream: Some(s),
            w,
            items: Vec::new(),
            ended: false,
            polls: 0,
            from_op: op,
            held: false,
        });
        let idx = self.streams.len() - 1;
        self.note(|| format!("stream{idx} taken from op{op}"));
        Some(idx)
    }

    /// The future of the context call in progress (run(), connect(), authorize()) or of operation `op` moves to another task:
    /// it is polled under a new waker from now on - once at once, by its new owner -, and only that waker counts.
    pub fn handover_ctx(&mut self) {
        if let Some(t) = self.ctx.as_mut() {
            if t.alive() {
                let id = t.w.id;
                t.w = TaskWaker::new(id, &self.runq);
                t.w.wake_by_ref();
                self.task_handovers += 1;
                self.note(|| "the context's future is handed to another task (new waker)".into());
            }
        }
    }

    pub fn handover_op(&mut self, op: usize) {
        let t = &mut self.ops[op].task;
        if t.alive() {
            let id = t.w.id;
            t.w = TaskWaker::new(id, &self.runq);
            t.w.wake_by_ref();
            self.task_handovers += 1;
            self.note(|| format!("op{op}'s future is handed to another task (new waker)"));
        }
    }

    /// The stream is handed to another task (the first one lost a select, timed out, or passed it on): from now on it is polled
    /// under a new waker, and only that waker being woken gets it polled again. The new owner polls it once on receipt.
    pub fn handover_stream(&mut self, s: usize) {
        if self.streams[s].stream.is_none() {
            return;
        }
        let w = TaskWaker::new(stream_id(s), &self.runq);
        w.wake_by_ref();
        self.streams[s].w = w;
        self.stream_handovers += 1;
        self.note(|| format!("stream{s} handed to another task (new waker)"));
    }

    /// Polls the stream until it returns Pending or ends. Returns number of new items.
    pub fn drain_stream(&mut self, s: usize) -> usize {
        let mut got = 0;
        loop {
            let slot = &mut self.streams[s];
            let Some(st) = slot.stream.as_mut() else { return got };
            slot.w.woken.store(false, Ordering::SeqCst);
            slot.polls += 1;
            let waker = Waker::from(slot.w.clone());
            let mut cx = TaskCx::from_waker(&waker);
            enter_lib();
            let r = catch_unwind(AssertUnwindSafe(|| st.as_mut().poll_next(&mut cx)));
            leave_lib();
            match r {
                Ok(Poll::Ready(Some(m))) => {
                    let m = sum_msg(&m);
                    let b = m.brief();
                    slot.items.push(m);
                    got += 1;
                    self.note(|| format!("stream{s} item {b}"));
                }
                Ok(Poll::Ready(None)) => {
                    slot.ended = true;
                    slot.stream = None;
                    self.note(|| format!("stream{s} ended"));
                    return got;
                }
                Ok(Poll::Pending) => return got,
                Err(_) => {
                    let msg = take_panic_msg();
                    slot.stream = None;
                    self.note(|| format!("stream{s} PANIC: {msg}"));
                    self.panics.push(format!("stream: {msg}"));
                    return got;
                }
            }
        }
    }

    pub fn drop_stream(&mut self, s: usize) {
        self.streams[s].stream = None;
        self.note(|| format!("stream{s} dropped"));
    }

    // ---- transport

    pub fn feed(&mut self, bytes: &[u8]) {
        if let Some(c) = self.capture.as_mut() {
            c.extend_from_slice(bytes);
            return;
        }
        if let Some(k) = self.cut_after {
            if bytes.len() > k && k > 0 {
                // one read boundary k bytes into whatever is delivered (inside the fixed header for small k)
                self.cut_after = None;
                self.feed(&bytes[..k]);
                self.settle();
                self.feed(&bytes[k..]);
                self.cut_after = Some(k);
                return;
            }
        }
        if let Some(k) = self.trickle {
            if bytes.len() > k {
                self.trickle = None;
                for c in bytes.chunks(k.max(1)) {
                    self.feed(c);
                    self.settle();
                }
                self.trickle = Some(k);
                return;
            }
        }
        let w = {
            let mut r = self.reader.0.borrow_mut();
            r.data.extend(bytes.iter().copied());
            r.waker.take()
        };
        self.fed += bytes.len() as u64;
        if let Some(w) = w {
            w.wake();
        }
    }

    pub fn feed_packet(&mut self, p: &SPacket) {
        self.note(|| format!("deliver {}", p.brief()));
        let b = p.encode();
        self.feed(&b);
    }

    pub fn set_eof(&mut self) {
        self.note(|| "transport: EOF".into());
        let w = {
            let mut r = self.reader.0.borrow_mut();
            r.eof = true;
            r.waker.take()
        };
        if let Some(w) = w {
            w.wake();
        }
    }

    /// The next read reports a transient error (EINTR / EAGAIN style) once, with `bytes` readable behind it; one wakeup.
    pub fn set_transient_read_err(&mut self, kind: io::ErrorKind, bytes: &[u8]) {
        self.note(|| format!("transport: one read fails with {kind:?}, {} bytes readable behind it", bytes.len()));
        let w = {
            let mut r = self.reader.0.borrow_mut();
            r.transient_err = Some(kind);
            r.data.extend(bytes.iter().copied());
            r.waker.take()
        };
        self.fed += bytes.len() as u64;
        if let Some(w) = w {
            w.wake();
        }
    }

    pub fn set_read_err(&mut self) {
        self.note(|| "transport: read error".into());
        let w = {
            let mut r = self.reader.0.borrow_mut();
            r.err = true;
            r.waker.take()
        };
        if let Some(w) = w {
            w.wake();
        }
    }

    pub fn stall_writer(&mut self) {
        self.note(|| "transport: writer stalled".into());
        self.writer.0.borrow_mut().stalled = true;
    }

    pub fn release_writer(&mut self) {
        self.note(|| "transport: writer released".into());
        let w = {
            let mut s = self.writer.0.borrow_mut();
            s.stalled = false;
            s.waker.take()
        };
        if let Some(w) = w {
            w.wake();
        }
    }

    pub fn unread(&self) -> usize {
        self.reader.0.borrow().data.len()
    }

    pub fn written_len(&self) -> usize {
        self.writer.0.borrow().written.len()
    }

    // ---- scheduling

    fn any_woken(&self) -> bool {
        !self.runq.lock().unwrap().is_empty()
    }

    /// Moves tasks that were woken while held back onto the run queue.
    fn unpark(&mut self) {
        if !self.parked.is_empty() {
            let p = std::mem::take(&mut self.parked);
            let mut q = self.runq.lock().unwrap();
            for id in p {
                q.push_back(id);
            }
        }
    }

    fn settle_d0(&mut self) {
        self.unpark();
        let mut guard = 0u64;
        loop {
            let mut batch: Vec<usize> = {
                let mut q = self.runq.lock().unwrap();
                q.drain(..).collect()
            };
            if batch.is_empty() {
                break;
            }
            // poll order inside one batch: 0 = ctx, ops ascending; 1 = ops ascending, ctx; 2 = ctx, ops descending; 3 = ops descending, ctx
            let ord = self.order;
            batch.sort_by_key(|&id| {
                let is_ctx = id == CTX_ID;
                let base: i64 = if ord >= 2 { -(id as i64) } else { id as i64 };
                let ctx_key: i64 = if ord % 2 == 0 { i64::MIN } else { i64::MAX };
                if is_ctx {
                    ctx_key
                } else {
                    base
                }
            });
            for id in batch {
                if id == CTX_ID {
                    if self.hold_ctx {
                        self.parked.push(id);
                    } else if self.ctx.as_ref().map(|t| t.woken()).unwrap_or(false) {
                        self.poll_ctx();
                    }
                } else if id % 2 == 1 {
                    let i = (id - 1) / 2;
                    if self.ops[i].held {
                        self.parked.push(id);
                    } else if self.ops[i].task.woken() {
                        self.poll_op(i);
                    }
                } else {
                    let s = (id - 2) / 2;
                    if self.streams[s].held || !self.auto_streams {
                        self.parked.push(id);
                    } else if self.streams[s].stream.is_some() && self.streams[s].w.is_woken() {
                        self.drain_stream(s);
                    }
                }
            }
            if self.discipline == Discipline::D2 && self.rng.chance(1, 3) {
                self.spurious_poll_random();
            }
            guard += 1;
            if guard > 400_000 {
                self.note(|| "settle: more than 400000 scheduling rounds without quiescence (tasks keep waking themselves)".into());
                self.panics.push("VERIF_LIVELOCK: no quiescence after 400000 scheduling rounds (self-waking task never finishes)".into());
                break;
            }
        }
    }

    /// Polls one randomly chosen live task although its waker has not fired.
    pub fn spurious_poll_random(&mut self) {
        let mut cands: Vec<(u8, usize)> = Vec::new();
        if !self.hold_ctx && self.ctx_alive() {
            cands.push((0, 0));
        }
        for (i, o) in self.ops.iter().enumerate() {
            if o.task.alive() && !o.held && o.started {
                cands.push((1, i));
            }
        }
        for (i, s) in self.streams.iter().enumerate() {
            if s.stream.is_some() && !s.held {
                cands.push((2, i));
            }
        }
        if cands.is_empty() {
            return;
        }
        let (k, i) = *self.rng.pick(&cands);
        self.spurious_polls += 1;
        match k {
            0 => self.poll_ctx(),
            1 => self.poll_op(i),
            _ => {
                self.drain_stream(i);
            }
        }
    }

    /// A cheap fingerprint of everything observable, used to detect effects of sweeps.
    pub fn fingerprint(&self) -> (usize, usize, usize, usize, usize) {
        (
            self.written_len(),
            self.ops.iter().filter(|o| o.out.is_some()).count(),
            self.streams.iter().map(|s| s.items.len() + s.ended as usize).sum(),
            self.ctx_sh.borrow().results.len(),
            self.unread(),
        )
    }

    /// Polls every live, non-held task once regardless of wake state.
    pub fn sweep(&mut self) -> bool {
        let before = self.fingerprint();
        self.sweeps += 1;
        if !self.hold_ctx && self.ctx_alive() {
            self.poll_ctx();
        }
        for i in 0..self.ops.len() {
            if self.ops[i].task.alive() && !self.ops[i].held && self.ops[i].started {
                self.poll_op(i);
            }
        }
        for s in 0..self.streams.len() {
            if self.streams[s].stream.is_some() && !self.streams[s].held {
                self.drain_stream(s);
            }
        }
        let after = self.fingerprint();
        before != after
    }

    /// Runs tasks until quiescence under the configured discipline.
    pub fn settle(&mut self) {
        self.settle_d0();
        if self.discipline == Discipline::D1 {
            for _ in 0..1000 {
                self.sweep();
                if !self.any_woken() {
                    break;
                }
                self.settle_d0();
            }
        }
    }

    /// At D0 quiescence: polls everything once more; records if that changed anything
    /// (= progress that depended on a poll nobody asked for).
    pub fn check_sweep_noop(&mut self) -> Option<String> {
        self.settle_d0();
        let before = self.fingerprint();
        let changed = self.sweep();
        self.settle_d0();
        if changed {
            let after = self.fingerprint();
            let m = format!(
                "sweep at quiescence changed observable state {:?} -> {:?} (written, ops done, stream items, ctx results, unread)",
                before, after
            );
            self.sweep_effects.push(m.clone());
            Some(m)
        } else {
            None
        }
    }

    /// Stall = input available that nobody will ever look at.
    /// Returns a description if the context is inside a call, not woken, not blocked on a writer the
    /// script stalled, and the reader holds undelivered input with no waker registered.
    pub fn stalled(&self) -> Option<String> {
        if self.hold_ctx {
            return None;
        }
        let call = self.ctx_in_call()?;
        if self.ctx.as_ref().map(|t| t.woken()).unwrap_or(false) {
            return None;
        }
        {
            let w = self.writer.0.borrow();
            if w.stalled && w.waker.is_some() {
                return None;
            }
        }
        let r = self.reader.0.borrow();
        let undelivered = !r.data.is_empty() || (r.eof && !r.eof_signalled) || (r.err && !r.err_signalled);
        if undelivered && r.waker.is_none() {
            return Some(format!(
                "{call}() is pending and not woken while the transport holds {} unread bytes (eof={}, err={}) and no read waker is registered",
                r.data.len(),
                r.eof,
                r.err
            ));
        }
        None
    }

    // ---- wire

    pub fn parse_wire(&mut self) {
        let w = self.writer.0.borrow();
        let data = &w.written[self.wire_parsed..];
        match refcodec::split_stream(data) {
            Ok((pkts, _rest)) => {
                let mut off = self.wire_parsed;
                for p in pkts {
                    let pkt = refcodec::decode_client_packet(p).map_err(|e| e.0);
                    self.wire.push(WirePkt { offset: off, bytes: p.to_vec(), pkt });
                    off += p.len();
                }
                self.wire_parsed = off;
            }
            Err(e) => {
                if self.wire_split_error.is_none() {
                    self.wire_split_error = Some(format!("at offset {}: {}", self.wire_parsed, e.0));
                }
            }
        }
    }

    /// bytes written that do not yet form a whole packet
    pub fn wire_tail(&mut self) -> usize {
        self.parse_wire();
        self.writer.0.borrow().written.len() - self.wire_parsed
    }

    pub fn tail_log(&self, n: usize) -> String {
        let start = self.log.len().saturating_sub(n);
        let mut s = String::new();
        if start > 0 {
            s.push_str(&format!("... ({} earlier lines)\n", start));
        }
        for l in &self.log[start..] {
            s.push_str(l);
            s.push('\n');
        }
        s
    }
}

impl Drop for Sim {
    fn drop(&mut self) {
        // tear down in a defined order; destructor panics are swallowed here (they were
        // already recorded if they happened during the scenario)
        for o in self.ops.iter_mut() {
            o.task.drop_fut();
        }
        for s in self.streams.iter_mut() {
            s.stream = None;
        }
        if let Some(t) = self.ctx.as_mut() {
            t.drop_fut();
        }
    }
}

pub fn brief_ctx(o: &CtxOut) -> String {
    match o {
        CtxOut::Conn(ConnOut::Connack(c)) => format!("ConnectRsp(reason={:#x})", c.reason),
        CtxOut::Conn(ConnOut::Auth(a)) => format!("AuthRsp(reason={:#x})", a.reason),
        CtxOut::Conn(ConnOut::Err(e)) => format!("Err({e:?})"),
        CtxOut::Run(Ok(())) => "Ok(())".into(),
        CtxOut::Run(Err(e)) => format!("Err({e:?})"),
    }
}

pub fn brief_spec(s: &OpSpec) -> String {
    match s {
        OpSpec::Publish(p) => format!(
            "publish(q{} topic={:?} len={})",
            p.eff_qos(),
            p.topic.as_deref().map(refcodec::trunc),
            p.payload.as_ref().map(|x| x.len()).unwrap_or(0)
        ),
        OpSpec::Subscribe(s) => {
            format!("subscribe({:?})", s.filters.iter().map(|f| refcodec::trunc(&f.0)).collect::<Vec<_>>())
        }
        OpSpec::Unsubscribe(s) => {
            format!("unsubscribe({:?})", s.filters.iter().map(|f| refcodec::trunc(f)).collect::<Vec<_>>())
        }
        OpSpec::Ping => "ping".into(),
        OpSpec::Disconnect(d) => format!("disconnect(reason={:?})", d.reason),
    }
}
